#!/bin/sh
# run every check of a tier in sequence: ./run_all.sh quick|thorough [seed]
TIER="${1:-quick}"; SEED="${2:-0}"
cd "$(dirname "$0")" || exit 2
rc=0
for i in 01 02 03 04 05 06 07 08 09 10 11 12 13 14 15 16 17 18 19 20; do
  ./vcheck "C$i" --tier "$TIER" --seed "$SEED" 2>&1 | grep -E "VIOLATION|INCONCLUSIVE|KNOWN-FINDING|^C$i " | cut -c1-300
  [ "${PIPESTATUS:-0}" = "0" ] || rc=1
done
exit $rc
