#!/bin/sh
# run the given checks of a tier in sequence: ./run_some.sh quick|thorough <seed> C20 C15 ...
TIER="$1"; SEED="$2"; shift 2
cd "$(dirname "$0")" || exit 2
rc=0
for c in "$@"; do
  ./vcheck "$c" --tier "$TIER" --seed "$SEED" --no-evidence 2>&1 | grep -E "VIOLATION|INCONCLUSIVE|KNOWN-FINDING|witness|^$c " | cut -c1-400
done
exit $rc
