"""
ctypes binding of the *real* liblmdb exposing the subset of the py-lmdb API that
nostr_relay/storage/kv.py uses.  Semantics follow py-lmdb's cffi.py (1.4) line by line
where the scanner depends on them:

 * Cursor.set_range() past the end -> False and key() == b''
 * Cursor.prev() on an unpositioned cursor -> MDB_PREV on an uninitialised cursor,
   which liblmdb itself turns into MDB_LAST
 * Cursor.key() re-reads with MDB_GET_CURRENT after a mutation in the same txn
 * iternext()/iterprev() start at first()/last() when the cursor is not valid
 * Transaction.__exit__ commits on success and aborts on exception
 * Environment always opened with MDB_NOTLS (py-lmdb does the same)
 * buffers=True returns memoryview objects (of a private copy: safe after txn end)

Only the main (unnamed) database is supported - kv.py never opens named databases.
"""
import ctypes
import ctypes.util
import os
import threading

__all__ = ["open", "Environment", "Transaction", "Cursor", "Error", "version"]

_HERE = os.path.dirname(os.path.abspath(__file__))
_CANDIDATES = [
    os.environ.get("VERIF_LIBLMDB", ""),
    os.path.join(_HERE, "..", "..", "vendor", "liblmdb.so"),
    "/root/miniconda/lib/liblmdb.so",
]


def _load():
    last = None
    for cand in _CANDIDATES:
        if cand and os.path.exists(cand):
            try:
                return ctypes.CDLL(os.path.abspath(cand)), os.path.abspath(cand)
            except OSError as e:  # pragma: no cover
                last = e
    found = ctypes.util.find_library("lmdb")
    if found:
        return ctypes.CDLL(found), found
    raise ImportError("liblmdb not found (%s)" % last)


_lib, LIB_PATH = _load()
IS_VERIF_SHIM = True


class MDB_val(ctypes.Structure):
    _fields_ = [("mv_size", ctypes.c_size_t), ("mv_data", ctypes.c_void_p)]


class MDB_stat(ctypes.Structure):
    _fields_ = [
        ("ms_psize", ctypes.c_uint),
        ("ms_depth", ctypes.c_uint),
        ("ms_branch_pages", ctypes.c_size_t),
        ("ms_leaf_pages", ctypes.c_size_t),
        ("ms_overflow_pages", ctypes.c_size_t),
        ("ms_entries", ctypes.c_size_t),
    ]


_P = ctypes.c_void_p
_VP = ctypes.POINTER(MDB_val)


def _proto(name, restype, *argtypes):
    f = getattr(_lib, name)
    f.restype = restype
    f.argtypes = list(argtypes)
    return f


mdb_strerror = _proto("mdb_strerror", ctypes.c_char_p, ctypes.c_int)
mdb_version = _proto(
    "mdb_version",
    ctypes.c_char_p,
    ctypes.POINTER(ctypes.c_int),
    ctypes.POINTER(ctypes.c_int),
    ctypes.POINTER(ctypes.c_int),
)
mdb_env_create = _proto("mdb_env_create", ctypes.c_int, ctypes.POINTER(_P))
mdb_env_open = _proto(
    "mdb_env_open", ctypes.c_int, _P, ctypes.c_char_p, ctypes.c_uint, ctypes.c_uint
)
mdb_env_close = _proto("mdb_env_close", None, _P)
mdb_env_set_mapsize = _proto("mdb_env_set_mapsize", ctypes.c_int, _P, ctypes.c_size_t)
mdb_env_set_maxreaders = _proto("mdb_env_set_maxreaders", ctypes.c_int, _P, ctypes.c_uint)
mdb_env_set_maxdbs = _proto("mdb_env_set_maxdbs", ctypes.c_int, _P, ctypes.c_uint)
mdb_env_stat = _proto("mdb_env_stat", ctypes.c_int, _P, ctypes.POINTER(MDB_stat))
mdb_env_sync = _proto("mdb_env_sync", ctypes.c_int, _P, ctypes.c_int)
mdb_env_get_maxkeysize = _proto("mdb_env_get_maxkeysize", ctypes.c_int, _P)
mdb_txn_begin = _proto(
    "mdb_txn_begin", ctypes.c_int, _P, _P, ctypes.c_uint, ctypes.POINTER(_P)
)
mdb_txn_commit = _proto("mdb_txn_commit", ctypes.c_int, _P)
mdb_txn_abort = _proto("mdb_txn_abort", None, _P)
mdb_dbi_open = _proto(
    "mdb_dbi_open", ctypes.c_int, _P, ctypes.c_char_p, ctypes.c_uint,
    ctypes.POINTER(ctypes.c_uint),
)
mdb_stat = _proto("mdb_stat", ctypes.c_int, _P, ctypes.c_uint, ctypes.POINTER(MDB_stat))
mdb_get = _proto("mdb_get", ctypes.c_int, _P, ctypes.c_uint, _VP, _VP)
mdb_put = _proto("mdb_put", ctypes.c_int, _P, ctypes.c_uint, _VP, _VP, ctypes.c_uint)
mdb_del = _proto("mdb_del", ctypes.c_int, _P, ctypes.c_uint, _VP, _VP)
mdb_cursor_open = _proto(
    "mdb_cursor_open", ctypes.c_int, _P, ctypes.c_uint, ctypes.POINTER(_P)
)
mdb_cursor_close = _proto("mdb_cursor_close", None, _P)
mdb_cursor_get = _proto("mdb_cursor_get", ctypes.c_int, _P, _VP, _VP, ctypes.c_int)
mdb_cursor_del = _proto("mdb_cursor_del", ctypes.c_int, _P, ctypes.c_uint)

MDB_NOSUBDIR = 0x4000
MDB_NOSYNC = 0x10000
MDB_RDONLY = 0x20000
MDB_NOMETASYNC = 0x40000
MDB_WRITEMAP = 0x80000
MDB_MAPASYNC = 0x100000
MDB_NOTLS = 0x200000
MDB_NOLOCK = 0x400000
MDB_NORDAHEAD = 0x800000
MDB_NOMEMINIT = 0x1000000
MDB_NOOVERWRITE = 0x10
MDB_NODUPDATA = 0x20
MDB_APPEND = 0x20000

MDB_FIRST = 0
MDB_GET_CURRENT = 4
MDB_LAST = 6
MDB_NEXT = 8
MDB_PREV = 12
MDB_SET = 15
MDB_SET_KEY = 16
MDB_SET_RANGE = 17

MDB_KEYEXIST = -30799
MDB_NOTFOUND = -30798
EINVAL = 22


class Error(Exception):
    def __init__(self, what, code=0):
        self.what = what
        self.code = code
        self.reason = mdb_strerror(code).decode() if code else ""
        msg = what
        if code:
            msg = "%s: %s" % (what, self.reason)
        Exception.__init__(self, msg)


class KeyExistsError(Error):
    pass


class NotFoundError(Error):
    pass


class PageNotFoundError(Error):
    pass


class CorruptedError(Error):
    pass


class PanicError(Error):
    pass


class VersionMismatchError(Error):
    pass


class InvalidError(Error):
    pass


class MapFullError(Error):
    pass


class DbsFullError(Error):
    pass


class ReadersFullError(Error):
    pass


class TlsFullError(Error):
    pass


class TxnFullError(Error):
    pass


class CursorFullError(Error):
    pass


class PageFullError(Error):
    pass


class MapResizedError(Error):
    pass


class IncompatibleError(Error):
    pass


class BadRslotError(Error):
    pass


class BadTxnError(Error):
    pass


class BadValsizeError(Error):
    pass


class BadDbiError(Error):
    pass


class ReadonlyError(Error):
    pass


class InvalidParameterError(Error):
    pass


class LockError(Error):
    pass


class MemoryError(Error):  # noqa: A001 - same name as py-lmdb
    pass


class DiskError(Error):
    pass


_ERRMAP = {
    -30799: KeyExistsError,
    -30798: NotFoundError,
    -30797: PageNotFoundError,
    -30796: CorruptedError,
    -30795: PanicError,
    -30794: VersionMismatchError,
    -30793: InvalidError,
    -30792: MapFullError,
    -30791: DbsFullError,
    -30790: ReadersFullError,
    -30789: TlsFullError,
    -30788: TxnFullError,
    -30787: CursorFullError,
    -30786: PageFullError,
    -30785: MapResizedError,
    -30784: IncompatibleError,
    -30783: BadRslotError,
    -30782: BadTxnError,
    -30781: BadValsizeError,
    -30780: BadDbiError,
    13: ReadonlyError,
    22: InvalidParameterError,
    11: LockError,
    12: MemoryError,
    28: DiskError,
}


def _error(what, rc):
    return _ERRMAP.get(rc, Error)(what, rc)


def version(subpatch=False):
    a, b, c = ctypes.c_int(), ctypes.c_int(), ctypes.c_int()
    mdb_version(ctypes.byref(a), ctypes.byref(b), ctypes.byref(c))
    if subpatch:
        return (a.value, b.value, c.value, 0)
    return (a.value, b.value, c.value)


def _as_bytes(obj, what="key"):
    if isinstance(obj, bytes):
        return obj
    if isinstance(obj, (bytearray, memoryview)):
        return bytes(obj)
    raise TypeError("Won't implicitly convert Unicode to bytes; use .encode()" if isinstance(obj, str)
                    else "%s must be bytes-like, not %s" % (what, type(obj).__name__))


def _mkval(data):
    # keeps `data` alive through the returned (val, buf) tuple
    buf = ctypes.create_string_buffer(data, len(data)) if data else ctypes.create_string_buffer(1)
    val = MDB_val(len(data), ctypes.cast(buf, ctypes.c_void_p))
    return val, buf


def _val_bytes(val):
    if not val.mv_size:
        return b""
    return ctypes.string_at(val.mv_data, val.mv_size)


class Environment:
    def __init__(
        self,
        path,
        map_size=10485760,
        subdir=True,
        readonly=False,
        metasync=True,
        sync=True,
        map_async=False,
        mode=0o755,
        create=True,
        readahead=True,
        writemap=False,
        meminit=True,
        max_readers=126,
        max_dbs=0,
        max_spare_txns=1,
        lock=True,
    ):
        self._env = None
        self._closed = True
        self._lock = threading.Lock()
        self._txns = set()
        self.readonly = readonly
        if isinstance(path, str):
            bpath = path.encode("utf-8")
        else:
            bpath = bytes(path)
        self._path = path if isinstance(path, str) else bpath.decode("utf-8", "replace")
        envp = _P()
        rc = mdb_env_create(ctypes.byref(envp))
        if rc:
            raise _error("mdb_env_create", rc)
        self._env = envp
        self._closed = False
        rc = mdb_env_set_mapsize(envp, map_size)
        if rc:
            raise _error("mdb_env_set_mapsize", rc)
        rc = mdb_env_set_maxreaders(envp, max_readers)
        if rc:
            raise _error("mdb_env_set_maxreaders", rc)
        rc = mdb_env_set_maxdbs(envp, max_dbs)
        if rc:
            raise _error("mdb_env_set_maxdbs", rc)
        if create and subdir and not readonly:
            try:
                os.mkdir(self._path, mode)
            except FileExistsError:
                pass
        flags = MDB_NOTLS
        if not subdir:
            flags |= MDB_NOSUBDIR
        if readonly:
            flags |= MDB_RDONLY
        if not metasync:
            flags |= MDB_NOMETASYNC
        if not sync:
            flags |= MDB_NOSYNC
        if map_async:
            flags |= MDB_MAPASYNC
        if not readahead:
            flags |= MDB_NORDAHEAD
        if writemap:
            flags |= MDB_WRITEMAP
        if not meminit:
            flags |= MDB_NOMEMINIT
        if not lock:
            flags |= MDB_NOLOCK
        rc = mdb_env_open(envp, bpath, flags, mode & ~0o111)
        if rc:
            mdb_env_close(envp)
            self._env = None
            self._closed = True
            raise _error(self._path, rc)
        # open the main dbi once (py-lmdb does this in a transaction at open time)
        txnp = _P()
        rc = mdb_txn_begin(envp, None, MDB_RDONLY if readonly else 0, ctypes.byref(txnp))
        if rc:
            raise _error("mdb_txn_begin", rc)
        dbi = ctypes.c_uint()
        rc = mdb_dbi_open(txnp, None, 0, ctypes.byref(dbi))
        if rc:
            mdb_txn_abort(txnp)
            raise _error("mdb_dbi_open", rc)
        rc = mdb_txn_commit(txnp)
        if rc:
            raise _error("mdb_txn_commit", rc)
        self._dbi = dbi.value

    def __enter__(self):
        return self

    def __exit__(self, *a):
        self.close()

    def __del__(self):
        try:
            self.close()
        except Exception:
            pass

    def path(self):
        return self._path

    def max_key_size(self):
        return mdb_env_get_maxkeysize(self._env)

    def close(self):
        with self._lock:
            if self._closed:
                return
            self._closed = True
            txns = list(self._txns)
            self._txns.clear()
        for t in txns:
            t._invalidate()
        mdb_env_close(self._env)
        self._env = None

    def sync(self, force=False):
        rc = mdb_env_sync(self._env, 1 if force else 0)
        if rc:
            raise _error("mdb_env_sync", rc)

    def stat(self):
        if self._closed:
            raise Error("Attempt to operate on closed/deleted/dropped object.")
        st = MDB_stat()
        rc = mdb_env_stat(self._env, ctypes.byref(st))
        if rc:
            raise _error("mdb_env_stat", rc)
        return {
            "psize": st.ms_psize,
            "depth": st.ms_depth,
            "branch_pages": st.ms_branch_pages,
            "leaf_pages": st.ms_leaf_pages,
            "overflow_pages": st.ms_overflow_pages,
            "entries": st.ms_entries,
        }

    def begin(self, db=None, parent=None, write=False, buffers=False):
        if self._closed:
            raise Error("Attempt to operate on closed/deleted/dropped object.")
        return Transaction(self, db, parent, write, buffers)


class Transaction:
    def __init__(self, env, db=None, parent=None, write=False, buffers=False):
        self.env = env
        self._write = write
        self._buffers = buffers
        self._mutations = 0
        self._txn = None
        self._cursors = set()
        if write and env.readonly:
            raise _error("Cannot start write transaction with read-only env", 13)
        txnp = _P()
        rc = mdb_txn_begin(env._env, None, 0 if write else MDB_RDONLY, ctypes.byref(txnp))
        if rc:
            raise _error("mdb_txn_begin", rc)
        self._txn = txnp
        with env._lock:
            env._txns.add(self)

    # -- lifecycle -----------------------------------------------------------------
    def _forget(self):
        for c in list(self._cursors):
            c._invalidate()
        self._cursors.clear()
        with self.env._lock:
            self.env._txns.discard(self)

    def _invalidate(self):
        if self._txn is not None:
            for c in list(self._cursors):
                c._invalidate()
            self._cursors.clear()
            mdb_txn_abort(self._txn)
            self._txn = None

    def _check(self):
        if self._txn is None:
            raise Error("Attempt to operate on closed/deleted/dropped object.")

    def commit(self):
        self._check()
        self._forget()
        txn, self._txn = self._txn, None
        rc = mdb_txn_commit(txn)
        if rc:
            raise _error("mdb_txn_commit", rc)

    def abort(self):
        if self._txn is not None:
            self._forget()
            txn, self._txn = self._txn, None
            mdb_txn_abort(txn)

    def __enter__(self):
        return self

    def __exit__(self, exc_type, exc, tb):
        if exc_type:
            self.abort()
        else:
            self.commit()

    def __del__(self):
        try:
            if self._txn is not None and self.env is not None and not self.env._closed:
                self.abort()
        except Exception:
            pass

    # -- data ----------------------------------------------------------------------
    def _to_py(self, val):
        data = _val_bytes(val)
        if self._buffers:
            return memoryview(data)
        return data

    def stat(self, db=None):
        self._check()
        st = MDB_stat()
        rc = mdb_stat(self._txn, self.env._dbi, ctypes.byref(st))
        if rc:
            raise _error("mdb_stat", rc)
        return {
            "psize": st.ms_psize,
            "depth": st.ms_depth,
            "branch_pages": st.ms_branch_pages,
            "leaf_pages": st.ms_leaf_pages,
            "overflow_pages": st.ms_overflow_pages,
            "entries": st.ms_entries,
        }

    def get(self, key, default=None, db=None):
        self._check()
        k, kb = _mkval(_as_bytes(key))
        v = MDB_val()
        rc = mdb_get(self._txn, self.env._dbi, ctypes.byref(k), ctypes.byref(v))
        if rc:
            if rc == MDB_NOTFOUND:
                return default
            raise _error("mdb_cursor_get", rc)
        return self._to_py(v)

    def put(self, key, value, dupdata=True, overwrite=True, append=False, db=None):
        self._check()
        flags = 0
        if not dupdata:
            flags |= MDB_NODUPDATA
        if not overwrite:
            flags |= MDB_NOOVERWRITE
        if append:
            flags |= MDB_APPEND
        k, kb = _mkval(_as_bytes(key))
        v, vb = _mkval(_as_bytes(value, "value"))
        rc = mdb_put(self._txn, self.env._dbi, ctypes.byref(k), ctypes.byref(v), flags)
        self._mutations += 1
        if rc:
            if rc == MDB_KEYEXIST:
                return False
            raise _error("mdb_put", rc)
        return True

    def delete(self, key, value=b"", db=None):
        self._check()
        k, kb = _mkval(_as_bytes(key))
        rc = mdb_del(self._txn, self.env._dbi, ctypes.byref(k), None)
        self._mutations += 1
        if rc:
            if rc == MDB_NOTFOUND:
                return False
            raise _error("mdb_del", rc)
        return True

    def cursor(self, db=None):
        self._check()
        return Cursor(db, self)


class Cursor:
    def __init__(self, db, txn):
        self.txn = txn
        self._cur = None
        self._valid = False
        self._key = MDB_val()
        self._val = MDB_val()
        self._keepalive = None
        self._last_mutation = txn._mutations
        curp = _P()
        rc = mdb_cursor_open(txn._txn, txn.env._dbi, ctypes.byref(curp))
        if rc:
            raise _error("mdb_cursor_open", rc)
        self._cur = curp
        txn._cursors.add(self)

    def _invalidate(self):
        if self._cur is not None:
            mdb_cursor_close(self._cur)
            self._cur = None
        self._valid = False
        self._key = MDB_val()
        self._val = MDB_val()

    def close(self):
        if self._cur is not None:
            self.txn._cursors.discard(self)
            self._invalidate()

    def __enter__(self):
        return self

    def __exit__(self, *a):
        self.close()

    def __del__(self):
        # cursors of finished transactions were already closed by the transaction
        pass

    def _check(self):
        if self._cur is None:
            raise Error("Attempt to operate on closed/deleted/dropped object.")

    def _cursor_get(self, op):
        self._check()
        rc = mdb_cursor_get(self._cur, ctypes.byref(self._key), ctypes.byref(self._val), op)
        self._valid = v = not rc
        self._last_mutation = self.txn._mutations
        if rc:
            self._key = MDB_val()
            self._val = MDB_val()
            if rc != MDB_NOTFOUND:
                if not (rc == EINVAL and op == MDB_GET_CURRENT):
                    raise _error("mdb_cursor_get", rc)
        return v

    def _cursor_get_kv(self, op, k, v=b""):
        self._check()
        kb = _as_bytes(k)
        self._key, self._keepalive = _mkval(kb)
        self._val = MDB_val()
        rc = mdb_cursor_get(self._cur, ctypes.byref(self._key), ctypes.byref(self._val), op)
        self._valid = ok = not rc
        if rc:
            self._key = MDB_val()
            self._val = MDB_val()
            if rc != MDB_NOTFOUND:
                if not (rc == EINVAL and op == MDB_GET_CURRENT):
                    raise _error("mdb_cursor_get", rc)
        else:
            # after MDB_SET the key MDB_val still points at our buffer; re-read so that
            # key() returns engine memory like py-lmdb does for SET_KEY/SET_RANGE
            pass
        self._last_mutation = self.txn._mutations
        return ok

    def _refresh(self):
        if self._last_mutation != self.txn._mutations:
            self._cursor_get(MDB_GET_CURRENT)

    def key(self):
        self._check()
        self._refresh()
        return self.txn._to_py(self._key)

    def value(self):
        self._check()
        self._refresh()
        return self.txn._to_py(self._val)

    def item(self):
        self._check()
        self._refresh()
        return self.txn._to_py(self._key), self.txn._to_py(self._val)

    def first(self):
        return self._cursor_get(MDB_FIRST)

    def last(self):
        return self._cursor_get(MDB_LAST)

    def next(self):
        return self._cursor_get(MDB_NEXT)

    def prev(self):
        return self._cursor_get(MDB_PREV)

    def set_key(self, key):
        return self._cursor_get_kv(MDB_SET_KEY, key)

    def set_range(self, key):
        if not key:
            return self.first()
        return self._cursor_get_kv(MDB_SET_RANGE, key)

    def get(self, key, default=None):
        if self._cursor_get_kv(MDB_SET_KEY, key):
            return self.txn._to_py(self._val)
        return default

    def delete(self, dupdata=False):
        self._check()
        v = self._valid
        if v:
            rc = mdb_cursor_del(self._cur, 0)
            self.txn._mutations += 1
            if rc:
                raise _error("mdb_cursor_del", rc)
            self._cursor_get(MDB_GET_CURRENT)
            v = rc == 0
        return v

    def _iter(self, op, keys, values):
        if not values:
            get = self.key
        elif not keys:
            get = self.value
        else:
            get = self.item
        rc = 0
        while self._valid:
            yield get()
            self._check()
            rc = mdb_cursor_get(self._cur, ctypes.byref(self._key), ctypes.byref(self._val), op)
            self._valid = not rc
        if rc:
            self._key = MDB_val()
            self._val = MDB_val()
            if rc != MDB_NOTFOUND:
                raise _error("mdb_cursor_get", rc)

    def iternext(self, keys=True, values=True):
        if not self._valid:
            self.first()
        return self._iter(MDB_NEXT, keys, values)

    __iter__ = iternext

    def iterprev(self, keys=True, values=True):
        if not self._valid:
            self.last()
        return self._iter(MDB_PREV, keys, values)


def open(path, **kwargs):  # noqa: A001 - py-lmdb API name
    return Environment(path, **kwargs)
