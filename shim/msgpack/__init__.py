# ruff: noqa: F401
import os

from .exceptions import *  # noqa: F403
from .ext import ExtType, Timestamp

version = (1, 1, 2)
__version__ = "1.1.2"


if os.environ.get("MSGPACK_PUREPYTHON"):
    from .fallback import Packer, Unpacker, unpackb
else:
    try:
        from ._cmsgpack import Packer, Unpacker, unpackb
    except ImportError:
        from .fallback import Packer, Unpacker, unpackb


def pack(o, stream, **kwargs):
    """
    Pack object `o` and write it to `stream`

    See :class:`Packer` for options.
    """
    packer = Packer(**kwargs)
    stream.write(packer.pack(o))


def packb(o, **kwargs):
    """
    Pack object `o` and return packed bytes

    See :class:`Packer` for options.
    """
    return Packer(**kwargs).pack(o)


def unpack(stream, **kwargs):
    """
    Unpack an object from `stream`.

    Raises `ExtraData` when `stream` contains extra bytes.
    See :class:`Unpacker` for options.
    """
    data = stream.read()
    return unpackb(data, **kwargs)


# alias for compatibility to simplejson/marshal/pickle.
load = unpack
loads = unpackb

dump = pack
dumps = packb
