class UnpackException(Exception):
    """Base class for some exceptions raised while unpacking.

    NOTE: unpack may raise exception other than subclass of
    UnpackException.  If you want to catch all error, catch
    Exception instead.
    """


class BufferFull(UnpackException):
    pass


class OutOfData(UnpackException):
    pass


class FormatError(ValueError, UnpackException):
    """Invalid msgpack format"""


class StackError(ValueError, UnpackException):
    """Too nested"""


# Deprecated.  Use ValueError instead
UnpackValueError = ValueError


class ExtraData(UnpackValueError):
    """ExtraData is raised when there is trailing data.

    This exception is raised while only one-shot (not streaming)
    unpack.
    """

    def __init__(self, unpacked, extra):
        self.unpacked = unpacked
        self.extra = extra

    def __str__(self):
        return "unpack(b) received extra data."


# Deprecated.  Use Exception instead to catch all exception during packing.
PackException = Exception
PackValueError = ValueError
PackOverflowError = OverflowError
