import datetime
import struct
from collections import namedtuple


class ExtType(namedtuple("ExtType", "code data")):
    """ExtType represents ext type in msgpack."""

    def __new__(cls, code, data):
        if not isinstance(code, int):
            raise TypeError("code must be int")
        if not isinstance(data, bytes):
            raise TypeError("data must be bytes")
        if not 0 <= code <= 127:
            raise ValueError("code must be 0~127")
        return super().__new__(cls, code, data)


class Timestamp:
    """Timestamp represents the Timestamp extension type in msgpack.

    When built with Cython, msgpack uses C methods to pack and unpack `Timestamp`.
    When using pure-Python msgpack, :func:`to_bytes` and :func:`from_bytes` are used to pack and
    unpack `Timestamp`.

    This class is immutable: Do not override seconds and nanoseconds.
    """

    __slots__ = ["seconds", "nanoseconds"]

    def __init__(self, seconds, nanoseconds=0):
        """Initialize a Timestamp object.

        :param int seconds:
            Number of seconds since the UNIX epoch (00:00:00 UTC Jan 1 1970, minus leap seconds).
            May be negative.

        :param int nanoseconds:
            Number of nanoseconds to add to `seconds` to get fractional time.
            Maximum is 999_999_999.  Default is 0.

        Note: Negative times (before the UNIX epoch) are represented as neg. seconds + pos. ns.
        """
        if not isinstance(seconds, int):
            raise TypeError("seconds must be an integer")
        if not isinstance(nanoseconds, int):
            raise TypeError("nanoseconds must be an integer")
        if not (0 <= nanoseconds < 10**9):
            raise ValueError("nanoseconds must be a non-negative integer less than 999999999.")
        self.seconds = seconds
        self.nanoseconds = nanoseconds

    def __repr__(self):
        """String representation of Timestamp."""
        return f"Timestamp(seconds={self.seconds}, nanoseconds={self.nanoseconds})"

    def __eq__(self, other):
        """Check for equality with another Timestamp object"""
        if type(other) is self.__class__:
            return self.seconds == other.seconds and self.nanoseconds == other.nanoseconds
        return False

    def __ne__(self, other):
        """not-equals method (see :func:`__eq__()`)"""
        return not self.__eq__(other)

    def __hash__(self):
        return hash((self.seconds, self.nanoseconds))

    @staticmethod
    def from_bytes(b):
        """Unpack bytes into a `Timestamp` object.

        Used for pure-Python msgpack unpacking.

        :param b: Payload from msgpack ext message with code -1
        :type b: bytes

        :returns: Timestamp object unpacked from msgpack ext payload
        :rtype: Timestamp
        """
        if len(b) == 4:
            seconds = struct.unpack("!L", b)[0]
            nanoseconds = 0
        elif len(b) == 8:
            data64 = struct.unpack("!Q", b)[0]
            seconds = data64 & 0x00000003FFFFFFFF
            nanoseconds = data64 >> 34
        elif len(b) == 12:
            nanoseconds, seconds = struct.unpack("!Iq", b)
        else:
            raise ValueError(
                "Timestamp type can only be created from 32, 64, or 96-bit byte objects"
            )
        return Timestamp(seconds, nanoseconds)

    def to_bytes(self):
        """Pack this Timestamp object into bytes.

        Used for pure-Python msgpack packing.

        :returns data: Payload for EXT message with code -1 (timestamp type)
        :rtype: bytes
        """
        if (self.seconds >> 34) == 0:  # seconds is non-negative and fits in 34 bits
            data64 = self.nanoseconds << 34 | self.seconds
            if data64 & 0xFFFFFFFF00000000 == 0:
                # nanoseconds is zero and seconds < 2**32, so timestamp 32
                data = struct.pack("!L", data64)
            else:
                # timestamp 64
                data = struct.pack("!Q", data64)
        else:
            # timestamp 96
            data = struct.pack("!Iq", self.nanoseconds, self.seconds)
        return data

    @staticmethod
    def from_unix(unix_sec):
        """Create a Timestamp from posix timestamp in seconds.

        :param unix_float: Posix timestamp in seconds.
        :type unix_float: int or float
        """
        seconds = int(unix_sec // 1)
        nanoseconds = int((unix_sec % 1) * 10**9)
        return Timestamp(seconds, nanoseconds)

    def to_unix(self):
        """Get the timestamp as a floating-point value.

        :returns: posix timestamp
        :rtype: float
        """
        return self.seconds + self.nanoseconds / 1e9

    @staticmethod
    def from_unix_nano(unix_ns):
        """Create a Timestamp from posix timestamp in nanoseconds.

        :param int unix_ns: Posix timestamp in nanoseconds.
        :rtype: Timestamp
        """
        return Timestamp(*divmod(unix_ns, 10**9))

    def to_unix_nano(self):
        """Get the timestamp as a unixtime in nanoseconds.

        :returns: posix timestamp in nanoseconds
        :rtype: int
        """
        return self.seconds * 10**9 + self.nanoseconds

    def to_datetime(self):
        """Get the timestamp as a UTC datetime.

        :rtype: `datetime.datetime`
        """
        utc = datetime.timezone.utc
        return datetime.datetime.fromtimestamp(0, utc) + datetime.timedelta(
            seconds=self.seconds, microseconds=self.nanoseconds // 1000
        )

    @staticmethod
    def from_datetime(dt):
        """Create a Timestamp from datetime with tzinfo.

        :rtype: Timestamp
        """
        return Timestamp(seconds=int(dt.timestamp()), nanoseconds=dt.microsecond * 1000)
