"""Fallback pure Python implementation of msgpack"""

import struct
import sys
from datetime import datetime as _DateTime

if hasattr(sys, "pypy_version_info"):
    from __pypy__ import newlist_hint
    from __pypy__.builders import BytesBuilder

    _USING_STRINGBUILDER = True

    class BytesIO:
        def __init__(self, s=b""):
            if s:
                self.builder = BytesBuilder(len(s))
                self.builder.append(s)
            else:
                self.builder = BytesBuilder()

        def write(self, s):
            if isinstance(s, memoryview):
                s = s.tobytes()
            elif isinstance(s, bytearray):
                s = bytes(s)
            self.builder.append(s)

        def getvalue(self):
            return self.builder.build()

else:
    from io import BytesIO

    _USING_STRINGBUILDER = False

    def newlist_hint(size):
        return []


from .exceptions import BufferFull, ExtraData, FormatError, OutOfData, StackError
from .ext import ExtType, Timestamp

EX_SKIP = 0
EX_CONSTRUCT = 1
EX_READ_ARRAY_HEADER = 2
EX_READ_MAP_HEADER = 3

TYPE_IMMEDIATE = 0
TYPE_ARRAY = 1
TYPE_MAP = 2
TYPE_RAW = 3
TYPE_BIN = 4
TYPE_EXT = 5

DEFAULT_RECURSE_LIMIT = 511


def _check_type_strict(obj, t, type=type, tuple=tuple):
    if type(t) is tuple:
        return type(obj) in t
    else:
        return type(obj) is t


def _get_data_from_buffer(obj):
    view = memoryview(obj)
    if view.itemsize != 1:
        raise ValueError("cannot unpack from multi-byte object")
    return view


def unpackb(packed, **kwargs):
    """
    Unpack an object from `packed`.

    Raises ``ExtraData`` when *packed* contains extra bytes.
    Raises ``ValueError`` when *packed* is incomplete.
    Raises ``FormatError`` when *packed* is not valid msgpack.
    Raises ``StackError`` when *packed* contains too nested.
    Other exceptions can be raised during unpacking.

    See :class:`Unpacker` for options.
    """
    unpacker = Unpacker(None, max_buffer_size=len(packed), **kwargs)
    unpacker.feed(packed)
    try:
        ret = unpacker._unpack()
    except OutOfData:
        raise ValueError("Unpack failed: incomplete input")
    except RecursionError:
        raise StackError
    if unpacker._got_extradata():
        raise ExtraData(ret, unpacker._get_extradata())
    return ret


_NO_FORMAT_USED = ""
_MSGPACK_HEADERS = {
    0xC4: (1, _NO_FORMAT_USED, TYPE_BIN),
    0xC5: (2, ">H", TYPE_BIN),
    0xC6: (4, ">I", TYPE_BIN),
    0xC7: (2, "Bb", TYPE_EXT),
    0xC8: (3, ">Hb", TYPE_EXT),
    0xC9: (5, ">Ib", TYPE_EXT),
    0xCA: (4, ">f"),
    0xCB: (8, ">d"),
    0xCC: (1, _NO_FORMAT_USED),
    0xCD: (2, ">H"),
    0xCE: (4, ">I"),
    0xCF: (8, ">Q"),
    0xD0: (1, "b"),
    0xD1: (2, ">h"),
    0xD2: (4, ">i"),
    0xD3: (8, ">q"),
    0xD4: (1, "b1s", TYPE_EXT),
    0xD5: (2, "b2s", TYPE_EXT),
    0xD6: (4, "b4s", TYPE_EXT),
    0xD7: (8, "b8s", TYPE_EXT),
    0xD8: (16, "b16s", TYPE_EXT),
    0xD9: (1, _NO_FORMAT_USED, TYPE_RAW),
    0xDA: (2, ">H", TYPE_RAW),
    0xDB: (4, ">I", TYPE_RAW),
    0xDC: (2, ">H", TYPE_ARRAY),
    0xDD: (4, ">I", TYPE_ARRAY),
    0xDE: (2, ">H", TYPE_MAP),
    0xDF: (4, ">I", TYPE_MAP),
}


class Unpacker:
    """Streaming unpacker.

    Arguments:

    :param file_like:
        File-like object having `.read(n)` method.
        If specified, unpacker reads serialized data from it and `.feed()` is not usable.

    :param int read_size:
        Used as `file_like.read(read_size)`. (default: `min(16*1024, max_buffer_size)`)

    :param bool use_list:
        If true, unpack msgpack array to Python list.
        Otherwise, unpack to Python tuple. (default: True)

    :param bool raw:
        If true, unpack msgpack raw to Python bytes.
        Otherwise, unpack to Python str by decoding with UTF-8 encoding (default).

    :param int timestamp:
        Control how timestamp type is unpacked:

            0 - Timestamp
            1 - float  (Seconds from the EPOCH)
            2 - int  (Nanoseconds from the EPOCH)
            3 - datetime.datetime  (UTC).

    :param bool strict_map_key:
        If true (default), only str or bytes are accepted for map (dict) keys.

    :param object_hook:
        When specified, it should be callable.
        Unpacker calls it with a dict argument after unpacking msgpack map.
        (See also simplejson)

    :param object_pairs_hook:
        When specified, it should be callable.
        Unpacker calls it with a list of key-value pairs after unpacking msgpack map.
        (See also simplejson)

    :param str unicode_errors:
        The error handler for decoding unicode. (default: 'strict')
        This option should be used only when you have msgpack data which
        contains invalid UTF-8 string.

    :param int max_buffer_size:
        Limits size of data waiting unpacked.  0 means 2**32-1.
        The default value is 100*1024*1024 (100MiB).
        Raises `BufferFull` exception when it is insufficient.
        You should set this parameter when unpacking data from untrusted source.

    :param int max_str_len:
        Deprecated, use *max_buffer_size* instead.
        Limits max length of str. (default: max_buffer_size)

    :param int max_bin_len:
        Deprecated, use *max_buffer_size* instead.
        Limits max length of bin. (default: max_buffer_size)

    :param int max_array_len:
        Limits max length of array.
        (default: max_buffer_size)

    :param int max_map_len:
        Limits max length of map.
        (default: max_buffer_size//2)

    :param int max_ext_len:
        Deprecated, use *max_buffer_size* instead.
        Limits max size of ext type.  (default: max_buffer_size)

    Example of streaming deserialize from file-like object::

        unpacker = Unpacker(file_like)
        for o in unpacker:
            process(o)

    Example of streaming deserialize from socket::

        unpacker = Unpacker()
        while True:
            buf = sock.recv(1024**2)
            if not buf:
                break
            unpacker.feed(buf)
            for o in unpacker:
                process(o)

    Raises ``ExtraData`` when *packed* contains extra bytes.
    Raises ``OutOfData`` when *packed* is incomplete.
    Raises ``FormatError`` when *packed* is not valid msgpack.
    Raises ``StackError`` when *packed* contains too nested.
    Other exceptions can be raised during unpacking.
    """

    def __init__(
        self,
        file_like=None,
        *,
        read_size=0,
        use_list=True,
        raw=False,
        timestamp=0,
        strict_map_key=True,
        object_hook=None,
        object_pairs_hook=None,
        list_hook=None,
        unicode_errors=None,
        max_buffer_size=100 * 1024 * 1024,
        ext_hook=ExtType,
        max_str_len=-1,
        max_bin_len=-1,
        max_array_len=-1,
        max_map_len=-1,
        max_ext_len=-1,
    ):
        if unicode_errors is None:
            unicode_errors = "strict"

        if file_like is None:
            self._feeding = True
        else:
            if not callable(file_like.read):
                raise TypeError("`file_like.read` must be callable")
            self.file_like = file_like
            self._feeding = False

        #: array of bytes fed.
        self._buffer = bytearray()
        #: Which position we currently reads
        self._buff_i = 0

        # When Unpacker is used as an iterable, between the calls to next(),
        # the buffer is not "consumed" completely, for efficiency sake.
        # Instead, it is done sloppily.  To make sure we raise BufferFull at
        # the correct moments, we have to keep track of how sloppy we were.
        # Furthermore, when the buffer is incomplete (that is: in the case
        # we raise an OutOfData) we need to rollback the buffer to the correct
        # state, which _buf_checkpoint records.
        self._buf_checkpoint = 0

        if not max_buffer_size:
            max_buffer_size = 2**31 - 1
        if max_str_len == -1:
            max_str_len = max_buffer_size
        if max_bin_len == -1:
            max_bin_len = max_buffer_size
        if max_array_len == -1:
            max_array_len = max_buffer_size
        if max_map_len == -1:
            max_map_len = max_buffer_size // 2
        if max_ext_len == -1:
            max_ext_len = max_buffer_size

        self._max_buffer_size = max_buffer_size
        if read_size > self._max_buffer_size:
            raise ValueError("read_size must be smaller than max_buffer_size")
        self._read_size = read_size or min(self._max_buffer_size, 16 * 1024)
        self._raw = bool(raw)
        self._strict_map_key = bool(strict_map_key)
        self._unicode_errors = unicode_errors
        self._use_list = use_list
        if not (0 <= timestamp <= 3):
            raise ValueError("timestamp must be 0..3")
        self._timestamp = timestamp
        self._list_hook = list_hook
        self._object_hook = object_hook
        self._object_pairs_hook = object_pairs_hook
        self._ext_hook = ext_hook
        self._max_str_len = max_str_len
        self._max_bin_len = max_bin_len
        self._max_array_len = max_array_len
        self._max_map_len = max_map_len
        self._max_ext_len = max_ext_len
        self._stream_offset = 0

        if list_hook is not None and not callable(list_hook):
            raise TypeError("`list_hook` is not callable")
        if object_hook is not None and not callable(object_hook):
            raise TypeError("`object_hook` is not callable")
        if object_pairs_hook is not None and not callable(object_pairs_hook):
            raise TypeError("`object_pairs_hook` is not callable")
        if object_hook is not None and object_pairs_hook is not None:
            raise TypeError("object_pairs_hook and object_hook are mutually exclusive")
        if not callable(ext_hook):
            raise TypeError("`ext_hook` is not callable")

    def feed(self, next_bytes):
        assert self._feeding
        view = _get_data_from_buffer(next_bytes)
        if len(self._buffer) - self._buff_i + len(view) > self._max_buffer_size:
            raise BufferFull

        # Strip buffer before checkpoint before reading file.
        if self._buf_checkpoint > 0:
            del self._buffer[: self._buf_checkpoint]
            self._buff_i -= self._buf_checkpoint
            self._buf_checkpoint = 0

        # Use extend here: INPLACE_ADD += doesn't reliably typecast memoryview in jython
        self._buffer.extend(view)
        view.release()

    def _consume(self):
        """Gets rid of the used parts of the buffer."""
        self._stream_offset += self._buff_i - self._buf_checkpoint
        self._buf_checkpoint = self._buff_i

    def _got_extradata(self):
        return self._buff_i < len(self._buffer)

    def _get_extradata(self):
        return self._buffer[self._buff_i :]

    def read_bytes(self, n):
        ret = self._read(n, raise_outofdata=False)
        self._consume()
        return ret

    def _read(self, n, raise_outofdata=True):
        # (int) -> bytearray
        self._reserve(n, raise_outofdata=raise_outofdata)
        i = self._buff_i
        ret = self._buffer[i : i + n]
        self._buff_i = i + len(ret)
        return ret

    def _reserve(self, n, raise_outofdata=True):
        remain_bytes = len(self._buffer) - self._buff_i - n

        # Fast path: buffer has n bytes already
        if remain_bytes >= 0:
            return

        if self._feeding:
            self._buff_i = self._buf_checkpoint
            raise OutOfData

        # Strip buffer before checkpoint before reading file.
        if self._buf_checkpoint > 0:
            del self._buffer[: self._buf_checkpoint]
            self._buff_i -= self._buf_checkpoint
            self._buf_checkpoint = 0

        # Read from file
        remain_bytes = -remain_bytes
        if remain_bytes + len(self._buffer) > self._max_buffer_size:
            raise BufferFull
        while remain_bytes > 0:
            to_read_bytes = max(self._read_size, remain_bytes)
            read_data = self.file_like.read(to_read_bytes)
            if not read_data:
                break
            assert isinstance(read_data, bytes)
            self._buffer += read_data
            remain_bytes -= len(read_data)

        if len(self._buffer) < n + self._buff_i and raise_outofdata:
            self._buff_i = 0  # rollback
            raise OutOfData

    def _read_header(self):
        typ = TYPE_IMMEDIATE
        n = 0
        obj = None
        self._reserve(1)
        b = self._buffer[self._buff_i]
        self._buff_i += 1
        if b & 0b10000000 == 0:
            obj = b
        elif b & 0b11100000 == 0b11100000:
            obj = -1 - (b ^ 0xFF)
        elif b & 0b11100000 == 0b10100000:
            n = b & 0b00011111
            typ = TYPE_RAW
            if n > self._max_str_len:
                raise ValueError(f"{n} exceeds max_str_len({self._max_str_len})")
            obj = self._read(n)
        elif b & 0b11110000 == 0b10010000:
            n = b & 0b00001111
            typ = TYPE_ARRAY
            if n > self._max_array_len:
                raise ValueError(f"{n} exceeds max_array_len({self._max_array_len})")
        elif b & 0b11110000 == 0b10000000:
            n = b & 0b00001111
            typ = TYPE_MAP
            if n > self._max_map_len:
                raise ValueError(f"{n} exceeds max_map_len({self._max_map_len})")
        elif b == 0xC0:
            obj = None
        elif b == 0xC2:
            obj = False
        elif b == 0xC3:
            obj = True
        elif 0xC4 <= b <= 0xC6:
            size, fmt, typ = _MSGPACK_HEADERS[b]
            self._reserve(size)
            if len(fmt) > 0:
                n = struct.unpack_from(fmt, self._buffer, self._buff_i)[0]
            else:
                n = self._buffer[self._buff_i]
            self._buff_i += size
            if n > self._max_bin_len:
                raise ValueError(f"{n} exceeds max_bin_len({self._max_bin_len})")
            obj = self._read(n)
        elif 0xC7 <= b <= 0xC9:
            size, fmt, typ = _MSGPACK_HEADERS[b]
            self._reserve(size)
            L, n = struct.unpack_from(fmt, self._buffer, self._buff_i)
            self._buff_i += size
            if L > self._max_ext_len:
                raise ValueError(f"{L} exceeds max_ext_len({self._max_ext_len})")
            obj = self._read(L)
        elif 0xCA <= b <= 0xD3:
            size, fmt = _MSGPACK_HEADERS[b]
            self._reserve(size)
            if len(fmt) > 0:
                obj = struct.unpack_from(fmt, self._buffer, self._buff_i)[0]
            else:
                obj = self._buffer[self._buff_i]
            self._buff_i += size
        elif 0xD4 <= b <= 0xD8:
            size, fmt, typ = _MSGPACK_HEADERS[b]
            if self._max_ext_len < size:
                raise ValueError(f"{size} exceeds max_ext_len({self._max_ext_len})")
            self._reserve(size + 1)
            n, obj = struct.unpack_from(fmt, self._buffer, self._buff_i)
            self._buff_i += size + 1
        elif 0xD9 <= b <= 0xDB:
            size, fmt, typ = _MSGPACK_HEADERS[b]
            self._reserve(size)
            if len(fmt) > 0:
                (n,) = struct.unpack_from(fmt, self._buffer, self._buff_i)
            else:
                n = self._buffer[self._buff_i]
            self._buff_i += size
            if n > self._max_str_len:
                raise ValueError(f"{n} exceeds max_str_len({self._max_str_len})")
            obj = self._read(n)
        elif 0xDC <= b <= 0xDD:
            size, fmt, typ = _MSGPACK_HEADERS[b]
            self._reserve(size)
            (n,) = struct.unpack_from(fmt, self._buffer, self._buff_i)
            self._buff_i += size
            if n > self._max_array_len:
                raise ValueError(f"{n} exceeds max_array_len({self._max_array_len})")
        elif 0xDE <= b <= 0xDF:
            size, fmt, typ = _MSGPACK_HEADERS[b]
            self._reserve(size)
            (n,) = struct.unpack_from(fmt, self._buffer, self._buff_i)
            self._buff_i += size
            if n > self._max_map_len:
                raise ValueError(f"{n} exceeds max_map_len({self._max_map_len})")
        else:
            raise FormatError("Unknown header: 0x%x" % b)
        return typ, n, obj

    def _unpack(self, execute=EX_CONSTRUCT):
        typ, n, obj = self._read_header()

        if execute == EX_READ_ARRAY_HEADER:
            if typ != TYPE_ARRAY:
                raise ValueError("Expected array")
            return n
        if execute == EX_READ_MAP_HEADER:
            if typ != TYPE_MAP:
                raise ValueError("Expected map")
            return n
        # TODO should we eliminate the recursion?
        if typ == TYPE_ARRAY:
            if execute == EX_SKIP:
                for i in range(n):
                    # TODO check whether we need to call `list_hook`
                    self._unpack(EX_SKIP)
                return
            ret = newlist_hint(n)
            for i in range(n):
                ret.append(self._unpack(EX_CONSTRUCT))
            if self._list_hook is not None:
                ret = self._list_hook(ret)
            # TODO is the interaction between `list_hook` and `use_list` ok?
            return ret if self._use_list else tuple(ret)
        if typ == TYPE_MAP:
            if execute == EX_SKIP:
                for i in range(n):
                    # TODO check whether we need to call hooks
                    self._unpack(EX_SKIP)
                    self._unpack(EX_SKIP)
                return
            if self._object_pairs_hook is not None:
                ret = self._object_pairs_hook(
                    (self._unpack(EX_CONSTRUCT), self._unpack(EX_CONSTRUCT)) for _ in range(n)
                )
            else:
                ret = {}
                for _ in range(n):
                    key = self._unpack(EX_CONSTRUCT)
                    if self._strict_map_key and type(key) not in (str, bytes):
                        raise ValueError("%s is not allowed for map key" % str(type(key)))
                    if isinstance(key, str):
                        key = sys.intern(key)
                    ret[key] = self._unpack(EX_CONSTRUCT)
                if self._object_hook is not None:
                    ret = self._object_hook(ret)
            return ret
        if execute == EX_SKIP:
            return
        if typ == TYPE_RAW:
            if self._raw:
                obj = bytes(obj)
            else:
                obj = obj.decode("utf_8", self._unicode_errors)
            return obj
        if typ == TYPE_BIN:
            return bytes(obj)
        if typ == TYPE_EXT:
            if n == -1:  # timestamp
                ts = Timestamp.from_bytes(bytes(obj))
                if self._timestamp == 1:
                    return ts.to_unix()
                elif self._timestamp == 2:
                    return ts.to_unix_nano()
                elif self._timestamp == 3:
                    return ts.to_datetime()
                else:
                    return ts
            else:
                return self._ext_hook(n, bytes(obj))
        assert typ == TYPE_IMMEDIATE
        return obj

    def __iter__(self):
        return self

    def __next__(self):
        try:
            ret = self._unpack(EX_CONSTRUCT)
            self._consume()
            return ret
        except OutOfData:
            self._consume()
            raise StopIteration
        except RecursionError:
            raise StackError

    next = __next__

    def skip(self):
        self._unpack(EX_SKIP)
        self._consume()

    def unpack(self):
        try:
            ret = self._unpack(EX_CONSTRUCT)
        except RecursionError:
            raise StackError
        self._consume()
        return ret

    def read_array_header(self):
        ret = self._unpack(EX_READ_ARRAY_HEADER)
        self._consume()
        return ret

    def read_map_header(self):
        ret = self._unpack(EX_READ_MAP_HEADER)
        self._consume()
        return ret

    def tell(self):
        return self._stream_offset


class Packer:
    """
    MessagePack Packer

    Usage::

        packer = Packer()
        astream.write(packer.pack(a))
        astream.write(packer.pack(b))

    Packer's constructor has some keyword arguments:

    :param default:
        When specified, it should be callable.
        Convert user type to builtin type that Packer supports.
        See also simplejson's document.

    :param bool use_single_float:
        Use single precision float type for float. (default: False)

    :param bool autoreset:
        Reset buffer after each pack and return its content as `bytes`. (default: True).
        If set this to false, use `bytes()` to get content and `.reset()` to clear buffer.

    :param bool use_bin_type:
        Use bin type introduced in msgpack spec 2.0 for bytes.
        It also enables str8 type for unicode. (default: True)

    :param bool strict_types:
        If set to true, types will be checked to be exact. Derived classes
        from serializable types will not be serialized and will be
        treated as unsupported type and forwarded to default.
        Additionally tuples will not be serialized as lists.
        This is useful when trying to implement accurate serialization
        for python types.

    :param bool datetime:
        If set to true, datetime with tzinfo is packed into Timestamp type.
        Note that the tzinfo is stripped in the timestamp.
        You can get UTC datetime with `timestamp=3` option of the Unpacker.

    :param str unicode_errors:
        The error handler for encoding unicode. (default: 'strict')
        DO NOT USE THIS!!  This option is kept for very specific usage.

    :param int buf_size:
        Internal buffer size. This option is used only for C implementation.
    """

    def __init__(
        self,
        *,
        default=None,
        use_single_float=False,
        autoreset=True,
        use_bin_type=True,
        strict_types=False,
        datetime=False,
        unicode_errors=None,
        buf_size=None,
    ):
        self._strict_types = strict_types
        self._use_float = use_single_float
        self._autoreset = autoreset
        self._use_bin_type = use_bin_type
        self._buffer = BytesIO()
        self._datetime = bool(datetime)
        self._unicode_errors = unicode_errors or "strict"
        if default is not None and not callable(default):
            raise TypeError("default must be callable")
        self._default = default

    def _pack(
        self,
        obj,
        nest_limit=DEFAULT_RECURSE_LIMIT,
        check=isinstance,
        check_type_strict=_check_type_strict,
    ):
        default_used = False
        if self._strict_types:
            check = check_type_strict
            list_types = list
        else:
            list_types = (list, tuple)
        while True:
            if nest_limit < 0:
                raise ValueError("recursion limit exceeded")
            if obj is None:
                return self._buffer.write(b"\xc0")
            if check(obj, bool):
                if obj:
                    return self._buffer.write(b"\xc3")
                return self._buffer.write(b"\xc2")
            if check(obj, int):
                if 0 <= obj < 0x80:
                    return self._buffer.write(struct.pack("B", obj))
                if -0x20 <= obj < 0:
                    return self._buffer.write(struct.pack("b", obj))
                if 0x80 <= obj <= 0xFF:
                    return self._buffer.write(struct.pack("BB", 0xCC, obj))
                if -0x80 <= obj < 0:
                    return self._buffer.write(struct.pack(">Bb", 0xD0, obj))
                if 0xFF < obj <= 0xFFFF:
                    return self._buffer.write(struct.pack(">BH", 0xCD, obj))
                if -0x8000 <= obj < -0x80:
                    return self._buffer.write(struct.pack(">Bh", 0xD1, obj))
                if 0xFFFF < obj <= 0xFFFFFFFF:
                    return self._buffer.write(struct.pack(">BI", 0xCE, obj))
                if -0x80000000 <= obj < -0x8000:
                    return self._buffer.write(struct.pack(">Bi", 0xD2, obj))
                if 0xFFFFFFFF < obj <= 0xFFFFFFFFFFFFFFFF:
                    return self._buffer.write(struct.pack(">BQ", 0xCF, obj))
                if -0x8000000000000000 <= obj < -0x80000000:
                    return self._buffer.write(struct.pack(">Bq", 0xD3, obj))
                if not default_used and self._default is not None:
                    obj = self._default(obj)
                    default_used = True
                    continue
                raise OverflowError("Integer value out of range")
            if check(obj, (bytes, bytearray)):
                n = len(obj)
                if n >= 2**32:
                    raise ValueError("%s is too large" % type(obj).__name__)
                self._pack_bin_header(n)
                return self._buffer.write(obj)
            if check(obj, str):
                obj = obj.encode("utf-8", self._unicode_errors)
                n = len(obj)
                if n >= 2**32:
                    raise ValueError("String is too large")
                self._pack_raw_header(n)
                return self._buffer.write(obj)
            if check(obj, memoryview):
                n = obj.nbytes
                if n >= 2**32:
                    raise ValueError("Memoryview is too large")
                self._pack_bin_header(n)
                return self._buffer.write(obj)
            if check(obj, float):
                if self._use_float:
                    return self._buffer.write(struct.pack(">Bf", 0xCA, obj))
                return self._buffer.write(struct.pack(">Bd", 0xCB, obj))
            if check(obj, (ExtType, Timestamp)):
                if check(obj, Timestamp):
                    code = -1
                    data = obj.to_bytes()
                else:
                    code = obj.code
                    data = obj.data
                assert isinstance(code, int)
                assert isinstance(data, bytes)
                L = len(data)
                if L == 1:
                    self._buffer.write(b"\xd4")
                elif L == 2:
                    self._buffer.write(b"\xd5")
                elif L == 4:
                    self._buffer.write(b"\xd6")
                elif L == 8:
                    self._buffer.write(b"\xd7")
                elif L == 16:
                    self._buffer.write(b"\xd8")
                elif L <= 0xFF:
                    self._buffer.write(struct.pack(">BB", 0xC7, L))
                elif L <= 0xFFFF:
                    self._buffer.write(struct.pack(">BH", 0xC8, L))
                else:
                    self._buffer.write(struct.pack(">BI", 0xC9, L))
                self._buffer.write(struct.pack("b", code))
                self._buffer.write(data)
                return
            if check(obj, list_types):
                n = len(obj)
                self._pack_array_header(n)
                for i in range(n):
                    self._pack(obj[i], nest_limit - 1)
                return
            if check(obj, dict):
                return self._pack_map_pairs(len(obj), obj.items(), nest_limit - 1)

            if self._datetime and check(obj, _DateTime) and obj.tzinfo is not None:
                obj = Timestamp.from_datetime(obj)
                default_used = 1
                continue

            if not default_used and self._default is not None:
                obj = self._default(obj)
                default_used = 1
                continue

            if self._datetime and check(obj, _DateTime):
                raise ValueError(f"Cannot serialize {obj!r} where tzinfo=None")

            raise TypeError(f"Cannot serialize {obj!r}")

    def pack(self, obj):
        try:
            self._pack(obj)
        except:
            self._buffer = BytesIO()  # force reset
            raise
        if self._autoreset:
            ret = self._buffer.getvalue()
            self._buffer = BytesIO()
            return ret

    def pack_map_pairs(self, pairs):
        self._pack_map_pairs(len(pairs), pairs)
        if self._autoreset:
            ret = self._buffer.getvalue()
            self._buffer = BytesIO()
            return ret

    def pack_array_header(self, n):
        if n >= 2**32:
            raise ValueError
        self._pack_array_header(n)
        if self._autoreset:
            ret = self._buffer.getvalue()
            self._buffer = BytesIO()
            return ret

    def pack_map_header(self, n):
        if n >= 2**32:
            raise ValueError
        self._pack_map_header(n)
        if self._autoreset:
            ret = self._buffer.getvalue()
            self._buffer = BytesIO()
            return ret

    def pack_ext_type(self, typecode, data):
        if not isinstance(typecode, int):
            raise TypeError("typecode must have int type.")
        if not 0 <= typecode <= 127:
            raise ValueError("typecode should be 0-127")
        if not isinstance(data, bytes):
            raise TypeError("data must have bytes type")
        L = len(data)
        if L > 0xFFFFFFFF:
            raise ValueError("Too large data")
        if L == 1:
            self._buffer.write(b"\xd4")
        elif L == 2:
            self._buffer.write(b"\xd5")
        elif L == 4:
            self._buffer.write(b"\xd6")
        elif L == 8:
            self._buffer.write(b"\xd7")
        elif L == 16:
            self._buffer.write(b"\xd8")
        elif L <= 0xFF:
            self._buffer.write(b"\xc7" + struct.pack("B", L))
        elif L <= 0xFFFF:
            self._buffer.write(b"\xc8" + struct.pack(">H", L))
        else:
            self._buffer.write(b"\xc9" + struct.pack(">I", L))
        self._buffer.write(struct.pack("B", typecode))
        self._buffer.write(data)

    def _pack_array_header(self, n):
        if n <= 0x0F:
            return self._buffer.write(struct.pack("B", 0x90 + n))
        if n <= 0xFFFF:
            return self._buffer.write(struct.pack(">BH", 0xDC, n))
        if n <= 0xFFFFFFFF:
            return self._buffer.write(struct.pack(">BI", 0xDD, n))
        raise ValueError("Array is too large")

    def _pack_map_header(self, n):
        if n <= 0x0F:
            return self._buffer.write(struct.pack("B", 0x80 + n))
        if n <= 0xFFFF:
            return self._buffer.write(struct.pack(">BH", 0xDE, n))
        if n <= 0xFFFFFFFF:
            return self._buffer.write(struct.pack(">BI", 0xDF, n))
        raise ValueError("Dict is too large")

    def _pack_map_pairs(self, n, pairs, nest_limit=DEFAULT_RECURSE_LIMIT):
        self._pack_map_header(n)
        for k, v in pairs:
            self._pack(k, nest_limit - 1)
            self._pack(v, nest_limit - 1)

    def _pack_raw_header(self, n):
        if n <= 0x1F:
            self._buffer.write(struct.pack("B", 0xA0 + n))
        elif self._use_bin_type and n <= 0xFF:
            self._buffer.write(struct.pack(">BB", 0xD9, n))
        elif n <= 0xFFFF:
            self._buffer.write(struct.pack(">BH", 0xDA, n))
        elif n <= 0xFFFFFFFF:
            self._buffer.write(struct.pack(">BI", 0xDB, n))
        else:
            raise ValueError("Raw is too large")

    def _pack_bin_header(self, n):
        if not self._use_bin_type:
            return self._pack_raw_header(n)
        elif n <= 0xFF:
            return self._buffer.write(struct.pack(">BB", 0xC4, n))
        elif n <= 0xFFFF:
            return self._buffer.write(struct.pack(">BH", 0xC5, n))
        elif n <= 0xFFFFFFFF:
            return self._buffer.write(struct.pack(">BI", 0xC6, n))
        else:
            raise ValueError("Bin is too large")

    def bytes(self):
        """Return internal buffer contents as bytes object"""
        return self._buffer.getvalue()

    def reset(self):
        """Reset internal buffer.

        This method is useful only when autoreset=False.
        """
        self._buffer = BytesIO()

    def getbuffer(self):
        """Return view of internal buffer."""
        if _USING_STRINGBUILDER:
            return memoryview(self.bytes())
        else:
            return self._buffer.getbuffer()
