"""Run the repository's pinned suite with the verification guard OFF and compare with
/root/.vp/BASELINE.json (stable_pass must all pass)."""
import json
import os
import subprocess
import sys
import tempfile
import xml.etree.ElementTree as ET


def main():
    base = json.load(open("/root/.vp/BASELINE.json"))
    repo = os.environ.get("VERIF_REPO", "/repo")
    fd, junit = tempfile.mkstemp(suffix=".xml")
    os.close(fd)
    env = dict(os.environ)
    env.pop("NOSTR_RELAY_VERIF", None)
    cmd = base["cmd"].replace("<file>", junit).replace("cd /repo", "cd %s" % repo)
    p = subprocess.run(cmd, shell=True, env=env, stdout=subprocess.PIPE, stderr=subprocess.STDOUT)
    passed = set()
    try:
        for tc in ET.parse(junit).getroot().iter("testcase"):
            name = "%s::%s" % (tc.get("classname"), tc.get("name"))
            if not any(c.tag in ("failure", "error", "skipped") for c in tc):
                passed.add(name)
    finally:
        os.unlink(junit)
    missing = [t for t in base["stable_pass"] if t not in passed]
    print("baseline: %d/%d stable tests pass" % (len(base["stable_pass"]) - len(missing), len(base["stable_pass"])))
    for m in missing:
        print("  NOT PASSING:", m)
    if missing:
        print(p.stdout.decode("utf-8", "replace")[-3000:])
    return 1 if missing else 0


if __name__ == "__main__":
    sys.exit(main())
