"""Prints a markdown table of what the last recorded run of every check covered (from /verif/evidence)."""
import glob
import json
import os

HERE = os.path.dirname(os.path.dirname(os.path.abspath(__file__)))


def main():
    print("| id | tier | verdict | judged units | distinct non-trivial cases | wall (16 cores) |")
    print("|---|---|---|---|---|---|")
    for f in sorted(glob.glob(os.path.join(HERE, "evidence", "C*.json"))):
        d = json.load(open(f))
        c = d["coverage"]
        print("| %s | %s | %s | %s | %s | %.0f s |" % (d["property_id"], d["tier"], d["verdict"], c.get("evaluations"), c.get("distinct_nontrivial"), d.get("wall_s", 0)))


if __name__ == "__main__":
    main()
