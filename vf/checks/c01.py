"""
C01 - REQ answers are sound; filter contents are pure data.

Monitors: (1) transcript checker: every EVENT frame before EOSE carries an event that was
acknowledged OK=true earlier and does not definitely fail every filter (ref.match3);
(2) statement-shape monitor: the SQL text reaching the DBAPI cursor / the python source
handed to compile() for a hostile single-filter REQ has the same token/AST skeleton as for
its benign twin, and the engine raises for neither or both.
"""
import asyncio
import json
import re
import random

from .. import rig as R, ref, gen, qcore, env
from ..orch import h

ID = "C01"
TECHNIQUE = 'runtime monitoring - transcript monitor: every EVENT frame of a REQ answer judged by a reference NIP-01 matcher against the acknowledged events; statement-shape monitor: SQL text at the DBAPI cursor / python source handed to compile() compared with a benign twin (hostile filter values must stay data); end-to-end shard: the same soundness judgement for REQs asked on every worker process of a real server (events stored through different workers) and again after a restart'
LEVEL = "exploration"
RULE = (
    "cases = (backend, seeded hostile store of 40-120 accepted events with a history of replacements and "
    "author deletions, REQ of 1-5 generated filters: well-formed, malformed, with SQL/Python metacharacters, NUL, "
    "non-BMP text, empty lists/strings, out-of-range numbers). A case is non-trivial when the REQ returned at least "
    "one event (soundness judged on a real answer) or when a statement/predicate was produced for both the hostile "
    "filter and its benign twin (shape judged). Distinct = distinct (backend, canonical filter list, store seed)."
)
ASSUMPTIONS = [
    "end-to-end shards: a real gunicorn/uvicorn server process tree started from the tree under test (vf/e2e_launch.py: the repository's run_with_gunicorn / run_with_uvicorn; the SQL schema is made with the repository's metadata.create_all because its alembic env.py does not run with the installed SQLAlchemy; the notifier's fixed TCP port 6000 is replaced by a free port), spoken to over loopback TCP with the websockets client; real time, real sleeps",
    "LMDB backend runs over /verif/shim (ctypes binding of real liblmdb 0.9.31 + pure-python msgpack)",
    "SQL backend = SQLite through aiosqlite; PostgreSQL dialect branches are not reached",
    "ill-typed filter conditions (e.g. '#e': 'x', kinds: 5) are not judged (free); empty lists match nothing",
    "soundness uses inclusive since/until and accepts NIP-26 delegators and id/author prefixes as possible matches",
]
MIN_NONTRIVIAL = {"quick": 1000, "thorough": 10000}
REQUIRED_COUNTERS = ["e2e.e2e_reqs_answered", "frames_judged", "shape_pairs_compared"]
SHARD_TIMEOUT = {"quick": 500, "thorough": 3000}


def plan(tier, seed):
    return _plan(tier, seed) + e2e_plan(tier, seed)


def e2e_plan(tier, seed):
    """shards on a REAL server process tree (vf/e2e.py)"""
    out = [{"mode": "e2e", "e2e": "query", "backend": "sql", "workers": 2, "seed": seed + 31}, {"mode": "e2e", "e2e": "query", "backend": "lmdb", "workers": 3, "seed": seed + 31}]
    if tier == "thorough":
        out += [{"mode": "e2e", "e2e": "query", "backend": b, "workers": w, "seed": seed + 10 + w, "nreqs": 150} for b in ("sql", "lmdb") for w in (2, 4)]
    return out


def _plan(tier, seed):
    shards = []
    if tier == "quick":
        per_backend, stores, singles, multis = 8, 4, 150, 50
    else:
        per_backend, stores, singles, multis = 64, 8, 250, 80
    for backend in ("sql", "lmdb"):
        for i in range(per_backend):
            shards.append(
                {"backend": backend, "case_seed": seed * 100003 + i * 7919 + (0 if backend == "sql" else 1),
                 "stores": stores, "singles": singles, "multis": multis}
            )
    return shards


# ---------------------------------------------------------------------------------------


def _collapse(skel):
    """collapse literal lists: STR , STR , STR -> STR+"""
    out = []
    for t in skel:
        if len(out) >= 2 and out[-1] == "," and out[-2] in ("STR+", "BLOB+", "NUM+", "BIND+") \
                and t in ("STR", "BLOB", "NUM", "BIND") and out[-2][:-1] == t:
            out.pop()
            continue
        if t in ("STR", "BLOB", "NUM", "BIND"):
            out.append(t + "+")
        else:
            out.append(t)
    return tuple(out)


def _collapse_py(sk):
    """constant tuples -> set of constant types; operands of and/or sorted (kv.py joins a
    *set* of clauses, so their order is arbitrary)"""
    if isinstance(sk, tuple):
        if len(sk) == 2 and sk[0] == "Tuple":
            fields = dict(sk[1])
            elts = fields.get("elts", ())
            if all(isinstance(e, tuple) and e and e[0] == "K" for e in elts):
                return ("Tuple", tuple(sorted(set(elts))))
        if len(sk) == 2 and sk[0] == "BoolOp":
            fields = [(n, _collapse_py(v)) for n, v in sk[1]]
            fields = [(n, tuple(sorted(v, key=repr)) if n == "values" else v) for n, v in fields]
            return ("BoolOp", tuple(fields))
        return tuple(_collapse_py(i) for i in sk)
    return sk


def filter_features(flt):
    feats = set()
    if not isinstance(flt, dict):
        return feats
    for k, v in flt.items():
        if isinstance(k, str) and len(k) == 2 and k[0] == "#":
            if k[1] == "'":
                feats.add("quote-in-tag-name")
            if k[1] == "\x00":
                feats.add("nul-in-tag-name")
            if k[1] == ":":
                feats.add("colon-tag-name")
            if isinstance(v, list):
                for s in v:
                    if isinstance(s, str):
                        if "\x00" in s:
                            feats.add("nul-in-tag-value")
                        if re.search(r"(?<![:\w\\]):[A-Za-z_]\w*", s) or re.search(r"\\", s):
                            if re.search(r"(?<![:\w\\]):[A-Za-z_]\w*", s):
                                feats.add("colon-word-in-tag-value")
                        if "'" in s:
                            feats.add("quote-in-tag-value")
                        if "\\" in s:
                            feats.add("backslash-in-tag-value")
    return feats


def unsound_key(backend, ev, filters):
    """mechanism key for an event that definitely matches no filter of the REQ"""
    best = None
    best_rank = None
    for f in filters:
        cv = ref.cond_verdicts(ev, f)
        if cv is None:
            continue
        nos = []
        for name, verdict in cv.items():
            if verdict == ref.NO:
                if name.startswith("#"):
                    v = f.get(name)
                    if v == []:
                        nos.append("tag[empty-list]")
                    elif isinstance(v, list) and all(x == "" for x in v):
                        nos.append("tag[only-empty-string]")
                    else:
                        nos.append("tag")
                elif name in ("ids", "authors", "kinds") and f.get(name) == []:
                    nos.append(name + "[empty-list]")
                else:
                    nos.append(name)
        rank = (len([n for n in nos if "[" not in n]), len(nos))
        if best is None or rank < best_rank:
            best, best_rank = nos, rank
    return "%s/unsound/%s" % (backend, "+".join(sorted(set(best or ["no-filter-object"]))))


async def judge_req(rig, conn, tap, filters, accepted, counters, shape):
    """run one REQ; returns (violations, nontrivial_hashes, sample)"""
    viols = []
    nontrivial = []
    if rig.backend == "lmdb":
        from nostr_relay.storage import kv

        kv.compile_match_from_query.cache_clear()
    m = tap.mark()
    env.LOGTAP.take()
    ans = await qcore.run_req(rig, conn, filters)
    got = tap.since(m)
    counters["reqs"] = counters.get("reqs", 0) + 1
    if ans["notices"]:
        counters["reqs_refused_with_notice"] = counters.get("reqs_refused_with_notice", 0) + 1
    if ans["exited"]:
        counters["reqs_closing_connection"] = counters.get("reqs_closing_connection", 0) + 1
    replay = {"backend": rig.backend, "filters": filters}
    for ev in ans["events"] + ans["extra"]:
        counters["frames_judged"] = counters.get("frames_judged", 0) + 1
        if not isinstance(ev, dict) or set(ev.keys()) != {"id", "pubkey", "created_at", "kind", "tags", "content", "sig"}:
            viols.append({"key": rig.backend + "/not-an-event", "msg": "frame payload is not an event: %r" % (ev,), "replay": replay})
            continue
        acc = accepted.get(ev["id"])
        if acc is None:
            viols.append({"key": rig.backend + "/never-accepted", "msg": "event %s was never acknowledged OK=true" % ev["id"], "replay": replay})
            continue
        verdict = ref.match_any(acc, filters)
        if verdict == ref.NO:
            viols.append({
                "key": unsound_key(rig.backend, acc, filters),
                "msg": "event %s (kind %s, tags %s, created_at %s) returned for filters %s although it matches none"
                       % (ev["id"][:12], acc["kind"], json.dumps(acc["tags"])[:120], acc["created_at"], json.dumps(filters)[:300]),
                "replay": replay,
            })
    if ans["events"]:
        nontrivial.append(h([rig.backend, "sound", filters]))
    if shape and len(filters) == 1 and not ans["exited"]:
        f = filters[0]
        twin = gen.benign_twin(f)
        if rig.backend == "lmdb":
            kv.compile_match_from_query.cache_clear()
        m2 = tap.mark()
        await qcore.run_req(rig, conn, [twin])
        got2 = tap.since(m2)
        feats = sorted(filter_features(f))
        if rig.backend == "sql":
            s1 = [_collapse(ref.sql_skeleton(t)) for t, _ in got["sql"] if "FROM events" in t and "SELECT id, created_at" in t]
            s2 = [_collapse(ref.sql_skeleton(t)) for t, _ in got2["sql"] if "FROM events" in t and "SELECT id, created_at" in t]
            counters["shape_pairs_compared"] = counters.get("shape_pairs_compared", 0) + 1
            if s1 or s2:
                nontrivial.append(h([rig.backend, "shape", f]))
            if s1 != s2:
                key = "sql/shape/" + ("+".join(feats) or "other")
                viols.append({"key": key, "msg": "SQL skeleton for %s differs from its benign twin %s:\n  hostile: %s\n  twin:    %s"
                              % (json.dumps(f)[:200], json.dumps(twin)[:200],
                                 [t for t, _ in got["sql"]][:1], [t for t, _ in got2["sql"]][:1]), "replay": replay})
            e1 = [e[0] for e in got["errors"]]
            e2 = [e[0] for e in got2["errors"]]
            if e1 != e2 and s1 == s2:
                viols.append({"key": "sql/engine-error/%s/%s" % ("+".join(sorted(set(e1))) or "none", "+".join(feats) or "other"),
                              "msg": "engine raised %s for %s but %s for the twin" % (got["errors"][:1], json.dumps(f)[:200], e2),
                              "replay": replay})
        else:
            try:
                p1 = [_collapse_py(ref.py_skeleton(s)) for s in got["compiled"]]
                err1 = None
            except SyntaxError as e:
                p1, err1 = None, repr(e)
            p2 = [_collapse_py(ref.py_skeleton(s)) for s in got2["compiled"]]
            counters["shape_pairs_compared"] = counters.get("shape_pairs_compared", 0) + 1
            if p1 or p2:
                nontrivial.append(h([rig.backend, "shape", f]))
            if p1 != p2:
                viols.append({"key": "lmdb/shape/" + ("+".join(feats) or "other"),
                              "msg": "generated predicate for %s differs in shape from its twin %s: %s | %s (%s)"
                                     % (json.dumps(f)[:200], json.dumps(twin)[:200], got["compiled"][:1], got2["compiled"][:1], err1),
                              "replay": replay})
            if got["plans"] != got2["plans"]:
                counters["plan_differs_from_twin"] = counters.get("plan_differs_from_twin", 0) + 1
    sample = {"backend": rig.backend, "filters": filters, "returned": len(ans["events"]), "eose": ans["eose"],
              "notices": ans["notices"][:1]}
    return viols, nontrivial, sample


async def run_store(backend, store_seed, singles, multis, counters, explicit=None):
    cfg = {"analysis_delay": 0}
    if store_seed % 2 == 1 or (explicit or {}).get("output_validator"):
        # with an output validator configured (one that lets everything through) the answers are the same
        cfg["output_validator"] = "vf.ov.check"
        counters["stores_with_output_validator"] = counters.get("stores_with_output_validator", 0) + 1
    rig = R.Rig(backend=backend, config=cfg)
    await rig.start()
    viols, nontrivial, samples = [], [], []
    try:
        conn = rig.connect()
        tap = qcore.StatementTap(rig).install()
        if explicit is not None:
            events = explicit["events"]
        else:
            u = gen.Universe(store_seed)
            events = u.store(u.rng.randint(40, 120), hostile=True)
        acks = await qcore.load_store(rig, conn, events)
        accepted = {e["id"]: e for e in events if acks.get(e["id"], (None,))[0] is True}
        counters["events_submitted"] = counters.get("events_submitted", 0) + len(events)
        counters["events_accepted"] = counters.get("events_accepted", 0) + len(accepted)
        if explicit is not None:
            reqs = [(explicit["filters"], True)]
        else:
            pool = list(accepted.values())
            reqs = []
            for _ in range(singles):
                reqs.append(([u.hostile_filter(pool)], True))
            # conditions with hundreds of values (client libraries send whole follow lists): the values stay
            # bound to THEIR tag name, whatever their number
            carried = [(t[0], t[1]) for e in pool for t in e["tags"] if isinstance(t, list) and len(t) > 1 and isinstance(t[0], str) and len(t[0]) == 1 and isinstance(t[1], str) and t[1]]
            for _ in range(3 if carried else 0):
                name, val = u.rng.choice(carried)
                other = u.rng.choice([x for x in "eptgz" if x != name])
                nvals = u.rng.choice([499, 500, 501, 650, 1201])
                fillers = ["!%05d" % i for i in range(nvals - 1)]  # sort before every value of the store
                reqs.append(([{"#" + other: fillers + [val]}], False))
                reqs.append(([{"#" + other: fillers + [val], "kinds": [1, 7, 255, 256, 40000]}], False))
                counters["filters_with_hundreds_of_values"] = counters.get("filters_with_hundreds_of_values", 0) + 2
            for _ in range(multis):
                n = u.rng.randint(2, 5)
                reqs.append(([u.hostile_filter(pool) if u.rng.random() < 0.7 else u.wellformed_filter(pool) for _ in range(n)], False))
        if explicit is None or explicit.get("replace"):
            v = await replacement_cases(rig, accepted, counters, u if explicit is None else None, explicit)
            for x in v:
                x["replay"]["events"] = events
            viols.extend(v)
            if v or explicit is None:
                nontrivial.extend(h([backend, "replace", store_seed, i]) for i in range(counters.get("replacements", 0)))
        for filters, shape in ([] if (explicit and explicit.get("replace")) else reqs):
            if conn.exited:
                conn = rig.connect()
            v, nt, sample = await judge_req(rig, conn, tap, filters, accepted, counters, shape)
            for x in v:
                x["replay"]["events"] = events
            viols.extend(v)
            nontrivial.extend(nt)
            if len(samples) < 2 and sample["returned"]:
                samples.append(sample)
    finally:
        await rig.close()
    if "output_validator" in cfg:
        for x in viols:
            if isinstance(x.get("replay"), dict):
                x["replay"]["output_validator"] = True
    return viols, nontrivial, samples


async def replacement_cases(rig, accepted, counters, u, explicit):
    """
    The same subscription id re-used: once the replacing REQ has completed, every EVENT frame
    under that id must match the NEW filters (soundness is per REQ) - also when the reader
    is slow, when the new REQ has no valid filter, and for events arriving live afterwards.
    """
    import random as _random

    viols = []
    r = u.rng if u is not None else _random.Random(1)
    pool = list(accepted.values())
    if not pool:
        return viols
    key = ref.key_from_seed("c01-live")
    cases = explicit["replace"] if explicit else None
    n = len(cases) if cases else 6
    for i in range(n):
        if cases:
            f1, second, slow = cases[i]["f1"], cases[i]["second"], cases[i]["slow"]
        else:
            kind1 = r.choice([1, 7, 255, 2])
            f1 = {"kinds": [kind1]}
            kind2 = r.choice([k for k in (1, 7, 255, 2, 40000) if k != kind1])
            second = r.choice([[{"kinds": [kind2]}], [{"kinds": [kind2], "limit": 3}], [], [{"kinds": "x"}], [{"ids": ["zz"]}], [{}], [{"kinds": [kind2]}, {"authors": []}]])
            slow = r.random() < 0.7
        delay = (lambda: r.choice([0.001, 0.002, 0.003])) if slow else None
        conn = rig.connect(send_delay=delay)
        counters["replacements"] = counters.get("replacements", 0) + 1
        await conn.cmd(["REQ", "rep", f1])
        timing = r.choice(["at-once", "quiescent", "query-done-backlog-queued", "query-done-backlog-queued"])
        if timing == "quiescent":
            await rig.quiesce()
        elif timing == "query-done-backlog-queued":
            # the stored query has finished but (slow reader) its results are still queued
            for _ in range(2000):
                sub = rig.subs_of(conn).get("rep")
                if sub is None or sub.query_task is None or sub.query_task.done():
                    break
                await asyncio.sleep(0.0005)
        counters.setdefault("replacement_timings", {})
        counters["replacement_timings"][timing] = counters["replacement_timings"].get(timing, 0) + 1
        await conn.cmd(["REQ", "rep"] + second)
        done_n = rig.rec.n
        # a live event that matches only the OLD filter
        live = ref.make_event(key, kind=f1["kinds"][0], created_at=gen.T0 + 5000 + counters["replacements"], content="after replacement %d" % counters["replacements"])
        pub = rig.connect()
        await pub.cmd(["EVENT", live])
        await rig.quiesce()
        accepted[live["id"]] = live  # it is part of the store from now on
        known = accepted
        for n_, f in conn.parsed_frames(done_n):
            if isinstance(f, list) and len(f) > 2 and f[0] == "EVENT" and f[1] == "rep" and isinstance(f[2], dict):
                counters["frames_judged"] = counters.get("frames_judged", 0) + 1
                ev = known.get(f[2].get("id"), f[2])
                valid_second = [x for x in second if isinstance(x, dict)]
                if not valid_second or ref.match_any(ev, valid_second) == ref.NO:
                    viols.append({"key": "%s/frame-for-replaced-filter/%s" % (rig.backend, "live" if f[2].get("id") == live["id"] else "stored"),
                                  "msg": "[%s] after REQ rep %s replaced REQ rep %s (completed at #%d) an EVENT of kind %s was still sent under 'rep' at #%d; it matches none of the new filters"
                                         % (rig.backend, json.dumps(second)[:120], json.dumps(f1), done_n, f[2].get("kind"), n_),
                                  "replay": {"backend": rig.backend, "filters": second, "replace": [{"f1": f1, "second": second, "slow": slow}]}})
                    break
        for c in (conn, pub):
            if not c.exited:
                c.disconnect()
                await c.processed()
    return viols


def _dedup(viols, cap=3):
    seen = {}
    out = []
    for v in viols:
        n = seen.get(v["key"], 0)
        seen[v["key"]] = n + 1
        if n < cap:
            out.append(v)
    return out, seen


def run_shard(spec):
    if spec.get("mode") == "e2e":
        from .. import e2e_cases

        return e2e_cases.run_e2e_shard(ID, spec)
    counters = {}
    viols, nontrivial, samples = [], [], []
    for s in range(spec["stores"]):
        v, nt, sm = R.run(run_store, spec["backend"], spec["case_seed"] * 31 + s, spec["singles"], spec["multis"], counters)
        viols.extend(v)
        nontrivial.extend(nt)
        samples.extend(sm)
    viols, seen = _dedup(viols)
    counters["violations_by_key"] = seen
    return {
        "evaluations": counters.get("reqs", 0),
        "nontrivial": sorted(set(nontrivial)),
        "counters": counters,
        "coverage": {"backends": {spec["backend"]: 1}},
        "violations": viols,
        "samples": samples[:2],
        "inconclusive": [],
    }


def replay(rp, spec):
    if rp.get("mode") == "e2e":
        from .. import e2e_cases

        return e2e_cases.run_e2e_shard(ID, rp)
    counters = {}
    rp = dict(rp)
    rp.setdefault("filters", [])
    v, nt, sm = R.run(run_store, rp["backend"], 0, 0, 0, counters, rp)
    v, seen = _dedup(v, cap=50)
    return {"evaluations": 1, "nontrivial": nt, "counters": counters, "violations": v, "samples": sm, "inconclusive": []}
