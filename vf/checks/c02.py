"""
C02 - a REQ returns every matching stored event, between once and k times (k = number of
its filters the event matches), when the filter is under its limit.

Oracle: 'stored' is read from a dump of the backend at quiescence (never from a model of
replace/delete semantics); obligation per filter: every stored event that MUST-matches
(strictly inside since/until, exact values) is delivered before EOSE unless the number of
possibly-matching events exceeds the filter's effective limit; no event is delivered more
often than the number of filters it may match.
"""
import itertools
import json
import random

from .. import rig as R, ref, gen, qcore, env, dump
from ..orch import h

ID = "C02"
TECHNIQUE = 'runtime monitoring - completeness oracle over store dumps: every stored event that must-match a filter under its limit is owed before EOSE, at most once per matching filter; LMDB query plans tapped for coverage; small-scope exhaustive filters + seeded random conjunctions; end-to-end shard: events stored through different worker processes, every REQ asked on EVERY worker (complete, and the same answer everywhere) and again after a restart on the same files'
LEVEL = "exploration"
RULE = (
    "cases = (backend, dense seeded store, REQ of 1-5 well-formed filters). Stores of 12 events are queried with "
    "EVERY filter of <=2 conditions x <=2 values drawn from the store's own authors/kinds/tag values/ids and a "
    "since/until grid (small-scope exhaustive part); larger stores (40-160 events, mined ids/pubkeys starting "
    "00/7f/ff, prefix-related tag values, colliding timestamps) with seeded random conjunctions of 1-4 conditions; a third "
    "of the filters carry an explicit limit equal to or just above their number of matches; some REQs contain a filter that "
    "can match nothing (empty value list beside an ordinary condition) next to ordinary ones. "
    "Non-trivial = at least one filter of the REQ has a non-empty MUST set within its limit. Distinct = distinct "
    "(backend, store seed, canonical filter list)."
)
ASSUMPTIONS = [
    "end-to-end shards: a real gunicorn/uvicorn server process tree started from the tree under test (vf/e2e_launch.py: the repository's run_with_gunicorn / run_with_uvicorn; the SQL schema is made with the repository's metadata.create_all because its alembic env.py does not run with the installed SQLAlchemy; the notifier's fixed TCP port 6000 is replaced by a free port), spoken to over loopback TCP with the websockets client; real time, real sleeps",
    "LMDB backend runs over /verif/shim (ctypes binding of real liblmdb 0.9.31 + pure-python msgpack)",
    "SQL backend = SQLite; PostgreSQL branches not reached; whoosh absent so 'search' is inert",
    "filters in the completeness domain are well-typed with at least one NIP-01 condition; events matching only "
    "through a NIP-26 delegator or only at a since/until bound carry no must-deliver obligation",
]
MIN_NONTRIVIAL = {"quick": 500, "thorough": 5000}
REQUIRED_COUNTERS = ["e2e.e2e_reqs_answered", "e2e.e2e_completeness_obligations", "e2e.e2e_paused_reader_events", "reqs_with_obligation", "events_owed", "tight_limits", "reqs_with_unmatchable_filter"]
REQUIRED_COVERAGE = {
    "quick": ["lmdb_plans.IdIndex", "lmdb_plans.CreatedIndex", "lmdb_plans.KindIndex", "lmdb_plans.PubkeyIndex",
              "lmdb_plans.AuthorKindIndex", "lmdb_plans.TagIndex", "lmdb_plans.MultiIndex"],
    "thorough": ["lmdb_plans.IdIndex", "lmdb_plans.CreatedIndex", "lmdb_plans.KindIndex", "lmdb_plans.PubkeyIndex",
                 "lmdb_plans.AuthorKindIndex", "lmdb_plans.TagIndex", "lmdb_plans.MultiIndex"],
}
SHARD_TIMEOUT = {"quick": 500, "thorough": 3000}
MAX_LIMIT = 6000


def plan(tier, seed):
    return _plan(tier, seed) + e2e_plan(tier, seed)


def e2e_plan(tier, seed):
    """shards on a REAL server process tree (vf/e2e.py)"""
    out = [{"mode": "e2e", "e2e": "query", "backend": "sql", "workers": 2, "seed": seed }, {"mode": "e2e", "e2e": "query", "backend": "lmdb", "workers": 3, "seed": seed }]
    out.append({"mode": "e2e", "e2e": "paused-reader", "backend": "sql" if seed % 2 == 0 else "lmdb", "seed": seed, "nevents": 160})
    if tier == "thorough":
        out.append({"mode": "e2e", "e2e": "paused-reader", "backend": "lmdb" if seed % 2 == 0 else "sql", "seed": seed, "nevents": 240})
        out += [{"mode": "e2e", "e2e": "query", "backend": b, "workers": w, "seed": seed + 10 + w, "nreqs": 150} for b in ("sql", "lmdb") for w in (2, 4)]
    return out


def _plan(tier, seed):
    shards = []
    if tier == "quick":
        n, small, big, reqs = 8, 1, 2, 160
    else:
        n, small, big, reqs = 32, 3, 6, 500
    for backend in ("sql", "lmdb"):
        for i in range(n):
            shards.append({"backend": backend, "case_seed": seed * 100003 + i * 7919, "small": small, "big": big, "reqs": reqs})
    return shards


def filter_features(f):
    out = []
    for k in sorted(f):
        v = f[k]
        if k in ("since", "until"):
            out.append(k)
        elif k == "limit":
            continue
        elif isinstance(v, list):
            name = "tag" if k.startswith("#") else k
            out.append(name + ("1" if len(set(v)) == 1 else "N"))
    return "+".join(sorted(out))


def effective_limit(f, max_limit=MAX_LIMIT):
    lim = f.get("limit")
    if lim is None:
        return max_limit
    return min(lim, max_limit)


def judge_answer(backend, filters, delivered, stored, plans, max_limit=MAX_LIMIT):
    """returns (violations-without-replay, owed_count, has_obligation)"""
    viols = []
    counts = {}
    for ev in delivered:
        if isinstance(ev, dict) and "id" in ev:
            counts[ev["id"]] = counts.get(ev["id"], 0) + 1
    owed = 0
    obligation = False
    maymatch = {}
    for i, f in enumerate(filters):
        must, may = [], []
        for eid, ev in stored.items():
            v = ref.match3(ev, f)
            if v == ref.MUST:
                must.append(eid)
                may.append(eid)
            elif v == ref.MAY:
                may.append(eid)
        for eid in may:
            maymatch[eid] = maymatch.get(eid, 0) + 1
        if len(may) <= effective_limit(f, max_limit) and must:
            obligation = True
            owed += len(must)
            missing = [e for e in must if counts.get(e, 0) == 0]
            if missing:
                pl = plans[i] if i < len(plans) else (plans[0] if len(plans) == 1 else "?")
                key = "%s/missing/%s%s" % (backend, (pl + "/") if backend == "lmdb" else "", filter_features(f))
                viols.append({"key": key, "msg": "filter %s owes %d stored events, %d not delivered (e.g. %s created_at=%s kind=%s)"
                              % (json.dumps(f)[:300], len(must), len(missing), missing[0][:12],
                                 stored[missing[0]]["created_at"], stored[missing[0]]["kind"])})
    for eid, n in counts.items():
        k = maymatch.get(eid, 0)
        if eid in stored and k and n > k:
            fs = [f for f in filters if ref.match3(stored[eid], f) in (ref.MUST, ref.MAY)]
            pl = "+".join(sorted(set(plans))) if backend == "lmdb" else ""
            key = "%s/dup/%s%s" % (backend, (pl + "/") if pl else "", "|".join(sorted(filter_features(f) for f in fs)))
            viols.append({"key": key, "msg": "event %s delivered %d times but matches only %d filter(s) of %s"
                          % (eid[:12], n, k, json.dumps(filters)[:300])})
    return viols, owed, obligation


def enum_filters(stored, rng):
    """every filter of <=2 conditions x <=2 values over the store's own values"""
    evs = list(stored.values())
    authors = sorted({e["pubkey"] for e in evs})[:3]
    kinds = sorted({e["kind"] for e in evs})[:3]
    ids = sorted(e["id"] for e in evs)
    ids = [ids[0], ids[len(ids) // 2], ids[-1]] if len(ids) >= 3 else ids
    tagvals = {}
    for e in evs:
        for t in e["tags"]:
            if len(t) >= 2 and len(t[0]) == 1 and isinstance(t[1], str):
                tagvals.setdefault(t[0], set()).add(t[1])
    conds = []

    def multi(name, vals):
        vals = list(vals)
        out = [(name, [v]) for v in vals]
        out += [(name, [a, b]) for a, b in itertools.combinations(vals, 2)]
        return out

    groups = [multi("authors", authors), multi("kinds", kinds), multi("ids", ids)]
    for name in sorted(tagvals)[:2]:
        groups.append(multi("#" + name, sorted(tagvals[name])[:3]))
    ts = sorted({e["created_at"] for e in evs})
    grid = sorted(set([ts[0], ts[len(ts) // 2], ts[-1], ts[0] + 1, ts[-1] + 1]))
    groups.append([("since", t) for t in grid])
    groups.append([("until", t) for t in grid])
    out = []
    for g in groups:
        for k, v in g:
            out.append({k: v})
    for g1, g2 in itertools.combinations(groups, 2):
        for (k1, v1), (k2, v2) in itertools.product(g1, g2):
            out.append({k1: v1, k2: v2})
    return out


async def run_store(backend, store_seed, mode, nreqs, counters, coverage, explicit=None):
    rig = R.Rig(backend=backend, config={"analysis_delay": 0})
    await rig.start()
    viols, nontrivial, samples = [], [], []
    try:
        conn = rig.connect()
        tap = qcore.StatementTap(rig).install()
        u = gen.Universe(store_seed)
        if explicit is not None:
            events = explicit["events"]
        elif mode == "small":
            events = u.store(12, history=False)
        else:
            events = u.store(u.rng.randint(40, 160))
        await qcore.load_store(rig, conn, events)
        d = dump.dump(rig)
        stored = dump.stored_events(d)
        counters["stores"] = counters.get("stores", 0) + 1
        counters["stored_events"] = counters.get("stored_events", 0) + len(stored)
        if explicit is not None:
            reqs = [explicit["filters"]]
        elif mode == "small":
            reqs = [[f] for f in enum_filters(stored, u.rng)]
            # the two-condition filters once more with a limit equal to their number of matches
            tight = []
            for (f,) in reqs:
                if len(f) == 2:
                    may = sum(1 for ev in stored.values() if ref.match3(ev, f) in (ref.MUST, ref.MAY))
                    if may and u.rng.random() < 0.5:
                        tight.append([dict(f, limit=may)])
            counters["tight_limits"] = counters.get("tight_limits", 0) + len(tight)
            reqs += tight
            counters["enumerated_filters"] = counters.get("enumerated_filters", 0) + len(reqs)
        else:
            pool = list(stored.values())
            reqs = []
            for _ in range(nreqs):
                n = 1 if u.rng.random() < 0.6 else u.rng.randint(2, 5)
                fs = [u.wellformed_filter(pool, max_conds=u.rng.choice([1, 2, 2, 3, 4])) for _ in range(n)]
                for f in fs:
                    # an explicit limit equal to / just above the number of matches: nothing may be cut
                    if u.rng.random() < 0.3:
                        may = sum(1 for ev in pool if ref.match3(ev, f) in (ref.MUST, ref.MAY))
                        if may:
                            f["limit"] = may + u.rng.choice([0, 0, 1, 3])
                            counters["tight_limits"] = counters.get("tight_limits", 0) + 1
                if u.rng.random() < 0.15:
                    # a filter that can match nothing (an empty value list next to an ordinary condition)
                    # must not take the other filters of the REQ down with it
                    e = u.rng.choice(pool)
                    null = u.rng.choice([
                        {"#p": [e["pubkey"]], "#e": []}, {"#t": ["a"], "#e": []}, {"authors": [e["pubkey"]], "kinds": []},
                        {"kinds": [e["kind"]], "ids": []}, {"#e": []}, {"authors": [], "#t": ["a"]}, {"ids": [e["id"]], "#z": []}])
                    if len(fs) >= 5:
                        fs.pop(u.rng.randrange(len(fs)))  # the property speaks of one to five filters (the LMDB planner plans five)
                    fs.insert(u.rng.randrange(len(fs) + 1), null)
                    counters["reqs_with_unmatchable_filter"] = counters.get("reqs_with_unmatchable_filter", 0) + 1
                reqs.append(fs)
        for filters in reqs:
            m = tap.mark()
            ans = await qcore.run_req(rig, conn, filters)
            got = tap.since(m)
            counters["reqs"] = counters.get("reqs", 0) + 1
            for p in got["plans"]:
                name = p.split("(")[0]
                coverage.setdefault("lmdb_plans", {})
                coverage["lmdb_plans"][name] = coverage["lmdb_plans"].get(name, 0) + 1
                if name == "MultiIndex":
                    coverage.setdefault("lmdb_multiindex_chains", {})
                    coverage["lmdb_multiindex_chains"][p] = coverage["lmdb_multiindex_chains"].get(p, 0) + 1
            if not ans["eose"]:
                viols.append({"key": backend + "/no-eose", "msg": "no EOSE for %s (notices %s)" % (json.dumps(filters)[:200], ans["notices"]),
                              "replay": {"backend": backend, "events": events, "filters": filters}})
                continue
            v, owed, obligation = judge_answer(backend, filters, ans["events"], stored, got["plans"])
            if obligation:
                counters["reqs_with_obligation"] = counters.get("reqs_with_obligation", 0) + 1
                counters["events_owed"] = counters.get("events_owed", 0) + owed
                nontrivial.append(h([backend, store_seed, filters]))
                if len(samples) < 2:
                    samples.append({"backend": backend, "filters": filters, "stored": len(stored), "owed": owed,
                                    "delivered": len(ans["events"]), "plans": got["plans"]})
            counters["frames_judged"] = counters.get("frames_judged", 0) + len(ans["events"])
            for x in v:
                x["replay"] = {"backend": backend, "events": events, "filters": filters}
            viols.extend(v)
    finally:
        await rig.close()
    return viols, nontrivial, samples


def _dedup(viols, cap=2):
    seen = {}
    out = []
    for v in viols:
        n = seen.get(v["key"], 0)
        seen[v["key"]] = n + 1
        if n < cap:
            out.append(v)
    return out, seen


def run_shard(spec):
    if spec.get("mode") == "e2e":
        from .. import e2e_cases

        return e2e_cases.run_e2e_shard(ID, spec)
    counters, coverage = {}, {"backends": {spec["backend"]: 1}}
    viols, nontrivial, samples = [], [], []
    seeds = [("small", spec["case_seed"] * 31 + s) for s in range(spec["small"])] + \
            [("big", spec["case_seed"] * 37 + 1000 + s) for s in range(spec["big"])]
    for mode, sd in seeds:
        v, nt, sm = R.run(run_store, spec["backend"], sd, mode, spec["reqs"], counters, coverage)
        viols.extend(v)
        nontrivial.extend(nt)
        samples.extend(sm)
    viols, seen = _dedup(viols)
    counters["violations_by_key"] = seen
    return {"evaluations": counters.get("reqs", 0), "nontrivial": sorted(set(nontrivial)), "counters": counters,
            "coverage": coverage, "violations": viols, "samples": samples[:2], "inconclusive": []}


def replay(rp, spec):
    if rp.get("mode") == "e2e":
        from .. import e2e_cases

        return e2e_cases.run_e2e_shard(ID, rp)
    counters, coverage = {}, {}
    v, nt, sm = R.run(run_store, rp["backend"], 0, "explicit", 0, counters, coverage, rp)
    v, seen = _dedup(v, cap=50)
    return {"evaluations": 1, "nontrivial": nt, "counters": counters, "coverage": coverage, "violations": v,
            "samples": sm, "inconclusive": []}
