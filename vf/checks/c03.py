"""
C03 - only authentic events are stored, acknowledged or forwarded.

The authenticity oracle (stdlib json + hashlib + libsecp256k1 via coincurve, nothing from
the repository or aionostr) judges the RAW submitted JSON; three taps are compared with
it: OK frames, the store dump at quiescence, and the frames received by a watcher
connection subscribed to everything.  Admission paths: websocket EVENT, storage.add_event
called directly (what bulk tools use), the real `nostr-relay load` command, and
add_service_event.
"""
import asyncio
import json
import os
import subprocess
import sys

from .. import rig as R, ref, gen, subm, dump, env
from ..orch import h

ID = "C03"
TECHNIQUE = 'runtime monitoring - authenticity oracle (independent sha256 + schnorr) over everything acknowledged, stored or pushed, for ~120 single corruptions x event shapes through websocket, storage API and CLI; concurrent twins and resend-after-acceptance sequences; end-to-end shard: a genuine event verified by one worker process, then forgeries that keep its id/sig or its delegation tag offered to every worker; one all-events watcher per worker'
LEVEL = "exploration"
RULE = (
    "cases = (backend, admission path, valid seed shape out of ~33 covering every kind class / delegation / tag and "
    "content shapes, one typed corruption out of ~130: id (other hash, random hex, case, length, type), pubkey (case, "
    "other key, length), sig (bit flip, transplanted, case, length), created_at and kind (string/float/bool/null/list/"
    "negative/2^32/2^63/2^64, both with the old id and re-hashed+re-signed so that the relay's own verify() passes), "
    "tags and content of wrong JSON types, extra/missing keys, forged/transplanted/mis-shaped delegation tags). "
    "Non-trivial = the oracle says 'not authentic' (an obligation exists); distinct = distinct (backend, path, shape, "
    "corruption label)."
)
ASSUMPTIONS = [
    "end-to-end shards: a real gunicorn/uvicorn server process tree started from the tree under test (vf/e2e_launch.py: the repository's run_with_gunicorn / run_with_uvicorn; the SQL schema is made with the repository's metadata.create_all because its alembic env.py does not run with the installed SQLAlchemy; the notifier's fixed TCP port 6000 is replaced by a free port), spoken to over loopback TCP with the websockets client; real time, real sleeps",
    "coincurve/libsecp256k1, hashlib and the stdlib JSON encoder are trusted as the oracle's primitives",
    "events whose strings contain C0 controls on which JSON encoders disagree carry no obligation either way",
    "tag items that are not strings do not make an event unauthentic (the properties only require verbatim service)",
    "LMDB backend over /verif/shim; SQL = SQLite",
]
MIN_NONTRIVIAL = {"quick": 300, "thorough": 1500}
REQUIRED_COUNTERS = ["e2e.e2e_forgeries_submitted", "e2e.e2e_watchers_checked", "taps.ok", "taps.stored", "taps.pushed", "valid_accepted"]
SHARD_TIMEOUT = {"quick": 500, "thorough": 3000}


def plan(tier, seed):
    return _plan(tier, seed) + e2e_plan(tier, seed)


def e2e_plan(tier, seed):
    """shards on a REAL server process tree (vf/e2e.py)"""
    out = [{"mode": "e2e", "e2e": "c03", "backend": b, "workers": 2, "seed": seed} for b in ("sql", "lmdb")]
    if tier == "thorough":
        out += [{"mode": "e2e", "e2e": "c03", "backend": b, "workers": 3, "seed": seed + 1} for b in ("sql", "lmdb")]
    return out


def _plan(tier, seed):
    shards = []
    nshape = 6 if tier == "quick" else 33
    for backend in ("sql", "lmdb"):
        for path in ("ws", "api"):
            for rep in range(1 if tier == "quick" else 4):
                for i in range(4 if tier == "quick" else 8):
                    shards.append({"backend": backend, "path": path, "case_seed": seed * 1009 + i + rep * 100, "part": i,
                                   "parts": 4 if tier == "quick" else 8, "nshape": nshape})
        shards.append({"backend": backend, "path": "cli", "case_seed": seed * 1009 + 77, "part": 0, "parts": 1, "nshape": 3 if tier == "quick" else 8})
        shards.append({"backend": backend, "path": "service", "case_seed": seed * 1009 + 78, "part": 0, "parts": 1, "nshape": 1})
    return shards


def family(label):
    if label.startswith("concurrent-twin"):
        return "concurrent-twin-shares-verification"
    if label.startswith("id=") or label.startswith("id-"):
        return "supplied-id-not-the-hash" if not any(x in label for x in ("63", "65", "non-hex", "upper", "=5", "None", "[]", "True", "missing")) else "id-malformed"
    if "hex-with-blank" in label:
        return "hex-with-blank/" + label.split("=")[0]
    if label.startswith("pubkey=upper"):
        return "hex-case/pubkey"
    if label.startswith("sig=upper"):
        return "hex-case/sig"
    for f in ("created_at", "kind", "tags", "content"):
        if label.startswith(f + "="):
            return "json-type/" + f
    if label.startswith("delegation="):
        return "delegation/" + label.split("=", 1)[1]
    return label.split(" ")[0]


def gen_cases(spec):
    seeds = subm.Seeds(spec["case_seed"])
    shapes = seeds.shapes()
    seeds.rng.shuffle(shapes)
    # events with many tags and delegated ones are in every run; the rest is sampled
    pinned = [x for x in shapes if x[0] in ("many-tags", "delegated")]
    shapes = pinned + [x for x in shapes if x not in pinned][: max(0, spec["nshape"] - len(pinned))]
    cases = []
    for sl, kw in shapes:
        for label, raw, tk, consistent in subm.corruptions(seeds, kw):
            cases.append({"shape": sl, "label": label, "raw": raw, "token": tk, "consistent": consistent})
        ev, key, tk = seeds.build(kw)
        cases.append({"shape": sl, "label": "valid", "raw": ev, "token": tk, "consistent": True})
    cases = [c for i, c in enumerate(cases) if i % spec["parts"] == spec["part"]]
    return cases


def find_stored(d, case):
    """stored events that stem from this submission: same id, or same unique content token"""
    out = []
    raw = case["raw"]
    rid = raw.get("id") if isinstance(raw, dict) else None
    for eid, ev in d["events"].items():
        if (isinstance(rid, str) and eid == rid.lower() and not case.get("by_token_only")) or (case["token"] and isinstance(ev.get("content"), str) and case["token"] in ev["content"]):
            out.append(eid)
    return out


def judge(backend, path, cases, d, pushed, counters):
    viols, nontrivial = [], []
    taps = counters.setdefault("taps", {})
    for c in cases:
        raw = c["raw"]
        verdict, why = ref.authentic(raw)
        c["verdict"] = verdict
        if c["label"] == "valid":
            if c.get("ok") is True:
                counters["valid_accepted"] = counters.get("valid_accepted", 0) + 1
            continue
        if verdict is not False:
            counters["corruptions_still_authentic"] = counters.get("corruptions_still_authentic", 0) + 1
            continue
        nontrivial.append(h([backend, path, c["shape"], c["label"]]))
        fam = family(c["label"])
        rp = {"backend": backend, "path": path, "raw": raw, "token": c["token"], "label": c["label"], "shape": c["shape"]}
        taps["ok"] = taps.get("ok", 0) + 1
        if c.get("ok") is True:
            viols.append({"key": "acknowledged/" + fam, "msg": "[%s/%s] %s (%s): OK=true for an event that is not authentic: %s; raw=%s"
                          % (backend, path, c["label"], c["shape"], why, json.dumps(raw, default=repr)[:400]), "replay": rp})
        taps["stored"] = taps.get("stored", 0) + 1
        st = find_stored(d, c)
        if st:
            viols.append({"key": "stored/" + fam, "msg": "[%s/%s] %s (%s): not authentic (%s) yet stored as %s"
                          % (backend, path, c["label"], c["shape"], why, st[0][:16]), "replay": rp})
        taps["pushed"] = taps.get("pushed", 0) + 1
        rid = raw.get("id") if isinstance(raw, dict) else None
        for ev in pushed:
            if (isinstance(rid, str) and ev.get("id") == rid and not c.get("by_token_only")) or (c["token"] and isinstance(ev.get("content"), str) and c["token"] in ev["content"]):
                viols.append({"key": "pushed/" + fam, "msg": "[%s/%s] %s (%s): not authentic (%s) yet pushed to a subscriber"
                              % (backend, path, c["label"], c["shape"], why), "replay": rp})
                break
    return viols, nontrivial


ALL_KINDS = [0, 1, 3, 4, 5, 7, 40, 1984, 9735, 10000, 10001, 10002, 19999, 20000, 29999, 30000, 30023, 39999, 40000, 65535]


async def run_ws_api(backend, path, cases, counters, late_viols=None):
    late_viols = late_viols if late_viols is not None else []
    rig = R.Rig(backend=backend, config={"analysis_delay": 0, "service_privatekey": ref.key_from_seed("service").sk_hex})
    await rig.start()
    try:
        watcher = rig.connect("watch")
        await watcher.cmd(["REQ", "w", {"since": 1}, {"kinds": ALL_KINDS}, {"until": 2000000000}])
        await rig.quiesce()
        conn = rig.connect("sub")
        from nostr_relay.errors import StorageError, AuthenticationError

        for c in cases:
            if path == "ws":
                if conn.exited:
                    conn = rig.connect()
                n0 = rig.rec.n
                await conn.cmd(["EVENT", c["raw"]])
                oks = R.ok_frames(conn, n0)
                c["ok"] = oks[-1][1][2] if oks and len(oks[-1][1]) > 2 else None
                c["reason"] = oks[-1][1][3] if oks and len(oks[-1][1]) > 3 else None
            else:
                try:
                    ev, added = await rig.storage.add_event(json.loads(json.dumps(c["raw"])))
                    c["ok"] = bool(added) if backend == "sql" else True
                    if backend == "sql" and not added:
                        c["ok"] = False
                except (StorageError, AuthenticationError) as e:
                    c["ok"], c["reason"] = False, str(e)
                except Exception as e:
                    c["ok"], c["reason"] = False, "exception " + repr(e)[:100]
            counters["submissions"] = counters.get("submissions", 0) + 1
        # ---- concurrent twins: a forgery that keeps id and sig of a genuine event and arrives on
        # another connection WHILE the genuine one is being verified (validators run in threads)
        if path == "ws":
            seeds = subm.Seeds(7)
            conn2 = rig.connect("sub2")
            twins = []
            import random as _r

            rr = _r.Random(len(cases))
            old_delay = rig.executor.delay
            rig.executor.delay = lambda: rr.choice([0, 0.001, 0.002])
            for j in range(12):
                ev, key, tk = seeds.build({"kind": 1, "created_at": gen.T0 - 20 - j})
                tk2 = subm.token("twin")
                forged = dict(ev, content=ev["content"].replace(tk, tk2))
                order = j % 3
                n1, n2 = rig.rec.n, rig.rec.n
                if order == 0:
                    conn.feed(["EVENT", ev]); conn2.feed(["EVENT", forged])
                elif order == 1:
                    conn2.feed(["EVENT", forged]); conn.feed(["EVENT", ev])
                else:
                    conn.feed(["EVENT", ev]); await asyncio.sleep(0); conn2.feed(["EVENT", forged])
                await conn.processed(); await conn2.processed()
                await rig.quiesce()
                oks2 = R.ok_frames(conn2, n2)
                ok2 = next((f[2] for _, f in oks2 if len(f) > 2 and f[1] in (ev["id"], "")), None) if oks2 else None
                twins.append({"shape": "kind1", "label": "concurrent-twin (same id+sig, content altered, order %d)" % order, "raw": forged, "token": tk2, "consistent": False,
                              "ok": oks2[-1][1][2] if oks2 else None, "by_token_only": True})
                counters["concurrent_twins"] = counters.get("concurrent_twins", 0) + 1
            rig.executor.delay = old_delay
            cases.extend(twins)
            # ---- verified once is not verified for ever: a genuine event is accepted, (removed again by its
            # author,) and then its id and signature come back around OTHER tags / another created_at
            victim = ref.key_from_seed("c03-victim")
            extra = counters.setdefault("resent_after_acceptance", {})
            for j in range(8):
                ev, key, tk = seeds.build({"kind": 1, "created_at": gen.T0 - 60 - j})
                await conn.cmd(["EVENT", ev])
                removed = j % 2 == 0
                if removed:
                    await conn.cmd(["EVENT", ref.make_event(key, kind=5, created_at=gen.T0 - 10, tags=[["e", ev["id"]]], content="del " + tk)])
                await rig.quiesce()
                tk2 = subm.token("resent")
                forged = dict(ev)
                if j % 4 < 2:
                    forged["tags"] = [["delegation", victim.pk, "kind=1", "00" * 64], ["t", tk2]]
                    what = "tags"
                else:
                    forged["created_at"] = ev["created_at"] + 1000
                    forged["tags"] = [["t", tk2]]
                    what = "created_at+tags"
                n2 = rig.rec.n
                m2 = rig.rec.n
                await conn2.cmd(["EVENT", forged])
                await rig.quiesce()
                oks2 = R.ok_frames(conn2, n2)
                ok2 = oks2[-1][1][2] if oks2 and len(oks2[-1][1]) > 2 else None
                extra["submitted"] = extra.get("submitted", 0) + 1
                dd = dump.dump(rig)
                st = dd["events"].get(ev["id"])
                stored_forged = bool(st and any(isinstance(t, list) and tk2 in t for t in st.get("tags", [])))
                pushed_forged = any(isinstance(f, list) and len(f) >= 3 and f[0] == "EVENT" and isinstance(f[2], dict) and any(isinstance(t, list) and tk2 in t for t in f[2].get("tags", []))
                                    for n, f in watcher.parsed_frames(m2))
                if ok2 is True or stored_forged or pushed_forged:
                    late_viols.append({"key": "%s/verified-earlier/%s-changed/%s" % ("acknowledged" if ok2 is True else ("stored" if stored_forged else "pushed"), what, "after-removal" if removed else "while-stored"),
                                       "msg": "[%s/ws] an event was accepted%s; the same id and sig around different %s came back: OK=%s stored=%s pushed=%s"
                                              % (backend, " and deleted by its author" if removed else "", what, ok2, stored_forged, pushed_forged),
                                       "replay": {"backend": backend, "path": path, "raw": forged, "token": tk2, "label": "resent-after-acceptance", "shape": "kind1"}})
            # ---- a delegation token that was verified for ITS delegatee is no token for anybody else: the genuine
            # delegated event is accepted first, then another key signs an event of its own around the very same tag
            for j in range(4):
                ev, key, tk = seeds.build({"kind": 1, "created_at": gen.T0 - 90 - j, "delegated": True})
                n1 = rig.rec.n
                await conn.cmd(["EVENT", ev])
                oks1 = R.ok_frames(conn, n1)
                counters["delegation_genuine_first"] = counters.get("delegation_genuine_first", 0) + (1 if oks1 and oks1[-1][1][2] is True else 0)
                other = next(k for k in seeds.keys if k is not key)
                tk2 = subm.token("transplant")
                thief = ref.make_event(other, kind=1, created_at=gen.T0 - 80 - j, tags=[t for t in ev["tags"] if t[0] == "delegation"], content=tk2)
                n2 = rig.rec.n
                await (conn2 if j % 2 else conn).cmd(["EVENT", thief])
                await rig.quiesce()
                oks2 = R.ok_frames(conn2 if j % 2 else conn, n2)
                cases.append({"shape": "delegated", "label": "delegation=transplanted-after-genuine-accepted", "raw": thief, "token": tk2, "consistent": False,
                              "ok": oks2[-1][1][2] if oks2 and len(oks2[-1][1]) > 2 else None})
            # ---- created_at 0 in the JSON, id and sig made for the second in which the relay handles the message (the
            # event library puts "now" in place of a zero timestamp): what is acknowledged must be what was sent
            import time as _time

            for j in range(4):
                key = seeds.keys[j % len(seeds.keys)]
                tk2 = subm.token("zero-ts")
                real = ref.make_event(key, kind=1, created_at=int(_time.time()) + (j % 2), tags=[], content=tk2)
                raw0 = dict(real, created_at=0)
                n2 = rig.rec.n
                await conn.cmd(["EVENT", raw0])
                await rig.quiesce()
                oks2 = R.ok_frames(conn, n2)
                counters["zero_timestamp_submissions"] = counters.get("zero_timestamp_submissions", 0) + 1
                cases.append({"shape": "kind1", "label": "created_at=0/id-made-for-the-relay's-clock", "raw": raw0, "token": tk2, "consistent": False,
                              "ok": oks2[-1][1][2] if oks2 and len(oks2[-1][1]) > 2 else None, "by_token_only": True})
        await rig.quiesce()
        d = dump.dump(rig)
        pushed = [f[2] for n, f in watcher.parsed_frames() if isinstance(f, list) and len(f) >= 3 and f[0] == "EVENT" and isinstance(f[2], dict)]
        counters["pushed_frames_seen"] = counters.get("pushed_frames_seen", 0) + len(pushed)
    finally:
        await rig.close()
    return d, pushed


def run_cli(backend, cases, counters):
    """the real `nostr-relay load` click command on a JSONL file, in a subprocess"""
    scratch = env.scratch("vf-cli-")
    rig = R.Rig(backend=backend, scratch_dir=scratch, config={"analysis_delay": 0})
    cfg = rig.load_config()
    if backend == "sql":
        async def mk():
            await rig.start()
            await rig.close()
        R.run(mk)
    jl = os.path.join(scratch, "events.jsonl")
    with open(jl, "w") as fp:
        for i, c in enumerate(cases):
            line = json.dumps(c["raw"] if i % 2 else ["EVENT", c["raw"]], ensure_ascii=False)
            fp.write(line + "\n")
    # `load` aborts on the first exception that is not a StorageError, so the command is
    # invoked once per line (same interpreter, real click command, real asyncio.run)
    code = (
        "import sys, os; sys.path.insert(0, %r); sys.path.insert(0, %r)\n"
        "from vf import env; env.setup_paths()\n"
        "from nostr_relay.cli import main\n"
        "n = 0\n"
        "for line in open(%r):\n"
        "    with open(%r, 'w') as fp: fp.write(line)\n"
        "    try:\n"
        "        main(['-c', %r, 'load', %r], standalone_mode=False)\n"
        "    except BaseException as e:\n"
        "        print('ABORTED', type(e).__name__)\n"
        "    n += 1\n"
        "print('LINES', n)\n" % (env.REPO, env.VERIF, jl, jl + ".one", rig.config_path, jl + ".one")
    )
    p = subprocess.run([sys.executable, "-c", code], stdout=subprocess.PIPE, stderr=subprocess.PIPE, timeout=900,
                       env=dict(os.environ, PYTHONHASHSEED="0"))
    out = p.stdout.decode("utf-8", "replace")
    counters["cli_invocations"] = counters.get("cli_invocations", 0) + out.count("Total events")
    counters["cli_aborted"] = counters.get("cli_aborted", 0) + out.count("ABORTED")
    if "LINES %d" % len(cases) not in out:
        raise RuntimeError("cli driver did not finish: rc=%s %s" % (p.returncode, p.stderr.decode("utf-8", "replace")[-800:]))
    counters["submissions"] = counters.get("submissions", 0) + len(cases)
    if backend == "sql":
        d = dump.dump_sql(dump.sql_path(rig))
    else:
        d = dump.dump_lmdb(os.path.join(scratch, "lmdb"))
    for c in cases:
        c["ok"] = None
    return d, []


async def run_service(backend, counters):
    """add_service_event must only ever produce authentic events (internal path)"""
    key = ref.key_from_seed("service")
    rig = R.Rig(backend=backend, config={"analysis_delay": 0, "service_privatekey": key.sk_hex})
    await rig.start()
    viols = []
    try:
        watcher = rig.connect("watch")
        await watcher.cmd(["REQ", "w", {"since": 1}])
        for i, (content, tags) in enumerate([("x", {"d": "first"}), ("é\x0b\"", {"t": "auth", "d": "auth:zz"}), ("", [["p", "00" * 32], ["n", "a@b"]]),
                                             ("rw", {"d": "x" * 100})]):
            try:
                await rig.storage.add_service_event(content=content, tags=tags, created_at=gen.T0 + i)
            except Exception as e:  # refusals of internal events are not this property's business
                counters["service_add_raised"] = counters.get("service_add_raised", 0) + 1
            counters["submissions"] = counters.get("submissions", 0) + 1
        for fn, a in ((rig.storage.set_auth_roles, ("11" * 32, "rw")), (rig.storage.set_identified_pubkey, ("a@b", "22" * 32, ["wss://r"]))):
            try:
                await fn(*a)
            except Exception:
                counters["service_add_raised"] = counters.get("service_add_raised", 0) + 1
        await rig.quiesce()
        d = dump.dump(rig)
        for eid, ev in dump.stored_events(d).items():
            counters.setdefault("taps", {})
            counters["taps"]["service_stored"] = counters["taps"].get("service_stored", 0) + 1
            v, why = ref.authentic(ev)
            if v is False:
                viols.append({"key": "stored/service-event", "msg": "[%s/service] stored service event %s is not authentic: %s" % (backend, eid[:16], why),
                              "replay": {"backend": backend, "path": "service"}})
    finally:
        await rig.close()
    return viols


def run_shard(spec):
    if spec.get("mode") == "e2e":
        from .. import e2e_cases

        return e2e_cases.run_e2e_shard(ID, spec)
    counters = {}
    backend, path = spec["backend"], spec["path"]
    if path == "service":
        viols = R.run(run_service, backend, counters)
        return {"evaluations": counters.get("submissions", 0), "nontrivial": [], "counters": counters,
                "coverage": {"paths": {path: 1}, "backends": {backend: 1}}, "violations": viols, "samples": [], "inconclusive": []}
    cases = gen_cases(spec)
    if path == "cli":
        d, pushed = run_cli(backend, cases, counters)
    else:
        late = []
        d, pushed = R.run(run_ws_api, backend, path, cases, counters, late)
    viols, nontrivial = judge(backend, path, cases, d, pushed, counters)
    if path == "ws":
        viols.extend(late)
        nontrivial.extend(h([backend, "resent-after-acceptance", i]) for i in range(counters.get("resent_after_acceptance", {}).get("submitted", 0)))
    seen, out = {}, []
    for v in viols:
        seen[v["key"]] = seen.get(v["key"], 0) + 1
        if seen[v["key"]] <= 2:
            out.append(v)
    counters["violations_by_key"] = seen
    labels = {}
    for c in cases:
        labels[family(c["label"])] = labels.get(family(c["label"]), 0) + 1
    samples = [{"backend": backend, "path": path, "label": c["label"], "shape": c["shape"], "ok": c.get("ok"), "reason": c.get("reason"),
                "authentic": c.get("verdict"), "raw": c["raw"]} for c in cases[:400:97]][:2]
    return {"evaluations": len(cases), "nontrivial": sorted(set(nontrivial)), "counters": counters,
            "coverage": {"paths": {path: 1}, "backends": {backend: 1}, "corruption_families": labels},
            "violations": out, "samples": samples, "inconclusive": []}


def replay(rp, spec):
    if rp.get("mode") == "e2e":
        from .. import e2e_cases

        return e2e_cases.run_e2e_shard(ID, rp)
    counters = {}
    if rp.get("path") == "service":
        v = R.run(run_service, rp["backend"], counters)
        return {"evaluations": 1, "nontrivial": [], "counters": counters, "violations": v, "samples": [], "inconclusive": []}
    cases = [{"shape": rp.get("shape", "?"), "label": rp["label"], "raw": rp["raw"], "token": rp.get("token", ""), "consistent": True}]
    if rp["path"] == "cli":
        d, pushed = run_cli(rp["backend"], cases, counters)
    else:
        d, pushed = R.run(run_ws_api, rp["backend"], rp["path"], cases, counters)
    viols, nontrivial = judge(rp["backend"], rp["path"], cases, d, pushed, counters)
    return {"evaluations": 1, "nontrivial": nontrivial, "counters": counters, "violations": viols, "samples": [], "inconclusive": []}
