"""
C04 - every frame the relay sends is well-formed JSON of a known shape carrying the
client's subscription id, and every served event is verbatim.

Online frame monitor at ws_send (strict stdlib JSON parser, shape automaton) + equality
of every served event (stored answer, live push, GET /e/<id>) with the harness' own
record of the accepted submission (type-strict deep equality) + the authenticity oracle
on what was served.
"""
import asyncio
import json

from .. import rig as R, ref, gen, subm, dump, qcore
from ..orch import h

ID = "C04"
TECHNIQUE = 'runtime monitoring - frame-shape and verbatim monitors: every frame handed to the socket parsed strictly; served events (live, stored, HTTP) deep-compared with the accepted ones; sweep over all Unicode scalar values and JSON types; injected storage faults and rate-limit refusals for the OK frame; end-to-end shard: the same frame / verbatim monitors over a real gunicorn/uvicorn server (websocket frames as uvicorn writes them, with and without permessage-deflate; GET /e/<id> and the NIP-11 document over real HTTP)'
LEVEL = "exploration"
RULE = (
    "cases: (a) subscription ids - every ASCII code point 0-127 alone and embedded, quotes, backslashes, JSON-looking "
    "text, non-BMP, lengths 0-300, and non-string JSON values - each used for a REQ answered from storage, an EOSE, a "
    "live push and a CLOSE; (b) event contents and tag values sweeping ALL 1,112,064 Unicode scalar values (4000 per "
    "content, 100 per tag value; the thorough tier covers the whole space on both backends, quick covers it on SQL and "
    "a stride on LMDB), escapes, NUL, empty tags, tag items of every JSON type, 63-bit integers; each accepted event is "
    "read back from storage, through a live subscription and over HTTP. Non-trivial = a frame carrying a hostile "
    "subscription id, or an accepted event compared on at least one serving path; distinct = distinct (backend, case)."
)
EXHAUSTIVE = {"quick": False, "thorough": True}
ASSUMPTIONS = [
    "end-to-end shards: a real gunicorn/uvicorn server process tree started from the tree under test (vf/e2e_launch.py: the repository's run_with_gunicorn / run_with_uvicorn; the SQL schema is made with the repository's metadata.create_all because its alembic env.py does not run with the installed SQLAlchemy; the notifier's fixed TCP port 6000 is replaced by a free port), spoken to over loopback TCP with the websockets client; real time, real sleeps",
    "the stdlib json module in strict mode is the reference parser for 'well-formed'",
    "for non-string subscription ids only well-formedness of the frames is required",
    "LMDB backend over /verif/shim; SQL = SQLite; HTTP path = ViewEventResource.on_get rendered by falcon's media handler",
]
MIN_NONTRIVIAL = {"quick": 600, "thorough": 1500}
REQUIRED_COUNTERS = ["e2e.e2e_frames_checked", "e2e.e2e_verbatim_checked", "e2e.e2e_http_gets", "frames_checked", "served.stored", "served.live", "served.http", "subids_checked", "rate_limited_commands"]
SHARD_TIMEOUT = {"quick": 500, "thorough": 3000}
SCALARS = [(0, 0xD800), (0xE000, 0x110000)]


def plan(tier, seed):
    return _plan(tier, seed) + e2e_plan(tier, seed)


def e2e_plan(tier, seed):
    """shards on a REAL server process tree (vf/e2e.py)"""
    out = []
    for i in range(1 if tier == "quick" else 6):
        out += [{"mode": "e2e", "e2e": "wire", "backend": b, "seed": seed * 7919 + i + j, "nevents": 60 if tier == "quick" else 200} for j, b in enumerate(("sql", "lmdb"))]
    # uvicorn's `websockets` implementation with permessage-deflate (the one the repository's monkeypatch applies to) in every run
    out.append({"mode": "e2e", "e2e": "wire", "backend": "sql", "seed": seed * 7919 + 77, "nevents": 30, "server_mode": "uvicorn-ws"})
    return out


def _plan(tier, seed):
    shards = []
    for backend in ("sql", "lmdb"):
        shards.append({"backend": backend, "mode": "subids", "case_seed": seed})
        shards.append({"backend": backend, "mode": "subids-auth", "case_seed": seed})
        shards.append({"backend": backend, "mode": "tagtypes", "case_seed": seed})
        shards.append({"backend": backend, "mode": "ratelimited", "case_seed": seed})
        nparts = 8
        stride = 1 if (tier == "thorough" or backend == "sql") else 4
        for p in range(nparts):
            shards.append({"backend": backend, "mode": "unicode", "part": p, "parts": nparts, "stride": stride, "case_seed": seed})
    return shards


def _reject_constant(name):
    raise ValueError("non-JSON constant " + name)


def strict_loads(text):
    return json.loads(text, parse_constant=_reject_constant)


def frame_shape_ok(f):
    if not isinstance(f, list) or not f or not isinstance(f[0], str):
        return False
    t = f[0]
    if t == "EVENT":
        return len(f) == 3 and isinstance(f[1], str) and isinstance(f[2], dict)
    if t == "EOSE":
        return len(f) == 2 and isinstance(f[1], str)
    if t == "OK":
        return len(f) == 4 and isinstance(f[1], str) and isinstance(f[2], bool) and isinstance(f[3], str)
    if t == "NOTICE":
        return len(f) == 2 and isinstance(f[1], str)
    if t == "AUTH":
        return len(f) == 2 and isinstance(f[1], str)
    return False


def check_frames(conn, since_n, expected_sub, counters, viols, replay, backend):
    """every frame handed to ws_send since log position since_n"""
    for n, text in conn.frames:
        if n <= since_n:
            continue
        counters["frames_checked"] = counters.get("frames_checked", 0) + 1
        try:
            f = strict_loads(text)
        except Exception as e:
            viols.append({"key": "frame-not-json/" + classify_subid(expected_sub),
                          "msg": "[%s] frame is not valid JSON (%s): %r (subscription id %r)" % (backend, e, text[:200], expected_sub),
                          "replay": replay})
            continue
        if not frame_shape_ok(f):
            viols.append({"key": "frame-shape/" + (f[0] if isinstance(f, list) and f and isinstance(f[0], str) else "?"),
                          "msg": "[%s] frame has an unknown shape: %r" % (backend, text[:200]), "replay": replay})
            continue
        if f[0] in ("EVENT", "EOSE") and isinstance(expected_sub, str) and f[1] != expected_sub:
            viols.append({"key": "subid-changed/" + classify_subid(expected_sub),
                          "msg": "[%s] %s frame carries subscription id %r, client sent %r" % (backend, f[0], f[1], expected_sub),
                          "replay": replay})


def classify_subid(s):
    if not isinstance(s, str):
        return "non-string:" + type(s).__name__
    if '"' in s:
        return "quote"
    if "\\" in s:
        return "backslash"
    if any(ord(c) < 0x20 for c in s):
        return "control-char"
    return "plain"


def subid_cases():
    out = [chr(i) for i in range(128)]
    out += ["a%sb" % chr(i) for i in list(range(0x20)) + [0x22, 0x5C, 0x7F]]
    out += ["", " ", "sub", 'a"b', 'a\\"b', "a\\", "\\u0041", '","x"]', '"]', "']", "{}", "[", "é", "\U0001f600", "\U00010000x", "￾",
            "  ", "x" * 64, "y" * 300, "%s", "{0}", "null", "true", "1"]
    out += [5, 0, -1, 1.5, True, False, None, [1], ["a"], ['a"b'], {"a": 1}, {"a": 'q"'}, [], {}, 2 ** 70, "5"]
    return out


async def run_subids(backend, auth, counters):
    cfg = {"analysis_delay": 0, "subscription_limit": 5}
    if auth:
        cfg["authentication"] = {"enabled": True, "relay_urls": ["ws://localhost:6969"], "actions": {"save": "a", "query": "a"}}
    rig = R.Rig(backend=backend, config=cfg)
    await rig.start()
    viols, nontrivial, samples = [], [], []
    try:
        key = ref.key_from_seed("c04")
        pub = rig.connect("pub")
        stored = [ref.make_event(key, kind=1, created_at=gen.T0 + i, content="s%d" % i) for i in range(2)]
        for e in stored:
            await pub.cmd(["EVENT", e])
        await rig.quiesce()
        n = 0
        for sid in subid_cases():
            conn = rig.connect()
            await rig.quiesce()
            replay = {"backend": backend, "mode": "subids-auth" if auth else "subids", "subid": sid}
            check_frames(conn, 0, None, counters, viols, replay, backend)
            n0 = rig.rec.n
            raw_req = json.dumps(["REQ", sid, {"kinds": [1], "limit": 5}], ensure_ascii=False)
            await conn.cmd(raw_req)
            await rig.quiesce()
            n += 1
            live = ref.make_event(key, kind=1, created_at=gen.T0 + 100 + n, content="live%d" % n)
            await pub.cmd(["EVENT", live])
            await rig.quiesce()
            got = [f for _, f in conn.parsed_frames(n0) if isinstance(f, list)]
            counters["subids_checked"] = counters.get("subids_checked", 0) + 1
            if classify_subid(sid) != "plain":
                nontrivial.append(h([backend, auth, "subid", repr(sid)]))
            check_frames(conn, n0, sid, counters, viols, replay, backend)
            if isinstance(sid, str):
                evs = [f for f in got if f and f[0] == "EVENT" and len(f) > 1 and f[1] == sid]
                eos = [f for f in got if f and f[0] == "EOSE" and len(f) > 1 and f[1] == sid]
                counters["subid_event_frames"] = counters.get("subid_event_frames", 0) + len(evs)
                counters["subid_eose_frames"] = counters.get("subid_eose_frames", 0) + len(eos)
            await conn.cmd(json.dumps(["CLOSE", sid], ensure_ascii=False))
            conn.disconnect()
            await rig.quiesce()
            stored.append(live)
            if len(samples) < 2 and classify_subid(sid) != "plain":
                samples.append({"backend": backend, "subid": sid, "frames": [t for _, t in conn.frames][:3]})
    finally:
        await rig.close()
    return viols, nontrivial, samples


def unicode_events(key, part, parts, stride):
    """events whose contents / tag values together cover every Unicode scalar value"""
    cps = []
    for lo, hi in SCALARS:
        cps.extend(range(lo, hi))
    chunks = [cps[i:i + 4000] for i in range(0, len(cps), 4000)]
    evs = []
    for ci, chunk in enumerate(chunks):
        if ci % parts != part or (ci // parts) % stride:
            continue
        text = "".join(map(chr, chunk))
        tags = [["t", text[i:i + 100]] for i in range(0, 4000, 100)][: 40]
        evs.append(("U+%04X.." % chunk[0], ref.make_event(key, kind=1, created_at=gen.T0 + ci, content=text, tags=tags[:20])))
        evs.append(("tags U+%04X.." % chunk[0], ref.make_event(key, kind=1, created_at=gen.T0 + ci, content="c%d" % ci, tags=tags)))
    return evs


def tagtype_events(key):
    T = gen.T0
    cases = []

    def mk(label, **kw):
        ev = ref.make_event(key, **kw)
        # re-hash with the relay's own serialiser so that acceptance is not a matter of
        # float/escape rendering differences between JSON libraries
        try:
            ev["id"] = subm.rapid_id(ev)
            ev["sig"] = key.sign(bytes.fromhex(ev["id"]))
        except Exception:
            return
        cases.append((label, ev))

    items = [("int", 5), ("neg", -3), ("float", 1.5), ("float.0", 2.0), ("bigfloat", 1e100), ("true", True), ("false", False), ("null", None),
             ("nested", ["x", "y"]), ("nested-empty", []), ("obj", {"a": 1}), ("int63", 2 ** 63 - 1), ("int64", 2 ** 64 - 1), ("zero", 0),
             ("str-true", "True"), ("str-none", "None")]
    for i, (name, val) in enumerate(items):
        mk("tag-item=" + name, kind=1, created_at=T + i, tags=[["x", val]], content="tt-" + name)
        mk("tag-item2=" + name, kind=1, created_at=T + i, tags=[["e", "a", val], ["t", "v"]], content="tt2-" + name)
        mk("tag-name=" + name, kind=1, created_at=T + i, tags=[[val, "v"]], content="tt3-" + name)
    # replaceable kinds with the d-tag shapes the stores look at when they work out the address
    for name, kind, tags in (("bare-d", 30023, [["t", "x"], ["d"]]), ("bare-d-then-d", 39999, [["d"], ["d", "second"]]), ("empty-d", 30000, [["d", ""]]), ("no-d", 30001, [["t", "x"]]),
                             ("d-extra-items", 30002, [["d", "x", "y", 5]]), ("kind0-tags", 0, [["d"], ["p"]]), ("kind3-bare-p", 3, [["p"], ["p", "a"]]), ("kind10002", 10002, [["r"], ["d"]])):
        mk("address=" + name, kind=kind, created_at=T + 3, tags=tags, content="tt-addr-" + name)
    mk("empty-tag", kind=1, created_at=T, tags=[[]], content="tt-empty-tag")
    mk("empty-tags", kind=1, created_at=T, tags=[], content="tt-empty-tags")
    mk("bare-tags", kind=1, created_at=T, tags=[["d"], ["e"], [""]], content="tt-bare")
    mk("dup-tags", kind=1, created_at=T, tags=[["e", "a"], ["e", "a"], ["e", "a", "b"]], content="tt-dup")
    mk("escapes", kind=1, created_at=T, tags=[["t", 'q"\\/\b\f\n\r\t\x00\x1f\x7f']], content='q"\\/\b\f\n\r\t\x00\x1f\x7f ﻿')
    mk("long-tag", kind=1, created_at=T, tags=[["t", "v" * 2000]], content="tt-long")
    mk("many-items", kind=1, created_at=T, tags=[["t"] + ["i%d" % i for i in range(300)]], content="tt-many")
    # hex fields spelled in upper case: if such an event is admitted at all it must come back verbatim
    e = ref.make_event(key, kind=1, created_at=T, content="tt-upper-sig")
    cases.append(("hexcase=upper-sig", dict(e, sig=e["sig"].upper())))
    e = ref.make_event(key, kind=1, created_at=T, content="tt-upper-pubkey")
    e2 = dict(e, pubkey=e["pubkey"].upper())
    try:
        e2["id"] = subm.rapid_id(e2)
        e2["sig"] = key.sign(bytes.fromhex(e2["id"]))
        cases.append(("hexcase=upper-pubkey", e2))
        e3 = dict(e2, pubkey=e["pubkey"][:10].upper() + e["pubkey"][10:])
        e3["id"] = subm.rapid_id(e3)
        e3["sig"] = key.sign(bytes.fromhex(e3["id"]))
        cases.append(("hexcase=mixed-pubkey", e3))
    except Exception:
        pass
    # hex fields followed by a blank (bytes.fromhex skips it, a `$`-anchored pattern lets a line feed pass): if such
    # an event is admitted, its frames must still be JSON and its served copies verbatim
    for blank, bl in (("\n", "lf"), (" ", "space")):
        e = ref.make_event(key, kind=1, created_at=T, content="tt-blank-sig-" + bl)
        cases.append(("hexcase=sig+" + bl, dict(e, sig=e["sig"] + blank)))
        e2 = dict(ref.make_event(key, kind=1, created_at=T, content="tt-blank-pubkey-" + bl))
        e2["pubkey"] = e2["pubkey"] + blank
        try:
            e2["id"] = subm.rapid_id(e2)
            e2["sig"] = key.sign(bytes.fromhex(e2["id"]))
            cases.append(("hexcase=pubkey+" + bl, e2))
        except Exception:
            pass
    for name, ts in (("ts=1", 1), ("ts=2^31-1", 2 ** 31 - 1), ("ts=2^31", 2 ** 31), ("ts=2^32-1", 2 ** 32 - 1), ("ts=2^32", 2 ** 32), ("ts=2^63-1", 2 ** 63 - 1)):
        mk(name, kind=1, created_at=ts, content="tt-" + name)
    for name, k in (("kind=0", 0), ("kind=65535", 65535), ("kind=2^31-1", 2 ** 31 - 1), ("kind=2^32-1", 2 ** 32 - 1), ("kind=2^63-1", 2 ** 63 - 1)):
        mk(name, kind=k, created_at=T, content="tt-" + name)
    return cases


async def http_get(rig, event_id):
    """GET /e/<id> through ViewEventResource + falcon's response rendering"""
    import falcon
    import falcon.asgi
    from falcon import testing
    from nostr_relay import web

    res = web.ViewEventResource(rig.storage)
    req = testing.create_asgi_req(path="/e/" + event_id)
    resp = falcon.asgi.Response()
    try:
        await res.on_get(req, resp, event_id)
    except falcon.HTTPNotFound:
        return 404, None
    body = await resp.render_body()
    return 200, body


async def run_events(backend, cases, counters, mode):
    rig = R.Rig(backend=backend, config={"analysis_delay": 0, "max_limit": 100000})
    await rig.start()
    viols, nontrivial, samples = [], [], []
    served = counters.setdefault("served", {})
    try:
        watcher = rig.connect("watch")
        await watcher.cmd(["REQ", "w", {"since": 1}])
        await rig.quiesce()
        conn = rig.connect("sub")
        accepted = []
        for label, ev in cases:
            n0 = rig.rec.n
            await conn.cmd(json.dumps(["EVENT", ev], ensure_ascii=False))
            oks = R.ok_frames(conn, n0)
            ok = oks[-1][1][2] if oks else None
            counters["submitted"] = counters.get("submitted", 0) + 1
            replay = {"backend": backend, "mode": mode, "label": label, "event": ev}
            check_frames(conn, n0, None, counters, viols, replay, backend)
            if ok is True:
                accepted.append((label, ev))
        if mode == "tagtypes":
            # a storage engine fault during the insert: its (multi-line, quoted) message ends up
            # in the OK frame, which must still be JSON
            from .. import faults

            plan_ = faults.install_sql(rig.storage) if backend == "sql" else None
            if plan_ is not None:
                fkey = ref.key_from_seed("c04-fault")
                for k in (0, 1, 2, 3):
                    fev = ref.make_event(fkey, kind=30000 if k % 2 else 1, created_at=gen.T0 + k, tags=[["d", "f"], ["t", "x"]], content="fault %d" % k)
                    plan_.arm(k, "error")
                    n0 = rig.rec.n
                    await conn.cmd(json.dumps(["EVENT", fev]))
                    await rig.quiesce()
                    counters["injected_storage_faults"] = counters.get("injected_storage_faults", 0) + plan_.fired
                    plan_.disarm()
                    check_frames(conn, n0, None, counters, viols, {"backend": backend, "mode": mode, "label": "storage-fault-%d" % k, "event": fev}, backend)
                    nontrivial.append(h([backend, mode, "storage-fault", k]))
        await rig.quiesce()
        counters["accepted"] = counters.get("accepted", 0) + len(accepted)
        live = {}
        for n, text in watcher.frames:
            counters["frames_checked"] = counters.get("frames_checked", 0) + 1
            try:
                f = strict_loads(text)
            except Exception as e:
                viols.append({"key": "frame-not-json/live-event", "msg": "[%s] live frame is not valid JSON (%s): %r" % (backend, e, text[:300]),
                              "replay": {"backend": backend, "mode": mode, "frame": text[:2000]}})
                continue
            if isinstance(f, list) and len(f) == 3 and f[0] == "EVENT" and isinstance(f[2], dict):
                live[f[2].get("id")] = f[2]
        for label, ev in accepted:
            replay = {"backend": backend, "mode": mode, "label": label, "event": ev}
            nontrivial.append(h([backend, mode, label]))
            fam = label.split("=")[0] if "=" in label else ("unicode" if label.startswith(("U+", "tags U+")) else label)

            def compare(path, got):
                served[path] = served.get(path, 0) + 1
                if got is None:
                    return
                if not subm.deep_equal(got, ev):
                    diff = [k for k in ev if not subm.deep_equal(got.get(k), ev[k])] if isinstance(got, dict) else ["?"]
                    viols.append({"key": "not-verbatim/%s/%s" % (path, fam), "msg": "[%s] %s: event served via %s differs from what was accepted in %s: sent %s got %s"
                                  % (backend, label, path, diff, json.dumps({k: ev[k] for k in diff}, default=repr)[:200],
                                     json.dumps({k: got.get(k) for k in diff} if isinstance(got, dict) else got, default=repr)[:200]), "replay": replay})
                elif ref.authentic(got)[0] is False:
                    viols.append({"key": "served-unauthentic/%s/%s" % (path, fam), "msg": "[%s] %s served via %s no longer verifies: %s"
                                  % (backend, label, path, ref.authentic(got)[1]), "replay": replay})

            if ev["id"] in live:
                compare("live", live[ev["id"]])
            else:
                counters["accepted_not_pushed"] = counters.get("accepted_not_pushed", 0) + 1
            m0 = rig.rec.n
            ans = await qcore.run_req(rig, conn, [{"ids": [ev["id"]]}])
            check_frames(conn, m0, ans["sub_id"], counters, viols, replay, backend)
            if ans["events"]:
                compare("stored", ans["events"][0])
            else:
                counters["accepted_not_queryable"] = counters.get("accepted_not_queryable", 0) + 1
            try:
                status, body = await http_get(rig, ev["id"])
            except Exception as e:
                status, body = "exc", repr(e)
            if status == 200:
                try:
                    got = strict_loads(body.decode("utf-8") if isinstance(body, (bytes, bytearray)) else body)
                except Exception as e:
                    viols.append({"key": "http-not-json/" + fam, "msg": "[%s] %s: GET /e/<id> body is not valid JSON: %s %r" % (backend, label, e, body[:200]), "replay": replay})
                    got = None
                compare("http", got)
            else:
                counters["http_not_200"] = counters.get("http_not_200", 0) + 1
            if len(samples) < 2:
                samples.append({"backend": backend, "label": label, "id": ev["id"], "paths": {"live": ev["id"] in live, "stored": bool(ans["events"]), "http": status}})
    finally:
        await rig.close()
    return viols, nontrivial, samples


async def run_rate_limited(backend, counters):
    """frames the relay writes when it REFUSES a command for rate reasons (it has not looked at the
    command's content yet, so ids and subscription ids are whatever the client sent)"""
    class Frozen:
        def __call__(self):
            return 1000.0

    rig = R.Rig(backend=backend, config={"analysis_delay": 0, "rate_limits": {"ip": {"EVENT": "1/h", "REQ": "1/h", "CLOSE": "1/h", "AUTH": "1/h"}}})
    rig.load_config()
    from nostr_relay import rate_limiter  # only after the configuration (and the tree under test) are set up

    rate_limiter.perf_counter = Frozen()
    await rig.start()
    viols, nontrivial, samples = [], [], []
    try:
        lim = rate_limiter.get_rate_limiter(rig.Config)
        conn = rig.connect("rl", rate_limiter=lim)
        key = ref.key_from_seed("c04-rl")
        good = ref.make_event(key, kind=1, created_at=gen.T0, content="first")
        await conn.cmd(["EVENT", good])
        await conn.cmd(["REQ", "first", {"kinds": [1]}])
        await conn.cmd(["CLOSE", "first"])
        hostile = ['ab"cd', "x\\", 'x",true,"",false,"', "\n", "\x00", "\u2028", "é", "a" * 64 + '"', "", "\x7f", "\\u0041", '"]', "\t"]
        for hid in hostile + [5, None, {"a": 1}, [], True]:
            if conn.exited:
                conn = rig.connect("rl2", rate_limiter=lim)
                await conn.cmd(["EVENT", ref.make_event(key, kind=1, created_at=gen.T0 + 1, content="again %r" % (hid,))])
            ev = dict(good, id=hid)
            for msg in (["EVENT", ev], ["REQ", hid, {"kinds": [1]}], ["CLOSE", hid]):
                if conn.exited:
                    break
                n0 = rig.rec.n
                await conn.cmd(json.dumps(msg, ensure_ascii=False))
                await rig.quiesce()
                counters["rate_limited_commands"] = counters.get("rate_limited_commands", 0) + 1
                replay = {"backend": backend, "mode": "ratelimited", "frame": json.dumps(msg)}
                check_frames(conn, n0, None, counters, viols, replay, backend)
                nontrivial.append(h([backend, "ratelimited", msg[0], repr(hid)]))
                for n, text in conn.frames:
                    if n > n0:
                        try:
                            f = strict_loads(text)
                        except Exception:
                            continue
                        if isinstance(f, list) and f and f[0] == "OK" and isinstance(hid, str) and (len(f) != 4 or f[1] != hid or f[2] is not False):
                            viols.append({"key": "frame-shape/OK-rate-limited", "msg": "[%s] refusal of a rate-limited EVENT with id %r was written as %r" % (backend, hid, text[:200]), "replay": replay})
    finally:
        await rig.close()
    return viols, nontrivial, samples


def run_shard(spec):
    if spec.get("mode") == "e2e":
        from .. import e2e_cases

        return e2e_cases.run_e2e_shard(ID, spec)
    counters = {}
    backend, mode = spec["backend"], spec["mode"]
    key = ref.key_from_seed("c04")
    if mode == "ratelimited":
        viols, nontrivial, samples = R.run(run_rate_limited, backend, counters)
    elif mode.startswith("subids"):
        viols, nontrivial, samples = R.run(run_subids, backend, mode.endswith("auth"), counters)
    elif mode == "unicode":
        cases = unicode_events(key, spec["part"], spec["parts"], spec["stride"])
        counters["unicode_chunks"] = len(cases) // 2
        viols, nontrivial, samples = R.run(run_events, backend, cases, counters, mode)
        for s in samples:
            s.pop("event", None)
    else:
        viols, nontrivial, samples = R.run(run_events, backend, tagtype_events(key), counters, mode)
    seen, out = {}, []
    for v in viols:
        seen[v["key"]] = seen.get(v["key"], 0) + 1
        if seen[v["key"]] <= 2:
            out.append(v)
    counters["violations_by_key"] = seen
    cov = {"backends": {backend: 1}, "modes": {mode: 1}}
    if mode == "unicode":
        cov["unicode_scalar_values_covered"] = counters["unicode_chunks"] * 4000
    return {"evaluations": counters.get("frames_checked", 0), "nontrivial": sorted(set(nontrivial)), "counters": counters,
            "coverage": cov, "violations": out, "samples": samples[:2], "inconclusive": []}


def replay(rp, spec):
    if rp.get("mode") == "e2e":
        from .. import e2e_cases

        return e2e_cases.run_e2e_shard(ID, rp)
    counters = {}
    if rp["mode"] == "ratelimited":
        viols, nt, sm = R.run(run_rate_limited, rp["backend"], counters)
    elif rp["mode"].startswith("subids"):
        global subid_cases
        orig = subid_cases
        subid_cases = lambda: [rp["subid"]]  # noqa: E731
        try:
            viols, nt, sm = R.run(run_subids, rp["backend"], rp["mode"].endswith("auth"), counters)
        finally:
            subid_cases = orig
    else:
        viols, nt, sm = R.run(run_events, rp["backend"], [(rp["label"], rp["event"])], counters, rp["mode"])
    return {"evaluations": 1, "nontrivial": nt, "counters": counters, "violations": viols, "samples": [], "inconclusive": []}
