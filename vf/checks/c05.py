"""
C05 - a new event reaches exactly the matching open subscriptions, once each.

Interval logic over the boundary log (P-compositional: one small check per
(event, subscription generation)).  A command's interval is [relay read the frame, relay
asked for the next frame].  For an accepted event X and a generation S of a subscription:
definitely open during X  = S's REQ completed before X started and no CLOSE / replacement /
disconnect of S started before X completed; definitely not open = S's end completed before
X started.  Obligations: definitely open + MUST-match + still open at the next quiescence
point => at least one push in between; never more than one live push (+ one stored copy
while the stored query may still be running); no push after a definite close; no push of a
definitely non-matching event.  At the end every filter of every still open subscription is
queried again and compared with what it received live.
"""
import asyncio
import json
import random

from .. import rig as R, ref, gen, qcore
from ..orch import h
from .c02 import filter_features

ID = "C05"
TECHNIQUE = 'runtime monitoring - interval logic over the boundary log: per (event, subscription generation) obligations (must push / must not push / at most once) decided from command and frame positions under randomised schedules, send delays and validator-thread delays; live-vs-stored agreement re-queried at quiescence'
LEVEL = "exploration"
RULE = (
    "cases = (backend, 2-6 virtual connections x 1-3 subscriptions with filters from the dense C02 universe, a script "
    "of 20-70 REQ / same-id REQ / CLOSE / EVENT / disconnect actions, a seeded schedule: which connection's next frame "
    "is released, whether frames are queued back-to-back or only after the previous command completed, consumer latency "
    "per connection in {0, yield, 1-3 ms}, validator-thread start delay in {0, 1-3 ms}, occasional barriers). "
    "Non-trivial = an (event, subscription) pair with a deciding obligation: definitely open and MUST-matching, or "
    "definitely closed, or definitely non-matching while open. Distinct = distinct normalised boundary traces (sequence "
    "of (connection, event kind) with ids renamed) - reported as distinct schedules."
)
ASSUMPTIONS = [
    "only genuine suspension points are perturbed (frame delivery order, consumer latency, executor start latency); the loop's ready queue is never reordered",
    "regular kinds only (no replacement/deletion), so 'stored afterwards' is well defined; MAY matches (delegator, bound-equal timestamps) carry no obligation",
    "LMDB backend over /verif/shim; SQL = SQLite",
]
MIN_NONTRIVIAL = {"quick": 3000, "thorough": 30000}
REQUIRED_COUNTERS = ["pairs.definitely_open_must", "pairs.definitely_closed", "pairs.nonmatching", "agreement.compared", "cases_with_output_validator", "crowd_pairs"]
SHARD_TIMEOUT = {"quick": 600, "thorough": 3200}


def plan(tier, seed):
    n, cases = (8, 40) if tier == "quick" else (32, 120)
    return [{"backend": b, "case_seed": seed * 7919 + i, "cases": cases} for b in ("sql", "lmdb") for i in range(n)] + \
           [{"backend": b, "case_seed": seed * 7919 + j, "crowd": 900, "cases": 0} for b in ("sql", "lmdb") for j in range(1 if tier == "quick" else 4)] + \
           [{"backend": b, "case_seed": seed * 7919 + j, "backlog": True, "cases": 0} for b in ("sql", "lmdb") for j in range(1 if tier == "quick" else 3)]


class Cmd:
    __slots__ = ("conn", "kind", "msg", "start", "done", "event", "sub", "filters", "ok", "ok_n")

    def __init__(self, conn, kind, msg, event=None, sub=None, filters=None):
        self.conn, self.kind, self.msg = conn, kind, msg
        self.start = self.done = None
        self.event, self.sub, self.filters = event, sub, filters
        self.ok = None
        self.ok_n = None


def gen_case(r, u):
    nconn = r.randint(2, 6)
    pool = [u.event(kind=r.choice([1, 1, 7, 255, 40000]), delegated=(r.random() < 0.1)) for _ in range(8)]
    actions = []
    subs = {c: [] for c in range(nconn)}
    n = r.randint(20, 70)
    fresh = []
    for i in range(n):
        c = r.randrange(nconn)
        roll = r.random()
        if roll < 0.30:
            sub = r.choice(["a", "b", "c"])
            nf = r.choice([1, 1, 2])
            filters = [u.wellformed_filter(pool + fresh, max_conds=r.choice([1, 1, 2])) for _ in range(nf)]
            for f in filters:
                f.pop("limit", None)
                if r.random() < 0.1:
                    # hex in another spelling: live and stored matching must still agree
                    for k in ("authors", "ids"):
                        if k in f:
                            f[k] = [x.upper() if r.random() < 0.7 else x for x in f[k]]
            actions.append(("REQ", c, sub, filters))
            subs[c].append(sub)
        elif roll < 0.40 and subs[c]:
            actions.append(("CLOSE", c, r.choice(subs[c]), None))
        elif roll < 0.93:
            ev = u.event(kind=r.choice([1, 1, 7, 255, 40000]), delegated=(r.random() < 0.1))
            fresh.append(ev)
            actions.append(("EVENT", c, None, ev))
            if r.random() < 0.12 and nconn > 1:
                # the very same event from a second connection at (nearly) the same moment
                c2 = r.choice([x for x in range(nconn) if x != c])
                actions.append(("EVENT-DUP", c2, None, ev))
        elif roll < 0.96:
            actions.append(("BARRIER", None, None, None))
        else:
            actions.append(("DISC", c, None, None))
    return nconn, pool, actions


async def run_case(backend, seed, counters, coverage):
    r = random.Random(seed)
    u = gen.Universe(seed)
    nconn, pool, actions = gen_case(r, u)
    exec_delay = (lambda: r.choice([0, 0, 0.001, 0.003])) if r.random() < 0.5 else None
    cfg = {"analysis_delay": 0}
    if seed % 3 == 0:
        # an output validator is configured (it lets everything through): who receives what must not change
        cfg["output_validator"] = "vf.ov.check"
        counters["cases_with_output_validator"] = counters.get("cases_with_output_validator", 0) + 1
    rig = R.Rig(backend=backend, config=cfg, exec_delay=exec_delay)
    await rig.start()
    viols, nontrivial = [], []
    pairs = counters.setdefault("pairs", {})
    agree = counters.setdefault("agreement", {})

    def bump(d, k, n=1):
        d[k] = d.get(k, 0) + n

    try:
        loader = rig.connect("loader")
        for e in pool:
            await loader.cmd(["EVENT", e])
        await rig.quiesce()
        conns = []
        for c in range(nconn):
            mode = r.choice(["fast", "fast", "yield", "slow"])
            delay = None if mode == "fast" else ((lambda: 0) if mode == "yield" else (lambda: r.choice([0.001, 0.002, 0.003])))
            conns.append(rig.connect("k%d" % c, send_delay=delay))
        await rig.quiesce()
        cmds = {c: [] for c in range(nconn)}
        dead = set()
        eager = r.random() < 0.5
        qpoints = []
        dup_ids = set()
        for act in actions:
            kind, c, sub, payload = act
            if kind == "BARRIER":
                await rig.quiesce()
                qpoints.append(rig.rec.n)
                continue
            if c in dead:
                continue
            conn = conns[c]
            if conn.exited:
                dead.add(c)
                continue
            if kind == "DISC":
                conn.disconnect()
                cmds[c].append(Cmd(c, "DISC", None))
                dead.add(c)
                continue
            if kind == "REQ":
                msg = ["REQ", sub] + payload
                cmd = Cmd(c, "REQ", msg, sub=sub, filters=payload)
            elif kind == "CLOSE":
                msg = ["CLOSE", sub]
                cmd = Cmd(c, "CLOSE", msg, sub=sub)
            else:
                msg = ["EVENT", payload]
                cmd = Cmd(c, "EVENT", msg, event=payload)
            if kind == "EVENT-DUP":
                cmd.kind = "EVENT"
                dup_ids.add(payload["id"])
            elif eager or r.random() < 0.3:
                await conn.processed()
            conn.feed(msg)
            cmds[c].append(cmd)
            if r.random() < 0.3:
                await asyncio.sleep(0)
        await rig.quiesce()
        qpoints.append(rig.rec.n)
        Q = rig.rec.n
        # ---- reconstruct command intervals from the log ------------------------------------------
        per_conn_reads = {c: [] for c in range(nconn)}
        per_conn_calls = {c: [] for c in range(nconn)}
        exits = {}
        discs = {}
        name2c = {conns[c].name: c for c in range(nconn)}
        for n, cname, kind, data in rig.rec.events:
            c = name2c.get(cname)
            if c is None:
                continue
            if kind == "recv-ret":
                per_conn_reads[c].append(n)
            elif kind == "recv-call":
                per_conn_calls[c].append(n)
            elif kind == "handler-exit":
                exits[c] = n
            elif kind == "recv-disc":
                discs[c] = n
        for c in range(nconn):
            reads = per_conn_reads[c]
            calls = per_conn_calls[c]
            k = 0
            for cmd in cmds[c]:
                if cmd.kind == "DISC":
                    cmd.start = discs.get(c)
                    cmd.done = exits.get(c)
                    continue
                if k < len(reads):
                    cmd.start = reads[k]
                    later = [x for x in calls if x > reads[k]]
                    cmd.done = later[0] if later else exits.get(c)
                k += 1
        # frames per connection
        frames = {}
        for c in range(nconn):
            frames[c] = conns[c].parsed_frames()
        # OK frames -> accepted events
        accepted = []
        for c in range(nconn):
            for cmd in cmds[c]:
                if cmd.kind == "EVENT" and cmd.start is not None and cmd.done is not None:
                    for n, f in frames[c]:
                        if cmd.start < n <= cmd.done and isinstance(f, list) and f and f[0] == "OK":
                            cmd.ok, cmd.ok_n = f[2], n
                    if cmd.ok is True and cmd.event["id"] not in {x.event["id"] for x in accepted}:
                        accepted.append(cmd)
                    elif cmd.ok is True:
                        # both submissions of one event acknowledged: widen the event's interval
                        first = next(x for x in accepted if x.event["id"] == cmd.event["id"])
                        first.start, first.done = min(first.start, cmd.start), max(first.done, cmd.done)
        # subscription generations
        gens = []
        for c in range(nconn):
            cur = {}
            for cmd in cmds[c]:
                if cmd.start is None:
                    continue
                if cmd.kind == "REQ":
                    notice = any(cmd.start < n <= (cmd.done or Q) and isinstance(f, list) and f and f[0] == "NOTICE" for n, f in frames[c])
                    g = {"conn": c, "sub": cmd.sub, "filters": cmd.filters, "start": cmd.start, "done": cmd.done, "refused": notice,
                         "end_start": None, "end_done": None, "end": None}
                    prev = cur.get(cmd.sub)
                    if prev and prev["end_start"] is None:
                        prev["end_start"], prev["end_done"], prev["end"] = cmd.start, cmd.done, "replaced"
                    cur[cmd.sub] = g
                    if not notice:
                        gens.append(g)
                    else:
                        cur.pop(cmd.sub, None)
                elif cmd.kind == "CLOSE":
                    prev = cur.get(cmd.sub)
                    if prev and prev["end_start"] is None:
                        prev["end_start"], prev["end_done"], prev["end"] = cmd.start, cmd.done, "closed"
                elif cmd.kind == "DISC":
                    for g in cur.values():
                        if g["end_start"] is None:
                            g["end_start"], g["end_done"], g["end"] = cmd.start, cmd.done, "disconnected"
            if c in exits:
                for g in cur.values():
                    if g["end_start"] is None:
                        g["end_start"], g["end_done"], g["end"] = exits[c], exits[c], "disconnected"
        for g in gens:
            later = [x["start"] for x in gens if x["conn"] == g["conn"] and x["sub"] == g["sub"] and x["start"] > g["start"]]
            g["window_end"] = min(later) if later else Q + 1
            # the LAST EOSE of the window: on LMDB a query cancelled by this very REQ (it replaced a generation whose
            # stored query was still running) still queues its own EOSE, which then arrives BEFORE this generation's
            # stored results; taking the first one would make those results look like repeated live pushes
            eoses = [n for n, f in frames[g["conn"]] if g["start"] < n < g["window_end"] and isinstance(f, list) and len(f) > 1 and f[0] == "EOSE" and f[1] == g["sub"]]
            g["eose"] = eoses[-1] if eoses else None
            if len(eoses) > 1:
                counters["generations_with_stale_eose"] = counters.get("generations_with_stale_eose", 0) + 1
        rp = {"backend": backend, "seed": seed}
        # ---- per (event, generation) obligations ----------------------------------------------
        for X in accepted:
            ev = X.event
            for g in gens:
                if g["done"] is None:
                    continue
                verdicts = [ref.match3(ev, f) for f in g["filters"]]
                must = ref.MUST in verdicts
                no = all(v == ref.NO for v in verdicts)
                pushes = [n for n, f in frames[g["conn"]] if g["start"] < n < g["window_end"] and isinstance(f, list) and len(f) > 2
                          and f[0] == "EVENT" and f[1] == g["sub"] and isinstance(f[2], dict) and f[2].get("id") == ev["id"]]
                def_open = g["done"] < X.start and (g["end_start"] is None or g["end_start"] > X.done)
                def_closed = g["end_done"] is not None and g["end_done"] < X.start
                stays = g["end_start"] is None
                stored_possible = g["eose"] is None or g["eose"] > X.start
                mi = verdicts.index(ref.MUST) if must else 0
                feat = filter_features(g["filters"][mi]) if g["filters"] else "?"
                if must and any(k.startswith("#") and "" in v and any(t[0] == k[1] and len(t) > 1 and t[1] == "" for t in ev["tags"])
                                and not any(t[0] == k[1] and len(t) > 1 and t[1] in v and t[1] != "" for t in ev["tags"])
                                for k, v in g["filters"][mi].items() if isinstance(v, list)):
                    feat = "only-through-empty-tag-value"
                if no:
                    bump(pairs, "nonmatching")
                    if def_open:
                        nontrivial.append(h([backend, seed, ev["id"], g["conn"], g["sub"], g["start"], "no"]))
                    if pushes:
                        viols.append({"key": "%s/pushed-nonmatching/%s" % (backend, feat), "msg": "[%s] event kind %d tags %s pushed under %r although it matches none of %s"
                                      % (backend, ev["kind"], json.dumps(ev["tags"])[:80], g["sub"], json.dumps(g["filters"])[:200]), "replay": rp})
                    continue
                if def_closed:
                    bump(pairs, "definitely_closed")
                    nontrivial.append(h([backend, seed, ev["id"], g["conn"], g["sub"], g["start"], "closed"]))
                    late = [n for n in pushes if n > g["end_done"]]
                    if late:
                        viols.append({"key": "%s/pushed-to-%s" % (backend, g["end"]), "msg": "[%s] event accepted after subscription %r was %s (completed #%d, event started #%d) was still pushed at #%d"
                                      % (backend, g["sub"], g["end"], g["end_done"], X.start, late[0]), "replay": rp})
                    continue
                # one live push, plus - while the stored query may still be running - one stored copy
                # per filter of the REQ that the event may match (C02 allows 1..k copies there)
                limit = 1 + (sum(1 for v in verdicts if v != ref.NO) if stored_possible else 0)
                if len(pushes) > limit:
                    viols.append({"key": ("%s/pushed-%d-times/%s" % (backend, len(pushes), "stored-overlap" if stored_possible else "after-eose")) if ev["id"] not in dup_ids
                                  else "%s/duplicate-submission-pushed-twice" % backend,
                                  "msg": "[%s] event %s pushed %d times under %r (filters %s; EOSE at %s, event started #%d done #%d; frames at %s; generation start #%d done #%s end %s@%s window_end #%d; submitted %d time(s), dup=%s)"
                                         % (backend, ev["id"][:10], len(pushes), g["sub"], json.dumps(g["filters"])[:160], g["eose"], X.start, X.done, pushes, g["start"], g["done"],
                                            g["end"], g["end_start"], g["window_end"], sum(1 for cc in range(nconn) for cm in cmds[cc] if cm.kind == "EVENT" and cm.event["id"] == ev["id"]),
                                            ev["id"] in dup_ids), "replay": rp})
                    if ev["id"] not in dup_ids and not stored_possible:
                        # keep the whole boundary log of this connection for diagnosis
                        try:
                            import os as _os

                            dd = _os.path.join(_os.path.dirname(_os.path.dirname(_os.path.dirname(_os.path.abspath(__file__)))), "out", "diag")
                            _os.makedirs(dd, exist_ok=True)
                            cname = conns[g["conn"]].name
                            with open(_os.path.join(dd, "c05-%s-%d-%s.json" % (backend, seed, ev["id"][:8])), "w") as fp:
                                json.dump({"event": ev, "conn": cname, "gens": [x for x in gens if x["conn"] == g["conn"]],
                                           "cmds": [[cm.kind, cm.sub, cm.start, cm.done, (cm.event or {}).get("id"), cm.filters] for cm in cmds[g["conn"]]],
                                           "submissions": [[cc, cm.start, cm.done, cm.ok] for cc in range(nconn) for cm in cmds[cc] if cm.kind == "EVENT" and cm.event["id"] == ev["id"]],
                                           "log": [[n, cn, kd, (dt if not isinstance(dt, str) else dt[:300])] for n, cn, kd, dt in rig.rec.events if cn == cname or (isinstance(dt, str) and ev["id"] in dt)]},
                                          fp, default=repr, indent=0)
                        except Exception:
                            pass
                if def_open and must and stays:
                    bump(pairs, "definitely_open_must")
                    nontrivial.append(h([backend, seed, ev["id"], g["conn"], g["sub"], g["start"], "must"]))
                    if not pushes:
                        viols.append({"key": "%s/missed-push/%s" % (backend, feat), "msg": "[%s] event kind %d tags %s created_at %d accepted while subscription %r %s was definitely open, never pushed by quiescence"
                                      % (backend, ev["kind"], json.dumps(ev["tags"])[:80], ev["created_at"], g["sub"], json.dumps(g["filters"])[:200]), "replay": rp})
        # ---- live / stored agreement for subscriptions still open ---------------------------------
        probe = rig.connect("probe")
        acc_by_id = {X.event["id"]: X for X in accepted}
        for g in gens:
            if g["end_start"] is not None or g["done"] is None or conns[g["conn"]].exited:
                continue
            live = {f[2]["id"] for n, f in frames[g["conn"]] if g["eose"] is not None and n > g["eose"] and n < g["window_end"] and isinstance(f, list)
                    and len(f) > 2 and f[0] == "EVENT" and f[1] == g["sub"] and isinstance(f[2], dict)}
            ans = await qcore.run_req(rig, probe, g["filters"])
            stored_now = {e["id"] for e in ans["events"]}
            for eid, X in acc_by_id.items():
                if not (g["done"] < X.start):
                    continue
                ev = X.event
                vs = [ref.match3(ev, f) for f in g["filters"]]
                if 20000 <= ev["kind"] < 30000:
                    continue
                bound_equal = any(ev["created_at"] in (f.get("since"), f.get("until")) for f in g["filters"])
                if bound_equal:
                    continue
                bump(agree, "compared")
                in_live, in_stored = eid in live, eid in stored_now
                if in_live != in_stored and g["eose"] is not None and g["eose"] < X.start:
                    how = "delegator" if (ref.MUST not in vs and any(d in [a.lower() for a in sum((f.get("authors", []) for f in g["filters"]), [])] for d in ref.delegators(ev))) else \
                        ("empty-tag-value" if any(f.get(k) and "" in f[k] for f in g["filters"] for k in f if k.startswith("#")) else
                         ("since-0" if any(f.get("since") == 0 for f in g["filters"]) else "other"))
                    viols.append({"key": "%s/live-stored-disagree/%s/%s" % (backend, "live-only" if in_live else "stored-only", how),
                                  "msg": "[%s] event kind %d tags %s created_at %d: %s for filters %s"
                                         % (backend, ev["kind"], json.dumps(ev["tags"])[:100], ev["created_at"],
                                            "pushed live but not returned by the same filters afterwards" if in_live else "returned by the filters afterwards but was not pushed live",
                                            json.dumps(g["filters"])[:200]), "replay": rp})
        # distinct schedule signature
        sig = []
        names = {}
        for n, cname, kind, data in rig.rec.events:
            if cname in name2c and kind in ("recv-ret", "send-call", "recv-call", "handler-exit"):
                sig.append((name2c[cname], kind))
        coverage.setdefault("distinct_schedules", [])
        counters["_sigs"] = counters.get("_sigs", []) + [h(sig)]
        counters["accepted_events"] = counters.get("accepted_events", 0) + len(accepted)
        counters["generations"] = counters.get("generations", 0) + len(gens)
    finally:
        await rig.close()
    return viols, nontrivial


def run_shard(spec):
    counters, coverage = {}, {"backends": {spec["backend"]: 1}}
    viols, nontrivial = [], []
    if spec.get("backlog"):
        v, nt = R.run(run_backlog, spec["backend"], counters, spec["case_seed"])
        return {"evaluations": counters.get("backlog_pairs", 0), "nontrivial": sorted(set(nt)), "counters": counters, "coverage": coverage, "violations": v[:2], "samples": [], "inconclusive": []}
    if spec.get("crowd"):
        v, nt = R.run(run_crowd, spec["backend"], counters, spec["case_seed"], spec["crowd"])
        return {"evaluations": counters.get("crowd_pairs", 0), "nontrivial": sorted(set(nt)), "counters": counters, "coverage": coverage, "violations": v[:2], "samples": [], "inconclusive": []}
    for i in range(spec["cases"]):
        v, nt = R.run(run_case, spec["backend"], spec["case_seed"] * 1000 + i, counters, coverage)
        viols.extend(v)
        nontrivial.extend(nt)
    sigs = counters.pop("_sigs", [])
    coverage.pop("distinct_schedules", None)
    counters["distinct_boundary_traces"] = len(set(sigs))
    seen, out = {}, []
    for v in viols:
        seen[v["key"]] = seen.get(v["key"], 0) + 1
        if seen[v["key"]] <= 1:
            out.append(v)
    counters["violations_by_key"] = seen
    return {"evaluations": spec["cases"], "nontrivial": sorted(set(nontrivial)), "counters": counters, "coverage": coverage,
            "violations": out, "samples": [{"backend": spec["backend"], "seed": spec["case_seed"] * 1000, "accepted_events": counters.get("accepted_events"),
                                            "generations": counters.get("generations")}], "inconclusive": []}


async def run_crowd(backend, counters, seed, n=900):
    """hundreds of simultaneous connections from ONE remote address (a reverse proxy, a NAT): each holds the same
    subscription id; every one of them gets every matching event exactly once, also after half of them left"""
    rig = R.Rig(backend=backend, config={"analysis_delay": 0})
    await rig.start()
    viols, nontrivial = [], []
    try:
        conns = [rig.connect("crowd%d" % i, addr="10.9.9.9") for i in range(n)]
        for c in conns:
            c.feed(["REQ", "feed", {"kinds": [1], "since": gen.T0}])
        for c in conns:
            await c.processed(timeout=120)
        await rig.quiesce(timeout=180)
        pub = rig.connect("crowd-pub", addr="10.9.9.8")
        key = ref.key_from_seed("c05-crowd")
        rounds = []
        for rnd in range(2):
            ev = ref.make_event(key, kind=1, created_at=gen.T0 + 100 + rnd, content="crowd %d %d" % (seed, rnd))
            n0 = rig.rec.n
            await pub.cmd(["EVENT", ev])
            await rig.quiesce(timeout=180)
            alive = [c for c in conns if not c.exited]
            counts = [sum(1 for _, f in c.parsed_frames(n0) if isinstance(f, list) and len(f) > 2 and f[0] == "EVENT" and f[1] == "feed" and f[2].get("id") == ev["id"]) for c in alive]
            counters["crowd_pairs"] = counters.get("crowd_pairs", 0) + len(alive)
            missed, twice = sum(1 for x in counts if x == 0), sum(1 for x in counts if x > 1)
            nontrivial.append(h([backend, "crowd", n, rnd]))
            if missed or twice:
                viols.append({"key": "%s/crowd-one-address/%s/%s" % (backend, "missed" if missed else "duplicate", "first-event" if rnd == 0 else "after-half-left"),
                              "msg": "[%s] %d connections from one address hold subscription 'feed': event %d was missed by %d and pushed more than once to %d of them"
                                     % (backend, len(alive), rnd + 1, missed, twice), "replay": {"backend": backend, "crowd": n, "seed": seed}})
                break
            for c in conns[::2]:
                c.disconnect()
            for c in conns[::2]:
                await c.processed(timeout=120)
            await rig.quiesce(timeout=180)
    finally:
        await rig.close()
    return viols, nontrivial


async def run_backlog(backend, counters, seed):
    """a peer that reads slowly while several of its subscriptions are still being answered: more frames are waiting for it
    than max_limit; an event accepted meanwhile is owed to each of its matching open subscriptions once it reads on"""
    r = random.Random(seed)
    cap = 20
    rig = R.Rig(backend=backend, config={"analysis_delay": 0, "max_limit": cap})
    await rig.start()
    viols, nontrivial = [], []
    try:
        key = ref.key_from_seed("c05-backlog")
        pub = rig.connect("pub")
        for i in range(30):
            await pub.cmd(["EVENT", ref.make_event(key, kind=1, created_at=gen.T0 + i, content="stored %d %d" % (seed, i))])
        await rig.quiesce()
        slow = rig.connect("slow")
        slow.send_gate = asyncio.Event()  # clear: the peer does not read
        nreq = r.choice([3, 4, 5])
        for j in range(nreq):
            slow.feed(["REQ", "full%d" % j, {"kinds": [1]}])
        slow.feed(["REQ", "watch", {"kinds": [7]}])
        slow.feed(["REQ", "watch2", {"kinds": [7], "since": gen.T0}, {"kinds": [9]}])
        await slow.processed(timeout=60)
        control = rig.connect("control")
        await control.cmd(["REQ", "watch", {"kinds": [7]}])
        for _ in range(200):
            await asyncio.sleep(0.005)  # the stored queries of the slow peer fill its queue meanwhile
        n0 = rig.rec.n
        evs = [ref.make_event(key, kind=7, created_at=gen.T0 + 100 + i, content="live %d %d" % (seed, i)) for i in range(3)]
        for ev in evs:
            await pub.cmd(["EVENT", ev])
        for _ in range(100):
            await asyncio.sleep(0.005)
        slow.send_gate.set()  # the peer reads on
        await rig.quiesce(timeout=120)
        counters["backlog_runs"] = counters.get("backlog_runs", 0) + 1
        for ev in evs:
            for c, subs in ((slow, ("watch", "watch2")), (control, ("watch",))):
                for sid in subs:
                    got = sum(1 for _, f in c.parsed_frames(n0) if isinstance(f, list) and len(f) > 2 and f[0] == "EVENT" and f[1] == sid and f[2].get("id") == ev["id"])
                    counters["backlog_pairs"] = counters.get("backlog_pairs", 0) + 1
                    nontrivial.append(h([backend, "backlog", nreq, c.name, sid]))
                    if got != 1:
                        viols.append({"key": "%s/slow-reader-backlog/%s/%s" % (backend, "missed" if got == 0 else "duplicate", "slow-peer" if c is slow else "other-peer"),
                                      "msg": "[%s] max_limit %d, a peer with %d full answers pending did not read for a while; event %s accepted meanwhile was pushed %d times to its open matching subscription %r after it read on"
                                             % (backend, cap, nreq, ev["id"][:12], got, sid), "replay": {"backend": backend, "backlog": True, "seed": seed}})
    finally:
        await rig.close()
    return viols, nontrivial


async def run_directed(backend, d, counters):
    """explicit scenario: subscribe filters, publish one event from another connection, then
    re-query: live and stored delivery must agree (and a MUST match must be pushed)"""
    rig = R.Rig(backend=backend, config={"analysis_delay": 0})
    await rig.start()
    viols = []
    try:
        a, b = rig.connect("a"), rig.connect("b")
        await a.cmd(["REQ", "s"] + d["filters"])
        await rig.quiesce()
        n0 = rig.rec.n
        if d.get("duplicate"):
            b2 = rig.connect("b2")
            b.feed(["EVENT", d["event"]])
            b2.feed(["EVENT", d["event"]])
            await b.processed()
            await b2.processed()
            await rig.quiesce()
            n = sum(1 for _, f in a.parsed_frames(n0) if isinstance(f, list) and len(f) > 2 and f[0] == "EVENT" and f[2].get("id") == d["event"]["id"])
            if n > 1:
                viols.append({"key": "%s/duplicate-submission-pushed-twice" % backend, "msg": "[%s] directed: one event submitted by two connections was pushed %d times to one subscription" % (backend, n),
                              "replay": {"backend": backend, "directed": d}})
            return viols
        await b.cmd(["EVENT", d["event"]])
        await rig.quiesce()
        ev = d["event"]
        live = any(isinstance(f, list) and len(f) > 2 and f[0] == "EVENT" and f[2].get("id") == ev["id"] for n, f in a.parsed_frames(n0))
        ans = await qcore.run_req(rig, b, d["filters"])
        stored = any(e.get("id") == ev["id"] for e in ans["events"])
        vs = [ref.match3(ev, f) for f in d["filters"]]
        if live != stored:
            how = "delegator" if ref.MUST not in vs and ref.delegators(ev) else "other"
            viols.append({"key": "%s/live-stored-disagree/%s/%s" % (backend, "live-only" if live else "stored-only", how),
                          "msg": "[%s] directed: live=%s stored=%s for filters %s" % (backend, live, stored, json.dumps(d["filters"])[:200]),
                          "replay": {"backend": backend, "directed": d}})
        if ref.MUST in vs and not live:
            viols.append({"key": "%s/missed-push/directed" % backend, "msg": "[%s] directed: MUST-matching event not pushed" % backend, "replay": {"backend": backend, "directed": d}})
    finally:
        await rig.close()
    return viols


def replay(rp, spec):
    if rp.get("backlog"):
        counters = {}
        v, nt = R.run(run_backlog, rp["backend"], counters, rp.get("seed", 0))
        return {"evaluations": 1, "nontrivial": nt, "counters": counters, "violations": v, "samples": [], "inconclusive": []}
    if "crowd" in rp:
        counters = {}
        v, nt = R.run(run_crowd, rp["backend"], counters, rp["seed"], rp["crowd"])
        return {"evaluations": 1, "nontrivial": nt, "counters": counters, "violations": v, "samples": [], "inconclusive": []}
    if "directed" in rp:
        counters = {}
        v = R.run(run_directed, rp["backend"], rp["directed"], counters)
        return {"evaluations": 1, "nontrivial": [], "counters": counters, "violations": v, "samples": [], "inconclusive": []}
    counters, coverage = {}, {}
    v, nt = R.run(run_case, rp["backend"], rp["seed"], counters, coverage)
    counters.pop("_sigs", None)
    return {"evaluations": 1, "nontrivial": nt, "counters": counters, "violations": v, "samples": [], "inconclusive": []}
