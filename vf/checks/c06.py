"""
C06 - OK acknowledgements agree with what the relay actually did.

Transcript + store dump + watcher, judged after EVERY submission at quiescence (all
background writers idle): exactly one OK frame per EVENT message; OK=true => the event is
retrievable (dump, REQ by id) or ephemeral-and-broadcast or superseded by a stored newer
version of its address; an authentic event inside conservative ranges is refused only as
a duplicate; OK=false => no trace (no record, no index entry / tags row, no push);
resubmission of a stored event changes nothing and is not pushed again.
"""
import json
import random

from .. import rig as R, ref, gen, subm, dump, qcore, env
from ..orch import h

ID = "C06"
TECHNIQUE = 'runtime monitoring - per-submission oracle at quiescence: one OK per EVENT, OK=true implies retrievable (dump + REQ), OK=false implies no trace (records, index keys, tags rows, pushes); resubmissions, orderly restart right behind the acknowledgement; end-to-end shards on a real server process tree: one OK per EVENT on the wire; events acknowledged before SIGTERM (orderly gunicorn shutdown, also in the middle of a burst) are retrievable after the restart; an event stored through one worker process, removed through another (deletion / newer version) and offered to the first again is not refused as a duplicate'
LEVEL = "exploration"
RULE = (
    "cases = (backend, seeded sequence of 25-50 EVENT submissions mixing valid events of every kind class, exact "
    "resubmissions, newer/older/equal-timestamp versions of replaceable addresses, deletions (own, foreign, unknown, "
    "malformed e tags), unauthentic corruptions, tags of up to 2000 items and values up to 64 kB, created_at/kind in "
    "{-1,0,1,2^31-1,2^31,2^32-1,2^32,2^63-1,2^63}); plus bursts of 60-200 submissions followed at once by an orderly close "
    "and a re-open of the same store). Every step is judged with a fresh dump. Non-trivial = a step whose "
    "oracle clause carried an obligation (OK=true retrievability, OK=false no-trace with an id, must-accept, "
    "resubmission); distinct = distinct (backend, step class, canonical event shape)."
)
ASSUMPTIONS = [
    "end-to-end shards: a real gunicorn/uvicorn server process tree started from the tree under test (vf/e2e_launch.py: the repository's run_with_gunicorn / run_with_uvicorn; the SQL schema is made with the repository's metadata.create_all because its alembic env.py does not run with the installed SQLAlchemy; the notifier's fixed TCP port 6000 is replaced by a free port), spoken to over loopback TCP with the websockets client; real time, real sleeps",
    "LMDB is judged only after its writer thread is idle (enqueue/dequeue counters equal)",
    "must-accept is only demanded for authentic events with 1 <= created_at < 2^31 and 0 <= kind <= 65535, default validators, auth off",
    "LMDB backend over /verif/shim; SQL = SQLite",
]
MIN_NONTRIVIAL = {"quick": 150, "thorough": 400}
REQUIRED_COUNTERS = ["e2e.e2e_ok_frames_checked", "e2e.e2e_restart_lookups", "e2e.e2e_crossworker_resubmissions", "clause.ok_true_retrievable", "clause.ok_false_no_trace", "clause.must_accept", "clause.resubmission", "clause.one_ok", "clause.ok_true_retrievable_after_restart"]
SHARD_TIMEOUT = {"quick": 500, "thorough": 3000}
EXTREMES = [-1, 0, 1, 2 ** 31 - 1, 2 ** 31, 2 ** 32 - 1, 2 ** 32, 2 ** 63 - 1, 2 ** 63]


def plan(tier, seed):
    return _plan(tier, seed) + e2e_plan(tier, seed)


def e2e_plan(tier, seed):
    """shards on a REAL server process tree (vf/e2e.py)"""
    out = []
    for i in range(1 if tier == "quick" else 4):
        for b in ("sql", "lmdb"):
            out.append({"mode": "e2e", "e2e": "wire", "backend": b, "seed": seed * 7919 + 200 + i, "nevents": 50})
            out.append({"mode": "e2e", "e2e": "crossworker", "backend": b, "workers": 2 + i % 2, "seed": seed * 7919 + i})
            out.append({"mode": "e2e", "e2e": "restart", "backend": b, "seed": seed * 7919 + i, "nevents": 120 if tier == "quick" else 400, "during_burst": False})
            out.append({"mode": "e2e", "e2e": "restart", "backend": b, "seed": seed * 7919 + 50 + i, "nevents": 200 if tier == "quick" else 600, "during_burst": True})
    return out


def _plan(tier, seed):
    n, seqs = (6, 3) if tier == "quick" else (32, 30)
    out = [{"backend": b, "case_seed": seed * 7919 + i, "seqs": seqs} for b in ("sql", "lmdb") for i in range(n)]
    # systematic sweep of indexed tag value lengths around the LMDB key limit, for every indexed name
    for b in ("sql", "lmdb"):
        for name in ("t", "expiration", "delegation", "é"):
            out.append({"backend": b, "case_seed": seed, "sweep": name})
        out.append({"backend": b, "case_seed": seed * 7919, "restart": 2 if tier == "quick" else 24})
    return out


def sweep_sequence(name):
    key = ref.key_from_seed("c06-sweep")
    steps = []
    lengths = list(range(250, 262)) + list(range(440, 520)) + [1000]
    for i, n in enumerate(lengths):
        ev = ref.make_event(key, kind=1, created_at=gen.T0 + i, tags=[[name, "s" * n]], content=subm.token("sw"))
        steps.append({"cls": "big/key-limit-sweep/%s" % name, "raw": ev})
    return steps


async def run_restart(backend, counters, seed):
    """
    Acknowledged is acknowledged: a burst of submissions, an ORDERLY shutdown right behind the last OK frame
    (storage.close(), as the application's shutdown hook does), a new storage on the same files - every event
    that was answered OK=true is retrievable, by dump and by REQ.
    """
    import shutil

    r = random.Random(seed)
    scratch = env.scratch("vf-c06-restart-")
    viols, nontrivial = [], []
    clause = counters.setdefault("clause", {})
    key = ref.key_from_seed("c06-restart")
    acked = []
    try:
        rig = R.Rig(backend=backend, config={"analysis_delay": 0}, scratch_dir=scratch)
        await rig.start()
        try:
            conn = rig.connect("burst")
            n0 = rig.rec.n
            evs = []
            for i in range(r.choice([60, 120, 200])):
                tags = [["t", "w%d-%d" % (i, j)] for j in range(r.choice([0, 5, 40]))]
                evs.append(ref.make_event(key, kind=1, created_at=gen.T0 + i, tags=tags, content="restart %d %d" % (seed, i)))
            for e in evs:
                conn.feed(["EVENT", e])
            await conn.processed(timeout=120)
            oks = {f[1]: f[2] for _, f in R.ok_frames(conn, n0) if len(f) > 2}
            acked = [e for e in evs if oks.get(e["id"]) is True]
            counters["restart_backlog_at_close"] = counters.get("restart_backlog_at_close", 0) + (0 if rig.writer_idle() else 1)
        finally:
            await rig.close()
        rig2 = R.Rig(backend=backend, config={"analysis_delay": 0}, scratch_dir=scratch)
        await rig2.start(create_schema=False)
        try:
            stored = dump.stored_events(dump.dump(rig2))
            clause["ok_true_retrievable_after_restart"] = clause.get("ok_true_retrievable_after_restart", 0) + len(acked)
            counters["steps"] = counters.get("steps", 0) + len(acked)
            nontrivial.append(h([backend, "restart", seed, len(acked)]))
            lost = [e for e in acked if e["id"] not in stored]
            if lost:
                viols.append({"key": "%s/ok-true/lost/after-orderly-restart" % backend,
                              "msg": "[%s] %d of %d events acknowledged OK=true right before an orderly close are gone after re-opening the store (e.g. %s)"
                                     % (backend, len(lost), len(acked), lost[0]["id"][:12]), "replay": {"backend": backend, "mode": "restart", "seed": seed}})
            else:
                conn2 = rig2.connect("after")
                sample = r.sample(acked, min(5, len(acked)))
                ans = await qcore.run_req(rig2, conn2, [{"ids": [e["id"] for e in sample]}])
                if {e.get("id") for e in ans["events"]} != {e["id"] for e in sample}:
                    viols.append({"key": "%s/ok-true/not-served/after-orderly-restart" % backend, "msg": "[%s] events acknowledged before the restart are stored but not returned by REQ ids" % backend,
                                  "replay": {"backend": backend, "mode": "restart", "seed": seed}})
        finally:
            await rig2.close()
    finally:
        shutil.rmtree(scratch, ignore_errors=True)
    return viols, nontrivial


def resign(ev, key):
    ev = dict(ev)
    try:
        ev["id"] = ref.compute_id(ev["pubkey"], ev["created_at"], ev["kind"], ev["tags"], ev["content"])
        ev["sig"] = key.sign(bytes.fromhex(ev["id"]))
    except Exception:
        return None
    return ev


def gen_sequence(seed, n):
    r = random.Random(seed)
    seeds = subm.Seeds(seed)
    shapes = seeds.shapes()
    steps = []
    prior = []  # (raw, key)
    corr_cache = None
    for i in range(n):
        roll = r.random()
        key = r.choice(seeds.keys)
        if roll < 0.30 or not prior:
            sl, kw = r.choice(shapes)
            kw = dict(kw)
            kw["created_at"] = r.choice([gen.T0 - 50, gen.T0, gen.T0 + 7, 2 ** 31 - 1, 1, 1000])
            ev, key, tk = seeds.build(kw, key=key)
            steps.append({"cls": "valid/" + sl, "raw": ev})
            prior.append((ev, key))
        elif roll < 0.40:
            ev, k = r.choice(prior)
            steps.append({"cls": "resubmit", "raw": json.loads(json.dumps(ev))})
        elif roll < 0.45:
            # X, deletion of X, X again, the same deletion again: the duplicate must change nothing
            X = ref.make_event(key, kind=r.choice([1, 1, 7, 30000]), created_at=gen.T0 + 3, tags=[["d", "cyc"], ["t", "cyc"]], content=subm.token("cyc"))
            D = ref.make_event(key, kind=5, created_at=gen.T0 + 50, tags=[["e", X["id"]]], content=subm.token("cycdel"))
            for cls, e in (("valid/cycle-target", X), ("deletion/own/wellformed-e", D), ("resubmit", X), ("resubmit", D)):
                steps.append({"cls": cls, "raw": json.loads(json.dumps(e))})
            prior.append((X, key))
        elif roll < 0.57:
            base, k = r.choice(prior)
            kind = r.choice([0, 3, 10000, 19999, 30000, 39999])
            d = r.choice([None, [], [["d"]], [["d", ""]], [["d", "a"]], [["d", "ab"]], [["d", "a"], ["d", "b"]], [["e", "x"]]])
            tags = d if (d is not None and kind >= 30000) else []
            ev = ref.make_event(k, kind=kind, created_at=gen.T0 + r.choice([-5, 0, 0, 5, 10]), tags=tags, content=subm.token("rp"))
            steps.append({"cls": "replaceable/%d" % kind, "raw": ev})
            prior.append((ev, k))
        elif roll < 0.68:
            tgt, k = r.choice(prior)
            own = r.random() < 0.6
            dk = k if own else r.choice([x for x in seeds.keys if x is not k])
            etag = r.choice([["e", tgt["id"]], ["e", tgt["id"], "wss://x"], ["e"], ["e", "zz"], ["e", tgt["id"][:63]], ["e", tgt["id"].upper()],
                             ["e", ""], ["e", "00" * 32], ["e", tgt["id"] + "0"], ["e", tgt["id"][:63] + "\n"], ["e", tgt["id"] + "\n"], ["e", " " + tgt["id"][1:]],
                             ["e", tgt["id"][:63] + "\n"]])
            tags = [etag] + ([["e", r.choice(prior)[0]["id"]]] if r.random() < 0.4 else [])
            ev = ref.make_event(dk, kind=5, created_at=max(1, tgt["created_at"]) + r.choice([-1, 0, 1, 100]) if isinstance(tgt["created_at"], int) and 0 < tgt["created_at"] < 2 ** 31 - 200 else gen.T0,
                                tags=tags, content=subm.token("del"))
            steps.append({"cls": "deletion/%s/%s" % ("own" if own else "foreign", "wellformed-e" if etag[1:] and len(etag[1]) == 64 and etag[1] == etag[1].lower() else "malformed-e"), "raw": ev})
            prior.append((ev, dk))
        elif roll < 0.78:
            if not corr_cache:
                sl, kw = r.choice(shapes)
                corr_cache = [c for c in subm.corruptions(seeds, kw)]
                r.shuffle(corr_cache)
            label, raw, tk, cons = corr_cache.pop()
            steps.append({"cls": "corrupt/" + label.split(" ")[0], "raw": raw})
        elif roll < 0.90:
            which = r.choice(["many-tags", "long-value", "long-name", "huge-value", "long-d", "many-items", "long-content", "long-multibyte", "long-multibyte", "near-key-limit", "near-key-limit",
                              "odd-tag-values", "odd-tag-values"])
            if which == "odd-tag-values":
                # correctly signed, but the value of an indexable tag is not a string
                odd = r.choice([["x"], {"a": 1}, 5, 1.5, True, None, [["x"]], []])
                tags = [[r.choice(["t", "p", "e", "d"]), odd], ["t", "x"]]
            elif which == "many-tags":
                tags = [["t", "v%d" % j] for j in range(r.choice([100, 500, 2000]))]
            elif which == "long-value":
                tags = [["t", "x" * r.choice([400, 480, 500, 600, 1000])]]
            elif which == "long-multibyte":
                # few characters, many bytes (index keys are limited in BYTES)
                tags = [[r.choice(["t", "d", "expiration"]), r.choice(["€" * 200, "あ" * 256, "é" * 250, "\U0001f600" * 130, "é" * 128, "あ" * 85 + "x"])]]
            elif which == "near-key-limit":
                # byte lengths around what still fits an LMDB key, for short and long indexed tag names
                n = r.choice([255, 256, 257] + list(range(440, 481, 3)) + [500, 511, 512])
                tags = [[r.choice(["t", "é", "expiration", "delegation", "d"]), "k" * n]]
            elif which == "long-name":
                tags = [["n" * 600, "v"]]
            elif which == "huge-value":
                tags = [["t", "y" * 65536]]
            elif which == "long-d":
                tags = [["d", "z" * 700]]
            elif which == "many-items":
                tags = [["e"] + ["i"] * 500]
            else:
                tags = []
            kind = 30000 if which == "long-d" else 1
            ev = ref.make_event(key, kind=kind, created_at=gen.T0 + i, tags=tags, content=("c" * 100000 if which == "long-content" else subm.token("big")))
            steps.append({"cls": "big/" + which, "raw": ev})
            prior.append((ev, key))
        else:
            field = r.choice(["created_at", "kind"])
            val = r.choice(EXTREMES)
            ev = ref.make_event(key, kind=1, created_at=gen.T0, content=subm.token("ext"))
            ev[field] = val
            ev = resign(ev, key)
            if ev:
                steps.append({"cls": "extreme/%s=%s" % (field, {2 ** 31 - 1: "2^31-1", 2 ** 31: "2^31", 2 ** 32 - 1: "2^32-1", 2 ** 32: "2^32", 2 ** 63 - 1: "2^63-1", 2 ** 63: "2^63"}.get(val, val)), "raw": ev})
                prior.append((ev, key))
    # every sequence: correctly signed events whose indexable tag carries a container instead of a string
    for name, odd in ((r.choice(["t", "p"]), ["x", "wss://r"]), (r.choice(["e", "d"]), {"a": 1})):
        key = r.choice(seeds.keys)
        ev = ref.make_event(key, kind=1, created_at=gen.T0 + n + 1, tags=[[name, odd], ["t", "x"]], content=subm.token("odd"))
        steps.insert(r.randrange(len(steps) + 1), {"cls": "big/odd-tag-values", "raw": ev})
    return steps


def traces_of(backend, d, eid_hex):
    """places where an id leaves a trace in a dump"""
    out = []
    if not isinstance(eid_hex, str):
        return out
    try:
        eb = bytes.fromhex(eid_hex)
    except ValueError:
        return out
    if len(eb) != 32:
        return out
    if eid_hex.lower() in d["events"]:
        out.append("primary")
    if backend == "sql":
        if any(t[0] == eid_hex.lower() for t in d["tags"]):
            out.append("tags-row")
    else:
        for k in d["keys"]:
            if k[:1] != b"\x00" and k[-32:] == eb and len(k) > 33:
                out.append("index:%02x" % k[0])
                break
    return out


def conservative(ev):
    """well-formed by NIP-01 (tags = non-empty arrays of strings) and inside ranges every backend can represent"""
    return (isinstance(ev, dict) and type(ev.get("created_at")) is int and 1 <= ev["created_at"] < 2 ** 31
            and type(ev.get("kind")) is int and 0 <= ev["kind"] <= 65535
            and isinstance(ev.get("tags"), list)
            and all(isinstance(t, list) and t and all(isinstance(i, str) for i in t) for t in ev["tags"]))


async def run_sequence(backend, steps, counters, seq_seed):
    rig = R.Rig(backend=backend, config={"analysis_delay": 0})
    await rig.start()
    viols, nontrivial, samples = [], [], []
    clause = counters.setdefault("clause", {})

    def bump(c):
        clause[c] = clause.get(c, 0) + 1

    try:
        watcher = rig.connect("watch")
        await watcher.cmd(["REQ", "w", {"since": 1}, {"until": 2 ** 31 - 2}, {"kinds": list(range(0, 10)) + [20000, 29999]}])
        # subscriptions with tag conditions make live matching look INTO the tags of every accepted event
        await watcher.cmd(["REQ", "w2", {"#t": ["cyc", "x", ""]}, {"#p": ["a"], "kinds": [1]}, {"#e": ["zz"]}, {"#d": ["a", "ab"]}])
        await rig.quiesce()
        conn = rig.connect("sub")
        prev = dump.dump(rig)
        prev_canon = dump.canonical(rig, prev)
        history = []
        for si, st in enumerate(steps):
            raw = st["raw"]
            cls = st["cls"]
            rp = {"backend": backend, "steps": [s for s in steps[: si + 1]]}
            if conn.exited:
                conn = rig.connect()
            n0 = rig.rec.n
            w0 = len(watcher.frames)
            env.LOGTAP.take()
            await conn.cmd(["EVENT", raw])
            await rig.quiesce()
            logs = env.LOGTAP.take()
            oks = R.ok_frames(conn, n0)
            counters["submissions"] = counters.get("submissions", 0) + 1
            bump("one_ok")
            if len(oks) != 1:
                viols.append({"key": "ok-count/%d/%s" % (len(oks), cls.split("/")[0]), "msg": "[%s] %s: %d OK frames for one EVENT message" % (backend, cls, len(oks)), "replay": rp})
                continue
            okf = oks[0][1]
            ok, reason = okf[2], okf[3] if len(okf) > 3 else ""
            cur = dump.dump(rig)
            cur_canon = dump.canonical(rig, cur)
            pushed = []
            for n, text in watcher.frames[w0:]:
                try:
                    f = json.loads(text)
                    if f[0] == "EVENT":
                        pushed.append(f[2])
                except Exception:
                    pass
            rid = raw.get("id") if isinstance(raw, dict) else None
            verdict = ref.authentic(raw)[0] if isinstance(raw, dict) else False
            was_stored = isinstance(rid, str) and rid in prev["events"]
            exc = next((l["exc"] for l in logs if l.get("exc")), None)
            exc_s = ("%s in %s" % (exc["type"], exc["tb"][-1][1])) if exc else ""
            shape_key = cls
            if ok is True:
                bump("ok_true_retrievable")
                nontrivial.append(h([backend, "ok-true", shape_key]))
                retrievable = isinstance(rid, str) and rid in cur["events"]
                if retrievable:
                    ans = await qcore.run_req(rig, conn, [{"ids": [rid]}])
                    if not any(e.get("id") == rid for e in ans["events"]):
                        viols.append({"key": "ok-true/not-served-by-ids/" + cls.split("=")[0], "msg": "[%s] %s: stored but REQ ids does not return it" % (backend, cls), "replay": rp})
                else:
                    kc = ref.kind_class(raw["kind"]) if isinstance(raw.get("kind"), int) else "regular"
                    excused = None
                    if kc == "ephemeral":
                        if any(p.get("id") == rid for p in pushed) or not (1 <= raw["created_at"] < 2 ** 31 - 2):
                            excused = "ephemeral+broadcast"
                    addr = ref.address(raw) if isinstance(raw.get("kind"), int) and isinstance(raw.get("tags"), list) else None
                    if addr is not None:
                        for e in cur["events"].values():
                            try:
                                if ref.address(e) == addr and e["created_at"] >= raw["created_at"]:
                                    excused = "superseded"
                            except Exception:
                                pass
                    if was_stored:
                        excused = excused or None
                    if not excused:
                        viols.append({"key": "ok-true/lost/%s%s" % (cls.split("=")[0] if not cls.startswith("extreme") else cls, ("/" + exc_s) if exc_s else ""),
                                      "msg": "[%s] %s: OK=true but the event is not in the store at quiescence (%s) raw=%s"
                                             % (backend, cls, exc_s or "no logged exception", json.dumps(raw, default=repr)[:300]), "replay": rp})
            if verdict is True and conservative(raw) and not was_stored:
                bump("must_accept")
                nontrivial.append(h([backend, "must-accept", shape_key]))
            if ok is False:
                dup = isinstance(reason, str) and reason.startswith("duplicate:")
                if verdict is True and conservative(raw) and not was_stored:
                    if not dup:
                        viols.append({"key": "refused-valid/%s/%s" % (cls.split("=")[0], exc_s or reason.split(":")[0][:30]),
                                      "msg": "[%s] %s: authentic in-range event refused with %r (%s)" % (backend, cls, reason, exc_s), "replay": rp})
                    else:
                        viols.append({"key": "refused-valid/duplicate-but-not-stored/" + cls.split("=")[0],
                                      "msg": "[%s] %s: refused as duplicate although it was not stored before" % (backend, cls), "replay": rp})
                if isinstance(rid, str) and not was_stored:
                    bump("ok_false_no_trace")
                    nontrivial.append(h([backend, "ok-false", shape_key]))
                    tr = traces_of(backend, cur, rid)
                    if tr:
                        viols.append({"key": "ok-false/trace/%s/%s" % (tr[0].split(":")[0], cls.split("=")[0]), "msg": "[%s] %s: OK=false (%r) yet the id is present: %s" % (backend, cls, reason, tr), "replay": rp})
                    if any(p.get("id") == rid for p in pushed):
                        viols.append({"key": "ok-false/pushed/" + cls.split("=")[0], "msg": "[%s] %s: OK=false (%r) yet pushed to a subscriber" % (backend, cls, reason), "replay": rp})
                    if cur_canon != prev_canon:
                        viols.append({"key": "ok-false/store-changed/" + cls.split("=")[0], "msg": "[%s] %s: OK=false (%r) yet the store changed" % (backend, cls, reason), "replay": rp})
            if cls == "resubmit" or was_stored:
                bump("resubmission")
                nontrivial.append(h([backend, "resubmit", raw.get("kind") if isinstance(raw, dict) else None]))
                if was_stored:
                    if cur_canon != prev_canon:
                        viols.append({"key": "%s/resubmit/store-changed" % backend, "msg": "[%s] resubmitting stored event %s changed the store" % (backend, str(rid)[:12]), "replay": rp})
                    if any(p.get("id") == rid for p in pushed):
                        viols.append({"key": "%s/resubmit/pushed-again" % backend, "msg": "[%s] resubmitting stored event %s (kind %s) was pushed to subscribers again (OK=%s %r)"
                                      % (backend, str(rid)[:12], raw.get("kind"), ok, reason), "replay": rp})
            if len(samples) < 2 and si > 3:
                samples.append({"backend": backend, "class": cls, "ok": ok, "reason": reason, "stored_after": isinstance(rid, str) and rid in cur["events"]})
            prev, prev_canon = cur, cur_canon
    finally:
        await rig.close()
    return viols, nontrivial, samples


def run_shard(spec):
    if spec.get("mode") == "e2e":
        from .. import e2e_cases

        return e2e_cases.run_e2e_shard(ID, spec)
    counters = {}
    viols, nontrivial, samples = [], [], []
    r = random.Random(spec["case_seed"])
    classes = {}
    if spec.get("sweep"):
        steps = sweep_sequence(spec["sweep"])
        v, nt, sm = R.run(run_sequence, spec["backend"], steps, counters, 0)
        viols.extend(v)
        nontrivial.extend(h([spec["backend"], "sweep", spec["sweep"], i]) for i in range(len(steps)))
        classes["key-limit-sweep"] = len(steps)
    for j in range(spec.get("restart", 0)):
        v, nt = R.run(run_restart, spec["backend"], counters, spec["case_seed"] + j)
        viols.extend(v)
        nontrivial.extend(nt)
        classes["restart"] = classes.get("restart", 0) + 1
    for s in range(spec.get("seqs", 0)):
        seq_seed = spec["case_seed"] * 131 + s
        steps = gen_sequence(seq_seed, r.randint(25, 50))
        for st in steps:
            c = st["cls"].split("/")[0]
            classes[c] = classes.get(c, 0) + 1
        v, nt, sm = R.run(run_sequence, spec["backend"], steps, counters, seq_seed)
        viols.extend(v)
        nontrivial.extend(nt)
        samples.extend(sm)
    seen, out = {}, []
    for v in viols:
        seen[v["key"]] = seen.get(v["key"], 0) + 1
        if seen[v["key"]] <= 1:
            out.append(v)
    counters["violations_by_key"] = seen
    return {"evaluations": counters.get("submissions", 0) + counters.get("steps", 0), "nontrivial": sorted(set(nontrivial)), "counters": counters,
            "coverage": {"backends": {spec["backend"]: 1}, "step_classes": classes}, "violations": out, "samples": samples[:2], "inconclusive": []}


def replay(rp, spec):
    if rp.get("mode") == "e2e":
        from .. import e2e_cases

        return e2e_cases.run_e2e_shard(ID, rp)
    counters = {}
    if rp.get("mode") == "restart":
        v, nt = R.run(run_restart, rp["backend"], counters, rp["seed"])
        return {"evaluations": 1, "nontrivial": nt, "counters": counters, "violations": v, "samples": [], "inconclusive": []}
    v, nt, sm = R.run(run_sequence, rp["backend"], rp["steps"], counters, 0)
    return {"evaluations": len(rp["steps"]), "nontrivial": nt, "counters": counters, "violations": v, "samples": [], "inconclusive": []}
