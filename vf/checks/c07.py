"""
C07 - all effects of an event are applied atomically, even across crashes.

Fault enumeration: for every event i of a history and every storage mutation k inside its
application (each SQL statement incl. COMMIT; each LMDB put / delete incl. commit) a fresh
process replays history[:i], arms a failpoint at ordinal k and submits event i.
 * kill:  the process SIGKILLs itself at the failpoint; the parent reopens the database
          files and the full dump must equal the dump before event i or the dump after it;
 * error: the engine call raises; the dump right after must again be one of the two, the
          rest of the history is then submitted and the final dump must equal the clean
          run of the history without event i (or of the whole history).
Reference dumps come from fault-free runs of the same real code.
"""
import json
import os
import random
import subprocess
import sys
import shutil

from .. import rig as R, ref, gen, dump, faults, env
from ..orch import h

ID = "C07"
LEVEL = "fault_enumeration"
EXHAUSTIVE = {"quick": True, "thorough": True}
RULE = (
    "cases = (backend, history of 8-14 events built so that single events have many writes - replaceable and "
    "parameterized events superseding two older versions, deletions of several own events, events with 10+ indexable "
    "tags, plain notes -, event index i, mutation ordinal k, action in {error, kill}); ALL (i, k, action) of every "
    "generated history are enumerated (ordinals are learnt from a recording run). Non-trivial = a crash point at which "
    "the dumps before and after event i differ and the failpoint really fired (for kill: the child died with SIGKILL). "
    "Distinct = distinct (backend, history, i, k, action)."
)
ASSUMPTIONS = [
    "kill granularity is 'between engine API calls': a crash inside mdb_txn_commit / SQLite's commit is the engine's contract",
    "SQL = SQLite in WAL mode reopened with the sqlite3 module; LMDB = real liblmdb through /verif/shim, reopened read-only",
    "reference states are produced by the code under test itself in fault-free runs (atomicity, not functional correctness, is judged)",
]
MIN_NONTRIVIAL = {"quick": 150, "thorough": 1500}
REQUIRED_COUNTERS = ["points.error", "points.kill", "kills_observed", "errors_fired"]
SHARD_TIMEOUT = {"quick": 900, "thorough": 3400}


def plan(tier, seed):
    nh, parts = (1, 7) if tier == "quick" else (6, 8)
    out = []
    for b in ("sql", "lmdb"):
        for hi in range(nh):
            for p in range(parts):
                out.append({"backend": b, "history_seed": seed * 7919 + hi, "part": p, "parts": parts})
    return out


def gen_history(seed):
    r = random.Random(seed)
    keys = [ref.key_from_seed("c07-%d" % i) for i in range(2)]
    T = gen.T0
    k0, k1 = keys
    evs = []
    n = [0]

    def mk(key, kind, ts, tags=None):
        n[0] += 1
        return ref.make_event(key, kind=kind, created_at=ts, tags=tags or [], content="h%d" % n[0])

    rk = r.choice([10000, 10002, 19999])
    pk = r.choice([30000, 30023])
    evs += [mk(k0, 1, T + 1, [["t", "a"], ["e", "00" * 32]]), mk(k0, rk, T + 10), mk(k0, rk, T + 5), mk(k1, 1, T + 2)]
    evs += [mk(k0, pk, T + 10, [["d", "x"], ["t", "p"]]), mk(k0, pk, T + 5, [["d", "x"]]), mk(k0, pk, T + 7, [["d", "y"]])]
    evs.append(mk(k0, rk, T + 20, [["t", "new"]]))  # supersedes two older versions
    evs.append(mk(k0, pk, T + 20, [["d", "x"], ["p", k1.pk]]))  # supersedes two older d=x versions
    evs.append(mk(k1, 1, T + 3, [["t", "v%d" % i] for i in range(12)] + [["p", k0.pk], ["expiration", str(T + 10 ** 6)]]))
    evs.append(mk(k0, 5, T + 30, [["e", evs[0]["id"]], ["e", evs[7]["id"]], ["e", evs[3]["id"]]]))  # own x2 + foreign
    evs.append(mk(k0, 0, T + 4, [["t", "profile"]]))
    evs.append(mk(k0, 0, T + 9))
    if r.random() < 0.5:
        evs.append(mk(k1, 5, T + 40, [["e", evs[9]["id"]]]))
    tail = evs[4:]
    r.shuffle(tail)
    # keep the constructive prefix, shuffle a little of the rest without breaking 'older first' for the superseding ones
    return evs


async def _clean(backend, history, record):
    rig = R.Rig(backend=backend, config={"analysis_delay": 0})
    rig.load_config()
    if backend == "lmdb":
        plan_ = faults.install_lmdb()
    await rig.start()
    if backend == "sql":
        plan_ = faults.install_sql(rig.storage)
    plan_.reset()
    dumps, traces = [], []
    try:
        conn = rig.connect("c")
        dumps.append(dump.canonical(rig, dump.dump(rig)))
        for ev in history:
            if record:
                plan_.record_only()
            await conn.cmd(["EVENT", ev])
            await rig.quiesce()
            traces.append([t for t in plan_.trace if t[0] == 0])
            plan_.disarm()
            dumps.append(dump.canonical(rig, dump.dump(rig)))
    finally:
        await rig.close()
    return dumps, traces


def clean_run(backend, history, record=True):
    return R.run(_clean, backend, history, record)


def dump_files(backend, scratch):
    if backend == "sql":
        return dump.sql_canonical(dump.dump_sql(os.path.join(scratch, "nostr.sqlite3")))
    return dump.lmdb_canonical(dump.dump_lmdb(os.path.join(scratch, "lmdb")))


def spawn(spec):
    scratch = env.scratch("vf-crash-")
    spec = dict(spec, scratch=scratch)
    sp = os.path.join(scratch, "spec.json")
    with open(sp, "w") as fp:
        json.dump(spec, fp)
    e = dict(os.environ, PYTHONHASHSEED="0", PYTHONPATH=env.VERIF + os.pathsep + os.environ.get("PYTHONPATH", ""))
    try:
        p = subprocess.run([sys.executable, "-m", "vf.crashchild", sp], cwd=env.VERIF, env=e, stdout=subprocess.PIPE,
                           stderr=subprocess.PIPE, timeout=120)
        rc, out, err = p.returncode, p.stdout.decode("utf-8", "replace"), p.stderr.decode("utf-8", "replace")
    except subprocess.TimeoutExpired:
        rc, out, err = "timeout", "", "timeout"
    info = None
    for line in out.splitlines():
        if line.startswith("{"):
            try:
                info = json.loads(line)
            except Exception:
                pass
    try:
        state = dump_files(spec["backend"], scratch)
        state_err = None
    except Exception as ex:
        state, state_err = None, repr(ex)
    shutil.rmtree(scratch, ignore_errors=True)
    return rc, info, state, state_err, err[-500:]


def run_shard(spec):
    backend = spec["backend"]
    history = gen_history(spec["history_seed"])
    counters = {"points": {}}
    viols, nontrivial, inconclusive, samples = [], [], [], []
    dumps, traces = clean_run(backend, history)
    counters["history_events"] = len(history)
    counters["ordinals_total"] = sum(len(t) for t in traces)
    cov_ops = {}
    for i, ev in enumerate(history):
        if i % spec["parts"] != spec["part"]:
            continue
        pre, post = dumps[i], dumps[i + 1]
        without = None
        K = len(traces[i])
        if K == 0:
            inconclusive.append("no mutation ordinals recorded for event %d (kind %d)" % (i, ev["kind"]))
            continue
        for k in range(K):
            op = traces[i][k][2]
            cov_ops[op] = cov_ops.get(op, 0) + 1
            for action in ("error", "kill"):
                counters["points"][action] = counters["points"].get(action, 0) + 1
                base = {"backend": backend, "prefix": history[:i], "event": ev, "ordinal": k, "action": action,
                        "rest": history[i + 1:] if action == "error" else []}
                rc, info, state, state_err, err = spawn(base)
                rp = {"backend": backend, "history_seed": spec["history_seed"], "i": i, "k": k, "action": action}
                tag = "%s/%s/kind-%s/%s" % (backend, action, ref.kind_class(ev["kind"]) if ev["kind"] != 5 else "deletion", op)
                if state is None:
                    viols.append({"key": backend + "/unreadable-after-" + action, "msg": "store cannot be reopened after %s at event %d ordinal %d: %s" % (action, i, k, state_err), "replay": rp})
                    continue
                if action == "kill":
                    killed = rc == -9
                    if killed:
                        counters["kills_observed"] = counters.get("kills_observed", 0) + 1
                    elif rc != 0:
                        inconclusive.append("kill child rc=%s at (%d,%d): %s" % (rc, i, k, err[-200:]))
                        continue
                    if killed and pre != post:
                        nontrivial.append(h([backend, spec["history_seed"], i, k, action]))
                    if state not in (pre, post):
                        viols.append({"key": tag + "/torn-state", "msg": "[%s] after SIGKILL at mutation %d (%s) of event %d (kind %d) the reopened store is neither the state before nor after the event"
                                      % (backend, k, op, i, ev["kind"]), "replay": rp})
                else:
                    if rc != 0 or info is None:
                        inconclusive.append("error child rc=%s at (%d,%d): %s" % (rc, i, k, err[-200:]))
                        continue
                    if info.get("fired"):
                        counters["errors_fired"] = counters.get("errors_fired", 0) + 1
                        if pre != post:
                            nontrivial.append(h([backend, spec["history_seed"], i, k, action]))
                    if info.get("blocked"):
                        viols.append({"key": tag + "/later-events-blocked", "msg": "[%s] after an injected engine error at mutation %d (%s) of event %d later submissions do not complete: %s"
                                      % (backend, k, op, i, info["blocked"]), "replay": rp})
                        continue
                    if without is None:
                        without = clean_run(backend, history[:i] + history[i + 1:], record=False)[0][-1]
                    if state not in (without, dumps[-1]):
                        viols.append({"key": tag + "/later-events-not-applied-or-torn", "msg": "[%s] injected engine error at mutation %d (%s) of event %d (kind %d): the final store equals neither the clean run without that event nor the clean run of the whole history (OK frames %s)"
                                      % (backend, k, op, i, ev["kind"], info.get("oks")), "replay": rp})
                if len(samples) < 2:
                    samples.append({"backend": backend, "event_index": i, "kind": ev["kind"], "ordinal": k, "op": op, "action": action, "child_rc": rc,
                                    "state": "pre" if state == pre else ("post" if state == post else "other")})
    seen, out = {}, []
    for v in viols:
        seen[v["key"]] = seen.get(v["key"], 0) + 1
        if seen[v["key"]] <= 1:
            out.append(v)
    counters["violations_by_key"] = seen
    return {"evaluations": sum(counters["points"].values()), "nontrivial": sorted(set(nontrivial)), "counters": counters,
            "coverage": {"backends": {backend: 1}, "mutation_ops": cov_ops, "ordinals_per_event": {str(i): len(t) for i, t in enumerate(traces)} if spec["part"] == 0 else {}},
            "violations": out, "samples": samples, "inconclusive": inconclusive[:5]}


def replay(rp, spec):
    history = gen_history(rp["history_seed"])
    backend = rp["backend"]
    dumps, traces = clean_run(backend, history)
    i, k, action = rp["i"], rp["k"], rp["action"]
    ev = history[i]
    rc, info, state, state_err, err = spawn({"backend": backend, "prefix": history[:i], "event": ev, "ordinal": k, "action": action,
                                             "rest": history[i + 1:] if action == "error" else []})
    viols = []
    if action == "kill":
        if state not in (dumps[i], dumps[i + 1]):
            viols.append({"key": "replay/torn-state", "msg": "torn state reproduced (child rc %s)" % rc, "replay": rp})
    else:
        without = clean_run(backend, history[:i] + history[i + 1:], record=False)[0][-1]
        if (info or {}).get("blocked") or state not in (without, dumps[-1]):
            viols.append({"key": "replay/error-case", "msg": "error case reproduced: %s" % (info,), "replay": rp})
    return {"evaluations": 1, "nontrivial": [], "counters": {}, "violations": viols, "samples": [], "inconclusive": []}
