"""
C07 - all effects of an event are applied atomically, even across crashes.

Fault enumeration: for every event i of a history and every storage mutation k inside its
application (each SQL statement incl. COMMIT; each LMDB put / delete incl. commit) a fresh
process replays history[:i], arms a failpoint at ordinal k and submits event i.
 * kill:  the process SIGKILLs itself at the failpoint; the parent reopens the database
          files and the full dump must equal the dump before event i or the dump after it;
 * error: the engine call raises; the dump right after must again be one of the two, the
          rest of the history is then submitted and the final dump must equal the clean
          run of the history without event i (or of the whole history).
Reference dumps come from fault-free runs of the same real code.
"""
import json
import os
import random
import subprocess
import sys
import shutil

from .. import rig as R, ref, gen, dump, faults, env
from ..orch import h

ID = "C07"
TECHNIQUE = 'runtime monitoring - fault enumeration: every mutation ordinal of every event of a history gets an injected engine error and a SIGKILL in a child process; the re-opened store must equal a prefix-closed state (event fully applied or not at all) and later events must still apply; end-to-end shard: SIGKILL of the real servers whole process group from outside at a random instant of a burst, store files compared with the fault-free prefix states, restart on the same files and completion of the history'
LEVEL = "fault_enumeration"
EXHAUSTIVE = {"quick": True, "thorough": True}
RULE = (
    "cases = (backend, history of 8-14 events built so that single events have many writes - replaceable and "
    "parameterized events superseding two older versions, deletions of several own events, events with 10+ indexable "
    "tags, plain notes -, window = one event or two events submitted back-to-back without waiting for the writer, mutation "
    "ordinal k counted globally from the moment of arming across all transactions and connections, action in {error, "
    "kill}); ALL (window, k, action) of every generated history are enumerated (ordinals are learnt from a recording run "
    "of the same window), plus one run per history with six injected errors in ONE process. Non-trivial = a crash point "
    "whose failpoint really fired (for kill: the child died with SIGKILL) and for which more than one clean state is "
    "admissible. Distinct = distinct (backend, history, window, k, action)."
)
ASSUMPTIONS = [
    "end-to-end shards: a real gunicorn/uvicorn server process tree started from the tree under test (vf/e2e_launch.py: the repository's run_with_gunicorn / run_with_uvicorn; the SQL schema is made with the repository's metadata.create_all because its alembic env.py does not run with the installed SQLAlchemy; the notifier's fixed TCP port 6000 is replaced by a free port), spoken to over loopback TCP with the websockets client; real time, real sleeps",
    "kill granularity is 'between engine API calls': a crash inside mdb_txn_commit / SQLite's commit is the engine's contract",
    "SQL = SQLite in WAL mode reopened with the sqlite3 module; LMDB = real liblmdb through /verif/shim, reopened read-only",
    "reference states are produced by the code under test itself in fault-free runs (atomicity, not functional correctness, is judged)",
]
MIN_NONTRIVIAL = {"quick": 150, "thorough": 1500}
REQUIRED_COUNTERS = ["e2e.e2e_kills", "e2e.e2e_kill_states_matched", "e2e.e2e_recoveries", "points.error", "points.kill", "points.multi-error", "kills_observed", "errors_fired"]
SHARD_TIMEOUT = {"quick": 900, "thorough": 3400}


def plan(tier, seed):
    return _plan(tier, seed) + e2e_plan(tier, seed)


def e2e_plan(tier, seed):
    """shards on a REAL server process tree (vf/e2e.py)"""
    out = []
    for i in range(1 if tier == "quick" else 6):
        out += [{"mode": "e2e", "e2e": "kill", "backend": b, "seed": seed * 7919 + i, "trials": 4 if tier == "quick" else 10} for b in ("sql", "lmdb")]
    return out


def _plan(tier, seed):
    nh, parts, pairs_every = (1, 7, 4) if tier == "quick" else (6, 8, 1)
    out = []
    for b in ("sql", "lmdb"):
        for hi in range(nh):
            for p in range(parts):
                out.append({"backend": b, "history_seed": seed * 7919 + hi, "part": p, "parts": parts, "pairs_every": pairs_every})
            out.append({"backend": b, "history_seed": seed * 7919 + hi, "multi": True})
    return out


def gen_history(seed):
    r = random.Random(seed)
    keys = [ref.key_from_seed("c07-%d" % i) for i in range(2)]
    T = gen.T0
    k0, k1 = keys
    evs = []
    n = [0]

    def mk(key, kind, ts, tags=None):
        n[0] += 1
        return ref.make_event(key, kind=kind, created_at=ts, tags=tags or [], content="h%d" % n[0])

    rk = r.choice([10000, 10002, 19999])
    pk = r.choice([30000, 30023])
    evs += [mk(k0, 1, T + 1, [["t", "a"], ["e", "00" * 32]]), mk(k0, rk, T + 10), mk(k0, rk, T + 5), mk(k1, 1, T + 2)]
    evs += [mk(k0, pk, T + 10, [["d", "x"], ["t", "p"]]), mk(k0, pk, T + 5, [["d", "x"]]), mk(k0, pk, T + 7, [["d", "y"]])]
    evs.append(mk(k0, rk, T + 20, [["t", "new"]]))  # supersedes two older versions
    evs.append(mk(k0, pk, T + 20, [["d", "x"], ["p", k1.pk]]))  # supersedes two older d=x versions
    evs.append(mk(k1, 1, T + 3, [["t", "v%d" % i] for i in range(12)] + [["p", k0.pk], ["expiration", str(T + 10 ** 6)]]))
    evs.append(mk(k0, 5, T + 30, [["e", evs[0]["id"]], ["e", evs[7]["id"]], ["e", evs[3]["id"]]]))  # own x2 + foreign
    evs.append(mk(k0, 0, T + 4, [["t", "profile"]]))
    evs.append(mk(k0, 0, T + 9))
    if r.random() < 0.5:
        evs.append(mk(k1, 5, T + 40, [["e", evs[9]["id"]]]))
    tail = evs[4:]
    r.shuffle(tail)
    # keep the constructive prefix, shuffle a little of the rest without breaking 'older first' for the superseding ones
    return evs


async def _clean(backend, history, record):
    rig = R.Rig(backend=backend, config={"analysis_delay": 0})
    rig.load_config()
    if backend == "lmdb":
        plan_ = faults.install_lmdb()
    await rig.start()
    if backend == "sql":
        plan_ = faults.install_sql(rig.storage)
    plan_.reset()
    dumps, traces = [], []
    try:
        conn = rig.connect("c")
        dumps.append(dump.canonical(rig, dump.dump(rig)))
        for ev in history:
            if record:
                plan_.record_only()
            await conn.cmd(["EVENT", ev])
            await rig.quiesce()
            traces.append([t for t in plan_.trace if t[0] == 0])
            plan_.disarm()
            dumps.append(dump.canonical(rig, dump.dump(rig)))
    finally:
        await rig.close()
    return dumps, traces


def clean_run(backend, history, record=True):
    return R.run(_clean, backend, history, record)


def dump_files(backend, scratch):
    if backend == "sql":
        return dump.sql_canonical(dump.dump_sql(os.path.join(scratch, "nostr.sqlite3")))
    return dump.lmdb_canonical(dump.dump_lmdb(os.path.join(scratch, "lmdb")))


def spawn(spec):
    scratch = env.scratch("vf-crash-")
    spec = dict(spec, scratch=scratch)
    sp = os.path.join(scratch, "spec.json")
    with open(sp, "w") as fp:
        json.dump(spec, fp)
    e = dict(os.environ, PYTHONHASHSEED="0", PYTHONPATH=env.VERIF + os.pathsep + os.environ.get("PYTHONPATH", ""))
    try:
        p = subprocess.run([sys.executable, "-m", "vf.crashchild", sp], cwd=env.VERIF, env=e, stdout=subprocess.PIPE,
                           stderr=subprocess.PIPE, timeout=120)
        rc, out, err = p.returncode, p.stdout.decode("utf-8", "replace"), p.stderr.decode("utf-8", "replace")
    except subprocess.TimeoutExpired:
        rc, out, err = "timeout", "", "timeout"
    info = None
    for line in out.splitlines():
        if line.startswith("{"):
            try:
                info = json.loads(line)
            except Exception:
                pass
    try:
        state = dump_files(spec["backend"], scratch)
        state_err = None
    except Exception as ex:
        state, state_err = None, repr(ex)
    shutil.rmtree(scratch, ignore_errors=True)
    return rc, info, state, state_err, err[-500:]


def windows_of(n, part, parts, pairs_every):
    """(a, b) index ranges [a..b] submitted back-to-back after arming: every single event
    and - for every pairs_every-th position - the pair (i-1, i)"""
    out = []
    for i in range(n):
        if i % parts == part:
            out.append((i, i))
            if i >= 1 and i % pairs_every == 0:
                out.append((i - 1, i))
    return out


def run_shard(spec):
    if spec.get("mode") == "e2e":
        from .. import e2e_cases

        return e2e_cases.run_e2e_shard(ID, spec)
    backend = spec["backend"]
    history = gen_history(spec["history_seed"])
    counters = {"points": {}}
    viols, nontrivial, inconclusive, samples = [], [], [], []
    dumps, _ = clean_run(backend, history, record=False)
    counters["history_events"] = len(history)
    cov_ops = {}
    without = {}

    def without_state(x):
        if x not in without:
            without[x] = clean_run(backend, history[:x] + history[x + 1:], record=False)[0][-1]
        return without[x]

    if spec.get("multi"):
        # several injected errors in ONE process, then the rest of the history
        r = random.Random(spec["history_seed"] + 17)
        idx = sorted(r.sample(range(1, len(history)), min(6, len(history) - 1)))
        multi = [[i, r.choice([0, 1, 2])] for i in idx]
        rc, info, state, state_err, err = spawn({"backend": backend, "prefix": [], "event": None, "rest": history, "multi": multi, "ordinal": 0, "action": "error"})
        counters["points"]["multi-error"] = len(multi)
        rp = {"backend": backend, "history_seed": spec["history_seed"], "multi": multi}
        if rc != 0 or info is None or state is None:
            inconclusive.append("multi-fault child rc=%s: %s %s" % (rc, state_err, err[-200:]))
        else:
            fired = [i for i, f in info.get("fired_list", []) if f]
            counters["errors_fired"] = counters.get("errors_fired", 0) + len(fired)
            if info.get("blocked"):
                viols.append({"key": "%s/multi-error/later-events-blocked" % backend, "msg": "[%s] after %d injected engine errors in one process later submissions do not complete: %s"
                              % (backend, len(fired), info["blocked"]), "replay": rp})
            else:
                expect = clean_run(backend, [e for k, e in enumerate(history) if k not in fired], record=False)[0][-1]
                nontrivial.append(h([backend, spec["history_seed"], "multi", multi]))
                if state != expect:
                    viols.append({"key": "%s/multi-error/later-events-not-applied-or-torn" % backend, "msg": "[%s] after injected engine errors at events %s the final store differs from the clean run without those events"
                                  % (backend, fired), "replay": rp})
        counters["violations_by_key"] = {v["key"]: 1 for v in viols}
        return {"evaluations": len(multi), "nontrivial": nontrivial, "counters": counters, "coverage": {"backends": {backend: 1}, "modes": {"multi-error": 1}},
                "violations": viols, "samples": [{"backend": backend, "multi": multi, "fired": info.get("fired_list") if info else None}], "inconclusive": inconclusive}

    for a, b in windows_of(len(history), spec["part"], spec["parts"], spec.get("pairs_every", 3)):
        evs = history[a:b + 1]
        base = {"backend": backend, "prefix": history[:a], "event": evs[0], "events": evs}
        rc, info, _, _, err = spawn(dict(base, record=True, ordinal=0, action="error", rest=[]))
        if rc != 0 or not info or not info.get("trace"):
            inconclusive.append("recording run of window (%d,%d) failed rc=%s: %s" % (a, b, rc, err[-200:]))
            continue
        trace = info["trace"]
        K = len(trace)
        allowed_kill = set(dumps[a:b + 2])
        for k in range(K):
            op = trace[k][2]
            cov_ops[op] = cov_ops.get(op, 0) + 1
            for action in ("error", "kill"):
                counters["points"][action] = counters["points"].get(action, 0) + 1
                rc, info, state, state_err, err = spawn(dict(base, ordinal=k, action=action, rest=history[b + 1:] if action == "error" else []))
                rp = {"backend": backend, "history_seed": spec["history_seed"], "window": [a, b], "k": k, "action": action}
                ev = evs[-1]
                tag = "%s/%s/%s/kind-%s/%s" % (backend, action, "single" if a == b else "burst-of-2", ref.kind_class(ev["kind"]) if ev["kind"] != 5 else "deletion", op)
                if state is None:
                    viols.append({"key": backend + "/unreadable-after-" + action, "msg": "store cannot be reopened after %s at window (%d,%d) ordinal %d: %s" % (action, a, b, k, state_err), "replay": rp})
                    continue
                if action == "kill":
                    killed = rc == -9
                    if killed:
                        counters["kills_observed"] = counters.get("kills_observed", 0) + 1
                    elif rc != 0:
                        inconclusive.append("kill child rc=%s at (%d,%d,%d): %s" % (rc, a, b, k, err[-200:]))
                        continue
                    else:
                        counters["kill_points_not_reached"] = counters.get("kill_points_not_reached", 0) + 1
                    if killed and len(allowed_kill) > 1:
                        nontrivial.append(h([backend, spec["history_seed"], a, b, k, action]))
                    if state not in allowed_kill:
                        viols.append({"key": tag + "/torn-state", "msg": "[%s] after SIGKILL at mutation %d (%s) of events %d..%d (last kind %d) the reopened store equals none of the states between them"
                                      % (backend, k, op, a, b, ev["kind"]), "replay": rp})
                else:
                    if rc != 0 or info is None:
                        inconclusive.append("error child rc=%s at (%d,%d,%d): %s" % (rc, a, b, k, err[-200:]))
                        continue
                    if info.get("fired"):
                        counters["errors_fired"] = counters.get("errors_fired", 0) + 1
                        nontrivial.append(h([backend, spec["history_seed"], a, b, k, action]))
                    else:
                        counters["error_points_not_reached"] = counters.get("error_points_not_reached", 0) + 1
                    if info.get("blocked"):
                        viols.append({"key": tag + "/later-events-blocked", "msg": "[%s] after an injected engine error at mutation %d (%s) of events %d..%d later submissions do not complete: %s"
                                      % (backend, k, op, a, b, info["blocked"]), "replay": rp})
                        continue
                    allowed = {dumps[-1]} | {without_state(x) for x in range(a, b + 1)}
                    if state not in allowed:
                        viols.append({"key": tag + "/later-events-not-applied-or-torn", "msg": "[%s] injected engine error at mutation %d (%s) of events %d..%d (last kind %d): the final store equals neither the clean run of the whole history nor the clean run without one of those events (OK frames %s)"
                                      % (backend, k, op, a, b, ev["kind"], info.get("oks")), "replay": rp})
                if len(samples) < 2:
                    samples.append({"backend": backend, "window": [a, b], "kinds": [e["kind"] for e in evs], "ordinal": k, "op": op, "action": action, "child_rc": rc,
                                    "ordinals_in_window": K})
    seen, out = {}, []
    for v in viols:
        seen[v["key"]] = seen.get(v["key"], 0) + 1
        if seen[v["key"]] <= 1:
            out.append(v)
    counters["violations_by_key"] = seen
    return {"evaluations": sum(counters["points"].values()), "nontrivial": sorted(set(nontrivial)), "counters": counters,
            "coverage": {"backends": {backend: 1}, "mutation_ops": cov_ops}, "violations": out, "samples": samples, "inconclusive": inconclusive[:5]}


def replay(rp, spec):
    if rp.get("mode") == "e2e":
        from .. import e2e_cases

        return e2e_cases.run_e2e_shard(ID, rp)
    backend = rp["backend"]
    if rp.get("multi"):
        res = run_shard({"backend": backend, "history_seed": rp["history_seed"], "multi": True})
        return res
    a, b = rp["window"]
    n = len(gen_history(rp["history_seed"]))
    # re-run exactly that window (all its ordinals) through the normal path
    res = run_shard({"backend": backend, "history_seed": rp["history_seed"], "part": b, "parts": n, "pairs_every": 1 if a != b else 10 ** 6})
    return res
