"""
C08 - only an event's author can delete it (NIP-09).

Frame condition over consecutive store dumps around every accepted kind-5 event D: an
event that vanished must be referenced by D and carry D's pubkey (or be explained by the
address model when D's step is also a replacement - it never is: kind 5 is regular);
every referenced event of D's author that is older than D must be gone from the dump, from
REQ by ids and from GET /e/<id>.  Non-deletion steps of the history must not remove any
regular event either.
"""
import json
import random

from .. import rig as R, ref, gen, dump, hist, qcore
from ..orch import h
from .c04 import http_get

ID = "C08"
TECHNIQUE = 'runtime monitoring - frame condition over consecutive store dumps around every kind-5 event (nothing but referenced own older events vanishes; those are gone from dump, REQ and GET /e/<id>); back-to-back bursts, orderly restart, two workers on one database; end-to-end shard: a deletion accepted by one worker process, read back by REQ on every worker and by real HTTP GET /e/<id> (spread over the workers), after every worker had served the targets before'
LEVEL = "exploration"
RULE = (
    "cases = (backend, seeded history of 12-40 events of 3 authors mixing regular / replaceable targets with deletion "
    "events referencing own, foreign, unknown, malformed ([\"e\"], non-hex, 63 chars, upper-case, 65 chars), duplicate "
    "and many ids, e tags with extra items, p tags naming the victim, deletions of deletions; all arrival orders of "
    "(target, deletion) incl. deletion first and equal timestamps; GET /e/<id> of some targets before their deletion and "
    "REQ+GET of every removed event right after it) plus bursts: targets, a foreign event and the author's deletion "
    "acknowledged back to back without a pause (same / other connection, amid load, LMDB write lock held elsewhere); a "
    "deletion acknowledged right before an orderly close, judged after the re-open; two workers (storages) on one SQLite file, "
    "the deletion accepted by one, the event looked at by the other before. Non-trivial = an accepted deletion that references "
    "at least one stored event (own or foreign). Distinct = distinct (backend, canonical history)."
)
ASSUMPTIONS = [
    "end-to-end shards: a real gunicorn/uvicorn server process tree started from the tree under test (vf/e2e_launch.py: the repository's run_with_gunicorn / run_with_uvicorn; the SQL schema is made with the repository's metadata.create_all because its alembic env.py does not run with the installed SQLAlchemy; the notifier's fixed TCP port 6000 is replaced by a free port), spoken to over loopback TCP with the websockets client; real time, real sleeps",
    "a deletion needs to remove only referenced events of its author that are OLDER than itself; equal/newer ones are free",
    "LMDB backend over /verif/shim (judged after writer idle); SQL = SQLite",
]
MIN_NONTRIVIAL = {"quick": 200, "thorough": 2000}
REQUIRED_COUNTERS = ["e2e.e2e_worker_readbacks", "e2e.e2e_http_readbacks", "clause.frame", "clause.must_remove", "clause.burst_must_remove", "clause.restart_must_remove", "two_worker_deletions", "served_checks", "served_checks_seen_before", "gets_before"]
SHARD_TIMEOUT = {"quick": 500, "thorough": 3000}


def plan(tier, seed):
    return _plan(tier, seed) + e2e_plan(tier, seed)


def e2e_plan(tier, seed):
    """shards on a REAL server process tree (vf/e2e.py)"""
    out = [{"mode": "e2e", "e2e": "c08", "backend": b, "workers": 2, "seed": seed} for b in ("sql", "lmdb")]
    if tier == "thorough":
        out += [{"mode": "e2e", "e2e": "c08", "backend": b, "workers": 3, "seed": seed + 1} for b in ("sql", "lmdb")]
    return out


def _plan(tier, seed):
    n, hs = (6, 12) if tier == "quick" else (48, 100)
    return [{"backend": b, "case_seed": seed * 7919 + i, "histories": hs, "bursts": 12 if tier == "quick" else 100} for b in ("sql", "lmdb") for i in range(n)]


def gen_history(r):
    keys = [ref.key_from_seed("c08-%d" % i) for i in range(3)]
    evs = []
    targets = []
    n = r.randint(12, 40)
    pending_first = []  # deletions issued before their target exists
    for i in range(n):
        roll = r.random()
        if roll < 0.5 or not targets:
            k = r.choice(keys)
            kind = r.choice([1, 1, 1, 7, 4, 10000, 30000, 0, 5 if targets else 1])
            tags = [["d", "x"]] if kind == 30000 else []
            if kind == 5:
                tags = [["e", r.choice(targets)["id"]]]
                k = keys[0]
            ts = gen.T0 + r.choice([0, 1, 5, 10, 10, 20])
            deleg = None
            if kind != 5 and r.random() < 0.2:
                # signed by k on behalf of ANOTHER key (NIP-26): it is still k's event, only k may delete it
                dk = r.choice([x for x in keys if x.pk != k.pk])
                deleg = (dk, "kind=%d" % kind)
            e = ref.make_event(k, kind=kind, created_at=ts, tags=tags, content="t%d" % i, delegation=deleg)
            evs.append(e)
            if kind != 5:
                targets.append(e)
        else:
            k = r.choice(keys)
            tags = []
            for _ in range(r.choice([1, 1, 1, 2, 3, 8])):
                t = r.choice(targets)
                form = r.random()
                if form < 0.55:
                    tags.append(["e", t["id"]])
                elif form < 0.62:
                    tags.append(["e", t["id"], "wss://relay", "mention"])
                elif form < 0.68:
                    tags.append(["e", t["id"].upper()])
                elif form < 0.73:
                    tags.append(["e", t["id"][:63]])
                elif form < 0.78:
                    tags.append(["e", t["id"] + "0"])
                elif form < 0.83:
                    tags.append(["e"])
                elif form < 0.88:
                    tags.append(["e", "zz" + t["id"][2:]])
                elif form < 0.93:
                    tags.append(["e", ref.compute_id("00" * 32, 1, 1, [], "unknown%d" % i)])
                else:
                    tags.append(["p", t["pubkey"]])
                    tags.append(["a", "%d:%s:x" % (t["kind"], t["pubkey"])])
            if r.random() < 0.04:
                # a client that deletes its whole history in one go: thousands of references, most of them unknown here
                filler = [["e", ref.compute_id("00" * 32, 1, 1, [], "bulk%d-%d" % (i, j))] for j in range(r.choice([2001, 2100, 2500]))]
                at = r.randrange(len(filler))
                tags = filler[:at] + tags + filler[at:]
            ts = gen.T0 + r.choice([0, 1, 5, 10, 10, 20, 30])
            d = ref.make_event(k, kind=5, created_at=ts, tags=tags, content="del%d" % i)
            evs.append(d)
            if r.random() < 0.3:
                targets.append(d)
    # arrival order: mostly as generated, sometimes a deletion is moved before its targets
    if r.random() < 0.4:
        idx = [i for i, e in enumerate(evs) if e["kind"] == 5]
        if idx:
            i = r.choice(idx)
            d = evs.pop(i)
            evs.insert(r.randrange(0, i + 1), d)
    # some events are looked at through GET /e/<id> (and by REQ) before anything deletes them
    out = []
    for e in evs:
        out.append(e)
        if e["kind"] != 5 and r.random() < 0.35:
            out.append({"get": e["id"]})
    return out


def wellformed_refs(D):
    out = set()
    for t in D["tags"]:
        if t[0] == "e" and len(t) > 1 and isinstance(t[1], str) and len(t[1]) == 64 and all(c in "0123456789abcdef" for c in t[1]):
            out.add(t[1])
    return out


def lenient_refs(D):
    """ids a lenient reader could take an e tag for (case-insensitive, truncated)"""
    out = set()
    for t in D["tags"]:
        if t[0] == "e" and len(t) > 1 and isinstance(t[1], str):
            out.add(t[1].lower()[:64])
    return out


async def run_history(backend, history, counters):
    rig = R.Rig(backend=backend, config={"analysis_delay": 0})
    await rig.start()
    viols, nontrivial = [], []
    clause = counters.setdefault("clause", {})
    to_probe, probe_now, seen_by_get = [], [], set()
    try:
        conn = rig.connect("hist")

        def judge(i, st, prev, cur, logs):
            E = st.raw
            counters["steps"] = counters.get("steps", 0) + 1
            pe, ce = dump.stored_events(prev), dump.stored_events(cur)
            rp = {"backend": backend, "history": history[: i + 1]}
            vanished = [e for eid, e in pe.items() if eid not in ce]
            clause["frame"] = clause.get("frame", 0) + 1
            if st.op == "http_get":
                counters["gets_before"] = counters.get("gets_before", 0) + 1
                seen_by_get.add(st.arg)
                for v in vanished:
                    viols.append({"key": "%s/get-removed" % backend, "msg": "[%s] GET /e/%s removed event %s" % (backend, st.arg[:12], v["id"][:12]), "replay": rp})
                return
            if E["kind"] == 5:
                refs, lrefs = wellformed_refs(E), lenient_refs(E)
                if st.ok is True and any(x in pe for x in lrefs):
                    nontrivial.append(h([backend, [(e["kind"], e["pubkey"][:4], e["created_at"], [t[:2] for t in e["tags"]][:4]) if "get" not in e else "get" for e in history[: i + 1]][-6:]]))
                for v in vanished:
                    if v["pubkey"] != E["pubkey"]:
                        viols.append({"key": "%s/foreign-deleted/%s" % (backend, "referenced" if v["id"] in lrefs else "unreferenced"),
                                      "msg": "[%s] deletion by %s (ok=%s) removed event %s of another author %s (kind %d)"
                                             % (backend, E["pubkey"][:8], st.ok, v["id"][:12], v["pubkey"][:8], v["kind"]), "replay": rp})
                    elif v["id"] not in lrefs:
                        viols.append({"key": "%s/unreferenced-deleted" % backend,
                                      "msg": "[%s] deletion %s (ok=%s) removed event %s (kind %d) it does not reference" % (backend, E["id"][:12], st.ok, v["id"][:12], v["kind"]),
                                      "replay": rp})
                    elif st.ok is not True:
                        viols.append({"key": "%s/refused-deletion-deleted" % backend,
                                      "msg": "[%s] refused deletion (%r) nevertheless removed %s" % (backend, st.reason, v["id"][:12]), "replay": rp})
                if st.ok is True:
                    for x in refs:
                        t = pe.get(x)
                        if t and t["pubkey"] == E["pubkey"] and t["created_at"] < E["created_at"]:
                            clause["must_remove"] = clause.get("must_remove", 0) + 1
                            if x in ce:
                                viols.append({"key": "%s/own-not-deleted/kind-%s" % (backend, ref.kind_class(t["kind"])),
                                              "msg": "[%s] accepted deletion (created_at %d) left its author's older referenced event %s (kind %d, created_at %d) in the store"
                                                     % (backend, E["created_at"], x[:12], t["kind"], t["created_at"]), "replay": rp})
                            else:
                                to_probe.append((x, rp))
                                probe_now.append((x, rp))
            else:
                A = ref.address(E)
                for v in vanished:
                    if ref.address(v) is None or ref.address(v) != A:
                        viols.append({"key": "%s/non-deletion-removed" % backend,
                                      "msg": "[%s] accepting kind %d removed unrelated event %s (kind %d)" % (backend, E["kind"], v["id"][:12], v["kind"]), "replay": rp})

        async def served(x, rp, when):
            counters["served_checks"] = counters.get("served_checks", 0) + 1
            if x in seen_by_get:
                counters["served_checks_seen_before"] = counters.get("served_checks_seen_before", 0) + 1
            how = "seen-before" if x in seen_by_get else "unseen"
            ans = await qcore.run_req(rig, conn, [{"ids": [x]}])
            if any(e.get("id") == x for e in ans["events"]):
                viols.append({"key": "%s/deleted-still-served/req/%s" % (backend, how), "msg": "[%s] deleted event %s is still returned by REQ ids (%s)" % (backend, x[:12], when), "replay": rp})
            status, body = await http_get(rig, x)
            if status == 200:
                viols.append({"key": "%s/deleted-still-served/http/%s" % (backend, how),
                              "msg": "[%s] deleted event %s is still served by GET /e/<id> (%s; fetched before the deletion: %s)" % (backend, x[:12], when, x in seen_by_get), "replay": rp})

        async def after(i, st, prev, cur):
            # right after an accepted deletion: what it removed is not served any more
            while probe_now:
                x, rp = probe_now.pop()
                await served(x, rp, "right after the deletion")

        steps = [hist.Step("http_get", arg=e["get"]) if "get" in e else hist.Step("event", raw=e) for e in history]
        await hist.drive(rig, steps, judge, conn=conn, after=after)
        # deleted events must not be served any more
        final = dump.stored_events(dump.dump(rig))
        for x, rp in to_probe[:6]:
            if x in final:
                continue  # re-submitted later in the history
            await served(x, rp, "end of history")
    finally:
        await rig.close()
    return viols, nontrivial


def gen_burst(r, n):
    """(targets of author A, one foreign event, deletion by A referencing all of them)"""
    A, B = ref.key_from_seed("c08-burst-a"), ref.key_from_seed("c08-burst-b")
    cases = []
    for i in range(n):
        tag = "%x-%d" % (r.getrandbits(40), i)
        own = [ref.make_event(A, kind=r.choice([1, 1, 7, 4, 30000, 10002]), created_at=gen.T0 + r.randint(0, 9), tags=[["d", tag]], content="own %s %d" % (tag, j))
               for j in range(r.choice([1, 1, 2, 4]))]
        # ... and one created in the very second before the deletion, with an id at the edge of the id space
        own.append(ref.make_event(A, kind=1, created_at=gen.T0 + 19, tags=[["d", tag]], content="edge %s" % tag, id_prefix=r.choice(["ff", "ff", "00", "fe"])))
        foreign = ref.make_event(B, kind=1, created_at=gen.T0 + 1, content="foreign " + tag)
        D = ref.make_event(A, kind=5, created_at=gen.T0 + 20, tags=[["e", e["id"]] for e in own + [foreign]], content="del " + tag)
        mode = r.choice(["same-connection", "other-connection", "writer-blocked", "mixed-with-load"])
        cases.append({"own": own, "foreign": foreign, "D": D, "mode": mode})
    return cases


async def run_burst(backend, cases, counters):
    """
    The target and its deletion arrive back to back: the target is acknowledged, then the
    deletion is, with no pause for the store to settle in between (on LMDB optionally while
    the write lock is held elsewhere, as a garbage collector or another worker would).
    Once everything settled the deletion must have had its effect.
    """
    rig = R.Rig(backend=backend, config={"analysis_delay": 0})
    await rig.start()
    viols, nontrivial = [], []
    bc = counters.setdefault("burst", {})
    try:
        c1, c2 = rig.connect("b1"), rig.connect("b2")
        L = ref.key_from_seed("c08-load")
        for ci, case in enumerate(cases):
            mode = case["mode"]
            if mode == "writer-blocked" and backend != "lmdb":
                mode = "same-connection"
            own, F, D = case["own"], case["foreign"], case["D"]
            rp = {"backend": backend, "burst": case}
            n0 = rig.rec.n
            held = None
            if mode == "writer-blocked":
                held = rig.storage.db.begin(write=True)
            try:
                if mode == "mixed-with-load":
                    for j in range(6):
                        c1.feed(["EVENT", ref.make_event(L, kind=1, created_at=gen.T0, content="load %d %d %d" % (ci, j, n0))])
                for e in own + [F]:
                    c1.feed(["EVENT", e])
                if mode == "other-connection":
                    await c1.processed()
                    c2.feed(["EVENT", D])
                    await c2.processed()
                else:
                    c1.feed(["EVENT", D])
                    await c1.processed()
            finally:
                if held is not None:
                    held.abort()
            await rig.quiesce()
            oks = {}
            for c in (c1, c2):
                for _, f in R.ok_frames(c, n0):
                    if len(f) > 2:
                        oks[f[1]] = f[2]
            bc[mode] = bc.get(mode, 0) + 1
            counters["steps"] = counters.get("steps", 0) + 1
            if oks.get(D["id"]) is not True or not all(oks.get(e["id"]) is True for e in own + [F]):
                bc["not-all-accepted"] = bc.get("not-all-accepted", 0) + 1
                continue
            nontrivial.append(h([backend, "burst", mode, len(own), [e["kind"] for e in own]]))
            stored = dump.stored_events(dump.dump(rig))
            counters.setdefault("clause", {})["burst_must_remove"] = counters["clause"].get("burst_must_remove", 0) + len(own)
            for e in own:
                gone = e["id"] not in stored
                ans = await qcore.run_req(rig, c1, [{"ids": [e["id"]]}, {"authors": [e["pubkey"]], "kinds": [e["kind"]], "#d": [e["tags"][0][1]]}])
                status, _ = await http_get(rig, e["id"])
                counters["served_checks"] = counters.get("served_checks", 0) + 1
                if not gone or status == 200 or any(x.get("id") == e["id"] for x in ans["events"]):
                    viols.append({"key": "%s/own-not-deleted/burst/%s" % (backend, mode),
                                  "msg": "[%s] %s: event %s (kind %d) and its author's deletion were acknowledged in that order, yet afterwards it is %s"
                                         % (backend, mode, e["id"][:12], e["kind"],
                                            ", ".join(w for w, c in (("in the store", not gone), ("served by GET /e/<id>", status == 200),
                                                                     ("returned by REQ", any(x.get("id") == e["id"] for x in ans["events"]))) if c)),
                                  "replay": rp})
            if F["id"] not in stored:
                viols.append({"key": "%s/foreign-deleted/burst" % backend, "msg": "[%s] %s: deletion removed the foreign event %s" % (backend, mode, F["id"][:12]), "replay": rp})
    finally:
        await rig.close()
    return viols, nontrivial


async def run_restart(backend, counters, seed):
    """the author's deletion is acknowledged, then the relay shuts down in an orderly way at once; after the
    re-open the referenced older event is gone, the foreign one is still there"""
    import shutil
    from .. import env

    r = random.Random(seed)
    scratch = env.scratch("vf-c08-restart-")
    viols, nontrivial = [], []
    A, B = ref.key_from_seed("c08-burst-a"), ref.key_from_seed("c08-burst-b")
    own = ref.make_event(A, kind=1, created_at=gen.T0 + 1, content="own %d" % seed)
    F = ref.make_event(B, kind=1, created_at=gen.T0 + 1, content="foreign %d" % seed)
    D = ref.make_event(A, kind=5, created_at=gen.T0 + 20, tags=[["e", own["id"]], ["e", F["id"]]], content="del %d" % seed)
    rp = {"backend": backend, "restart": seed}
    try:
        rig = R.Rig(backend=backend, config={"analysis_delay": 0}, scratch_dir=scratch)
        await rig.start()
        try:
            conn = rig.connect("b")
            await conn.cmd(["EVENT", own])
            await conn.cmd(["EVENT", F])
            await rig.quiesce()
            n0 = rig.rec.n
            for i in range(r.choice([30, 60])):
                conn.feed(["EVENT", ref.make_event(B, kind=1, created_at=gen.T0 + 2, tags=[["t", "l%d-%d" % (i, j)] for j in range(60)], content="load %d %d" % (seed, i))])
            conn.feed(["EVENT", D])
            await conn.processed(timeout=120)
            oks = {f[1]: f[2] for _, f in R.ok_frames(conn, n0) if len(f) > 2}
        finally:
            await rig.close()
        rig2 = R.Rig(backend=backend, config={"analysis_delay": 0}, scratch_dir=scratch)
        await rig2.start(create_schema=False)
        try:
            counters["steps"] = counters.get("steps", 0) + 1
            counters.setdefault("clause", {})["restart_must_remove"] = counters["clause"].get("restart_must_remove", 0) + 1
            if oks.get(D["id"]) is True:
                nontrivial.append(h([backend, "restart", seed]))
                stored = dump.stored_events(dump.dump(rig2))
                conn2 = rig2.connect("after")
                ans = await qcore.run_req(rig2, conn2, [{"ids": [own["id"]]}])
                status, _ = await http_get(rig2, own["id"])
                counters["served_checks"] = counters.get("served_checks", 0) + 1
                if own["id"] in stored or status == 200 or ans["events"]:
                    viols.append({"key": "%s/own-not-deleted/after-orderly-restart" % backend,
                                  "msg": "[%s] the author's deletion was acknowledged OK=true right before an orderly close; after re-opening the referenced event is %s (deletion event stored: %s)"
                                         % (backend, ", ".join(w for w, c in (("in the store", own["id"] in stored), ("served by GET", status == 200), ("returned by REQ", bool(ans["events"]))) if c),
                                            D["id"] in stored), "replay": rp})
                if F["id"] not in stored:
                    viols.append({"key": "%s/foreign-deleted/after-orderly-restart" % backend, "msg": "[%s] the foreign event is gone after the restart" % backend, "replay": rp})
        finally:
            await rig2.close()
    finally:
        shutil.rmtree(scratch, ignore_errors=True)
    return viols, nontrivial


async def run_two_workers(counters, seed):
    """two workers (two storages) on one SQLite file: what worker 1 deletes, worker 2 does not serve any more -
    also when worker 2 looked at the event before (as its notifier client does for every announced id)"""
    viols, nontrivial = [], []
    import falcon
    import falcon.asgi
    from falcon import testing
    from nostr_relay import web

    async def get(storage, eid):
        res = web.ViewEventResource(storage)
        resp = falcon.asgi.Response()
        try:
            await res.on_get(testing.create_asgi_req(path="/e/" + eid), resp, eid)
        except falcon.HTTPNotFound:
            return 404
        return 200

    rig = R.Rig(backend="sql", config={"analysis_delay": 0})
    await rig.start()
    st2 = None
    try:
        st2 = await rig.make_storage(create_schema=False)
        A, B = ref.key_from_seed("c08-burst-a"), ref.key_from_seed("c08-burst-b")
        w1, w2 = rig.connect("w1"), rig.connect("w2", storage=st2)
        for i in range(6):
            own = ref.make_event(A, kind=r_kind(i), created_at=gen.T0 + 1, tags=[["d", "tw%d-%d" % (seed, i)]], content="own %d %d" % (seed, i))
            F = ref.make_event(B, kind=1, created_at=gen.T0 + 1, content="foreign %d %d" % (seed, i))
            D = ref.make_event(A, kind=5, created_at=gen.T0 + 20, tags=[["e", own["id"]], ["e", F["id"]]], content="del %d %d" % (seed, i))
            await w1.cmd(["EVENT", own])
            await w1.cmd(["EVENT", F])
            await rig.quiesce()
            looked = i % 2 == 0
            if looked:
                await st2.get_event(own["id"])  # what NotifyClient does with every announced id
                await get(st2, F["id"])
            n0 = rig.rec.n
            await (w1 if i % 3 else w2).cmd(["EVENT", D])
            await rig.quiesce()
            oks = [f for _, f in R.ok_frames(w1, n0)] + [f for _, f in R.ok_frames(w2, n0)]
            if not oks or oks[-1][2] is not True:
                continue
            counters["two_worker_deletions"] = counters.get("two_worker_deletions", 0) + 1
            counters["steps"] = counters.get("steps", 0) + 1
            nontrivial.append(h(["sql", "two-workers", seed, i]))
            rp = {"backend": "sql", "two_workers": seed}
            for name, st, c in (("accepting worker" if i % 3 else "other worker", rig.storage, w1), ("other worker" if i % 3 else "accepting worker", st2, w2)):
                status = await get(st, own["id"])
                ans = await qcore.run_req(rig, c, [{"ids": [own["id"]]}])
                if status == 200 or ans["events"]:
                    viols.append({"key": "sql/deleted-still-served/%s/%s" % ("http" if status == 200 else "req", "other-worker" if name == "other worker" else "accepting-worker"),
                                  "msg": "[sql, two workers on one database] after the author's accepted deletion the %s still serves event %s (GET %d, REQ %d events; looked at before: %s)"
                                         % (name, own["id"][:12], status, len(ans["events"]), looked), "replay": rp})
                if await get(st, F["id"]) != 200:
                    viols.append({"key": "sql/foreign-deleted/two-workers", "msg": "[sql] the foreign event is no longer served by the %s" % name, "replay": rp})
    finally:
        if st2 is not None:
            try:
                await st2.close()
            except Exception:
                pass
        await rig.close()
    return viols, nontrivial


def r_kind(i):
    return [1, 7, 30000, 10002, 1, 4][i % 6]


async def run_many(backend, histories, counters):
    viols, nontrivial = [], []
    for hs in histories:
        v, nt = await run_history(backend, hs, counters)
        viols.extend(v)
        nontrivial.extend(nt)
    return viols, nontrivial


def run_shard(spec):
    if spec.get("mode") == "e2e":
        from .. import e2e_cases

        return e2e_cases.run_e2e_shard(ID, spec)
    r = random.Random(spec["case_seed"])
    counters = {}
    histories = [gen_history(r) for _ in range(spec["histories"])]
    viols, nontrivial = R.run(run_many, spec["backend"], histories, counters)
    v2, nt2 = R.run(run_burst, spec["backend"], gen_burst(r, spec.get("bursts", 12)), counters)
    viols.extend(v2)
    nontrivial.extend(nt2)
    for j in range(2):
        v3, nt3 = R.run(run_restart, spec["backend"], counters, spec["case_seed"] * 10 + j)
        viols.extend(v3)
        nontrivial.extend(nt3)
    if spec["backend"] == "sql":
        v4, nt4 = R.run(run_two_workers, counters, spec["case_seed"])
        viols.extend(v4)
        nontrivial.extend(nt4)
    seen, out = {}, []
    for v in viols:
        seen[v["key"]] = seen.get(v["key"], 0) + 1
        if seen[v["key"]] <= 1:
            out.append(v)
    counters["violations_by_key"] = seen
    sample = [{"kind": e["kind"], "author": e["pubkey"][:6], "created_at": e["created_at"], "tags": [t[:2] for t in e["tags"]][:3]} if "get" not in e else {"GET /e/": e["get"][:12]}
              for e in histories[0][:12]]
    return {"evaluations": counters.get("steps", 0), "nontrivial": sorted(set(nontrivial)), "counters": counters,
            "coverage": {"backends": {spec["backend"]: 1}}, "violations": out, "samples": [{"backend": spec["backend"], "history": sample}], "inconclusive": []}


def replay(rp, spec):
    if rp.get("mode") == "e2e":
        from .. import e2e_cases

        return e2e_cases.run_e2e_shard(ID, rp)
    counters = {}
    if "restart" in rp:
        v, nt = R.run(run_restart, rp["backend"], counters, rp["restart"])
        return {"evaluations": 1, "nontrivial": nt, "counters": counters, "violations": v, "samples": [], "inconclusive": []}
    if "two_workers" in rp:
        v, nt = R.run(run_two_workers, counters, rp["two_workers"])
        return {"evaluations": 1, "nontrivial": nt, "counters": counters, "violations": v, "samples": [], "inconclusive": []}
    if "burst" in rp:
        v, nt = R.run(run_burst, rp["backend"], [rp["burst"]], counters)
        return {"evaluations": 1, "nontrivial": nt, "counters": counters, "violations": v, "samples": [], "inconclusive": []}
    v, nt = R.run(run_history, rp["backend"], rp["history"], counters)
    return {"evaluations": len(rp["history"]), "nontrivial": nt, "counters": counters, "violations": v, "samples": [], "inconclusive": []}
