"""
C09 - replaceable events: newest kept, older superseded, everything else untouched.

Address model as CONSTRAINTS over consecutive store dumps (never an exact next-state
function: ties and late arrivals are free): after accepting E with address A, (1) no
stored event of A older than E remains, (2) a newest version of every address is still
present, (3) no event of another address or of a regular kind disappeared.
"""
import itertools
import json
import random

from .. import rig as R, ref, gen, dump, hist
from ..orch import h

ID = "C09"
TECHNIQUE = 'runtime monitoring - address model as constraints over consecutive dumps (older versions gone, a newest version kept, no other address touched) for all arrival orders of small histories and seeded long ones; unusual d tags, unindexable versions, low max_limit; end-to-end shard: a newer version accepted by one worker process, the superseded one read back on every worker (REQ and HTTP)'
LEVEL = "exploration"
RULE = (
    "universe: 2 authors x kinds {0,3,1,10000,19999,30000,39999} x d in {absent, bare [\"d\"], \"\", a, ab, abc, e-acute} "
    "plus unusual legal d tags (extra elements that equal other d-values, several d tags, d tag after other tags) "
    "x 4 timestamps, plus correctly signed versions that cannot be indexed (nested / null tag values) and must therefore leave "
    "the stored versions alone. Small scope, exhaustive: for every pair of addresses (one focus address + one neighbour address "
    "chosen to be confusable with it - substring d-values, absent vs empty d, other kind / author) every arrival "
    "ORDER (all permutations) of histories of <= 5 events with in-order, out-of-order and equal timestamps. Beyond that, "
    "seeded random histories of 15-40 events over the whole universe, and one author holding 12-20 addresses of one kind on a relay "
    "configured with max_limit 5. Timestamps equal, one second apart and further apart. Every step is judged on fresh dumps. "
    "Non-trivial = an accepted replaceable event whose address already had a stored version, or whose neighbour "
    "address had one (frame condition exercised). Distinct = distinct (backend, canonical history prefix)."
)
EXHAUSTIVE = {"quick": False, "thorough": False}
ASSUMPTIONS = [
    "end-to-end shards: a real gunicorn/uvicorn server process tree started from the tree under test (vf/e2e_launch.py: the repository's run_with_gunicorn / run_with_uvicorn; the SQL schema is made with the repository's metadata.create_all because its alembic env.py does not run with the installed SQLAlchemy; the notifier's fixed TCP port 6000 is replaced by a free port), spoken to over loopback TCP with the websockets client; real time, real sleeps",
    "absent, bare and empty d tags denote the same address; the first d tag counts",
    "equal timestamps may be resolved either way; a late-arriving older version may be kept or dropped",
    "LMDB backend over /verif/shim (judged after writer idle); SQL = SQLite",
]
MIN_NONTRIVIAL = {"quick": 400, "thorough": 4000}
REQUIRED_COUNTERS = ["e2e.e2e_worker_readbacks", "clause.older_removed", "clause.newest_kept", "clause.frame", "clause.refused_version_frame", "clause.odd_d_tag", "clause.low_max_limit_steps", "clause.many_versions", "clause.slow_selects"]
SHARD_TIMEOUT = {"quick": 500, "thorough": 3000}
KINDS = [0, 3, 1, 10000, 19999, 30000, 39999]
DVALS = [None, "BARE", "", "a", "ab", "abc", "é"]
# legal but unusual d tags: further elements after the value (the address is the FIRST value), several d tags
# (the first one counts), other tags before the d tag
# (a BARE or empty first d tag followed by a valued one still has the address "")
ODD_DVALS = [("x", "a"), ("y", "ab", "abc"), ("a", "x"), ("", "a"), "MULTI:a,ab", "MULTI:x,a", "AFTER:a", "AFTER:ab",
             "BAREFIRST:a", "BAREFIRST:ab", "MULTI:,a", "MULTI:,ab"]
TS = [gen.T0 + 5, gen.T0 + 10, gen.T0 + 19, gen.T0 + 20, gen.T0 + 20, gen.T0 + 21]  # equal, one second apart, further apart


def plan(tier, seed):
    return _plan(tier, seed) + e2e_plan(tier, seed)


def e2e_plan(tier, seed):
    """shards on a REAL server process tree (vf/e2e.py)"""
    out = [{"mode": "e2e", "e2e": "c08", "backend": b, "workers": 2, "seed": seed + 50} for b in ("sql", "lmdb")]
    return out


def _plan(tier, seed):
    nperm, nrand = (6, 6) if tier == "quick" else (24, 24)
    out = []
    for b in ("sql", "lmdb"):
        for i in range(nperm):
            out.append({"backend": b, "mode": "perm", "case_seed": seed * 7919 + i, "n": 10 if tier == "quick" else 30})
        for i in range(nrand):
            out.append({"backend": b, "mode": "random", "case_seed": seed * 7919 + 1000 + i, "n": 4 if tier == "quick" else 12})
        # a relay configured with a small max_limit (own process: the relay captures the option at import time)
        out.append({"backend": b, "mode": "lowcap", "case_seed": seed * 7919 + 2000, "n": 3 if tier == "quick" else 10})
    for i in range(1 if tier == "quick" else 4):
        out.append({"backend": "sql", "mode": "slowdb", "case_seed": seed * 7919 + 3000 + i, "n": 5})
    return out


def mk(key, kind, d, ts, n, poison=None):
    tags = []
    if kind >= 30000:
        if d == "BARE":
            tags = [["d"]]
        elif isinstance(d, tuple):
            tags = [["d"] + list(d)]
        elif isinstance(d, str) and d.startswith("BAREFIRST:"):
            tags = [["d"], ["d", d[10:]]]
        elif isinstance(d, str) and d.startswith("MULTI:"):
            tags = [["d", x] for x in d[6:].split(",")]
        elif isinstance(d, str) and d.startswith("AFTER:"):
            tags = [["t", "a"], ["e", "00" * 32], ["d", d[6:]]]
        elif d is not None:
            tags = [["d", d]]
    if poison == "unhashable":
        tags = tags + [["p", ["x"]]]  # correctly signed; cannot be indexed
    elif poison == "dict":
        tags = tags + [["e", {"x": 1}]]
    elif poison == "huge-kind-tag":
        tags = tags + [["k", None]]
    deleg = None
    if poison is None and n % 7 == 3:
        # a version signed on behalf of the OTHER author (NIP-26 delegation): the address is still the signer's
        other = ref.key_from_seed("c09-b" if key.pk == ref.key_from_seed("c09-a").pk else "c09-a")
        deleg = (other, "kind=%d" % kind)
    return ref.make_event(key, kind=kind, created_at=ts, tags=tags, content="v%d" % n, delegation=deleg)


def perm_histories(r, count):
    """histories of <=5 events over a focus address and a confusable neighbour, all orders"""
    keys = [ref.key_from_seed("c09-a"), ref.key_from_seed("c09-b")]
    out = []
    n = 0
    for _ in range(count):
        kind = r.choice(KINDS[3:] + [0, 3])
        k = r.choice(keys)
        if kind >= 30000:
            pool = DVALS + ODD_DVALS if r.random() < 0.5 else DVALS
            d1 = r.choice(pool)
            d2 = r.choice([x for x in pool if x != d1])
            neigh = (k, kind, d2) if r.random() < 0.7 else (r.choice(keys), r.choice([30000, 39999]), d1)
        else:
            d1 = None
            neigh = r.choice([(keys[1 - keys.index(k)], kind, None), (k, r.choice([x for x in (0, 3, 10000, 19999, 1) if x != kind]), None)])
        size = r.choice([3, 4, 5])
        evs = []
        for i in range(size):
            n += 1
            if i < size - 1 or r.random() < 0.5:
                evs.append(mk(k, kind, d1, r.choice(TS), n))
            else:
                evs.append(mk(neigh[0], neigh[1], neigh[2], r.choice(TS), n))
        n += 1
        evs[r.randrange(len(evs))] = mk(neigh[0], neigh[1], neigh[2], r.choice(TS), n)
        if r.random() < 0.3:
            # a version that the store may have to refuse half way (after it looked for what it supersedes)
            j = r.randrange(len(evs))
            n += 1
            evs[j] = mk(k, kind, d1, max(TS) + r.choice([0, 5]), n, poison=r.choice(["unhashable", "dict", "huge-kind-tag"]))
        perms = list(itertools.permutations(range(size)))
        if size == 5:
            perms = r.sample(perms, 40)
        for p in perms:
            out.append([evs[i] for i in p])
    return out


def random_history(r, n):
    keys = [ref.key_from_seed("c09-a"), ref.key_from_seed("c09-b")]
    evs = []
    for i in range(n):
        kind = r.choice(KINDS)
        evs.append(mk(r.choice(keys), kind, r.choice(DVALS + ODD_DVALS if i % 3 == 0 else DVALS), r.choice(TS + [gen.T0 + 1, gen.T0 + 30]), 1000 + i,
                      poison=r.choice(["unhashable", "dict", "huge-kind-tag"]) if r.random() < 0.08 else None))
    return evs


def many_addresses_history(r):
    """one author holding far more addresses of one kind than max_limit (5), then new versions of old ones"""
    k = ref.key_from_seed("c09-a")
    kind = r.choice([30000, 30078, 39999, 10000])
    n = r.randint(12, 20)
    evs = [ref.make_event(k, kind=kind if kind >= 30000 else 10000 + i, created_at=gen.T0 + i, tags=[["d", "item-%02d" % i]] if kind >= 30000 else [], content="v1 %d" % i) for i in range(n)]
    order = list(range(n))
    r.shuffle(order)
    for j, i in enumerate(order[: n // 2]):
        evs.append(ref.make_event(k, kind=kind if kind >= 30000 else 10000 + i, created_at=gen.T0 + 100 + j, tags=[["d", "item-%02d" % i]] if kind >= 30000 else [], content="v2 %d" % i))
    return evs


async def run_many_versions(backend, counters, seed):
    """hundreds of older versions of ONE address (they arrived newest first, so each was kept) and then a newer
    one: every older version goes, however many there are"""
    import random as _r

    r = _r.Random(seed)
    rig = R.Rig(backend=backend, config={"analysis_delay": 0})
    await rig.start()
    viols, nontrivial = [], []
    try:
        conn = rig.connect("mv")
        k = ref.key_from_seed("c09-many-%d" % seed)
        kind = r.choice([10000, 30000, 30023])
        n = r.choice([499, 500, 501, 1001, 1203])
        tags = [["d", "slot"]] if kind >= 30000 else []
        older = [ref.make_event(k, kind=kind, created_at=gen.T0 + 5000 - i, tags=tags, content="old %d %d" % (seed, i)) for i in range(n)]
        other = ref.make_event(k, kind=kind + 1, created_at=gen.T0, tags=tags, content="other address %d" % seed)
        for e in older + [other]:
            conn.feed(["EVENT", e])
        await conn.processed(timeout=300)
        await rig.quiesce(timeout=300)
        before = dump.stored_events(dump.dump(rig))
        kept = [e for e in older if e["id"] in before]
        newest = ref.make_event(k, kind=kind, created_at=gen.T0 + 9000, tags=tags, content="newest %d" % seed)
        n0 = rig.rec.n
        await conn.cmd(["EVENT", newest])
        await rig.quiesce(timeout=300)
        oks = R.ok_frames(conn, n0)
        after = dump.stored_events(dump.dump(rig))
        counters["steps"] = counters.get("steps", 0) + 1
        counters.setdefault("clause", {})["many_versions"] = counters["clause"].get("many_versions", 0) + len(kept)
        if oks and oks[-1][1][2] is True and len(kept) > 1:
            nontrivial.append(h([backend, "many-versions", kind, n, len(kept)]))
            left = [e for e in kept if e["id"] in after]
            if left:
                viols.append({"key": "%s/older-kept/%s/hundreds-of-older" % (backend, kclass(kind)),
                              "msg": "[%s] %d older versions of one address were stored; after accepting a newer one %d of them are still there" % (backend, len(kept), len(left)),
                              "replay": {"backend": backend, "mode": "many-versions", "seed": seed}})
            if newest["id"] not in after or other["id"] not in after:
                viols.append({"key": "%s/newest-lost/many-versions" % backend, "msg": "[%s] the newest version or the event of another address is gone" % backend,
                              "replay": {"backend": backend, "mode": "many-versions", "seed": seed}})
    finally:
        await rig.close()
    return viols, nontrivial


def make_judge(backend, history, counters, viols, nontrivial):
    clause = counters.setdefault("clause", {})

    def bump(c):
        clause[c] = clause.get(c, 0) + 1

    def judge(i, st, prev, cur, logs):
        E = st.raw
        counters["steps"] = counters.get("steps", 0) + 1
        pe, ce = dump.stored_events(prev), dump.stored_events(cur)
        A = ref.address(E)
        rp = {"backend": backend, "history": [s for s in history[: i + 1]]}
        accepted = st.ok is True
        vanished = [e for eid, e in pe.items() if eid not in ce]
        # (3) frame: nothing of another address / regular kind disappears, whatever the ack says
        bump("frame")
        for v in vanished:
            va = ref.address(v)
            if va is None or va != A or not accepted:
                why = "regular kind" if va is None else ("other address %s" % (va[1:],))
                rel = classify_relation(E, v)
                viols.append({"key": "%s/foreign-removed/%s" % (backend, rel),
                              "msg": "[%s] accepting kind %d d=%r (ok=%s) removed %s event kind %d d=%r created_at %d"
                                     % (backend, E["kind"], ref.d_value(E) if E["kind"] >= 30000 else None, st.ok, why, v["kind"],
                                        ref.d_value(v) if v["kind"] >= 30000 else None, v["created_at"]), "replay": rp})
        if A is not None and not accepted and any(ref.address(e) == A for e in pe.values()):
            bump("refused_version_frame")
        if any(len(t) > 2 or t[0] != "d" for t in E["tags"]) and A is not None and len(A) == 3:
            bump("odd_d_tag")
        if A is None or not accepted:
            return
        same_prev = [e for e in pe.values() if ref.address(e) == A]
        if same_prev or any(ref.address(e) is not None and ref.address(e)[:2] == A[:2] for e in pe.values()):
            nontrivial.append(h([backend, [(e["kind"], ref.d_value(e), e["created_at"]) for e in history[: i + 1]]]))
        # (1) older versions of A are gone
        bump("older_removed")
        left = [e for e in ce.values() if ref.address(e) == A and e["created_at"] < E["created_at"]]
        if left:
            viols.append({"key": "%s/older-kept/%s/%s" % (backend, kclass(E["kind"]), "several-older" if len([e for e in same_prev if e["created_at"] < E["created_at"]]) > 1 else "one-older"),
                          "msg": "[%s] after accepting kind %d d=%r created_at %d, %d older version(s) of the address are still stored (created_at %s)"
                                 % (backend, E["kind"], ref.d_value(E), E["created_at"], len(left), [e["created_at"] for e in left]), "replay": rp})
        # (2) a newest version of A is present
        bump("newest_kept")
        cands = same_prev + [E]
        m = max(e["created_at"] for e in cands)
        if not any(ref.address(e) == A and e["created_at"] == m for e in ce.values()):
            viols.append({"key": "%s/newest-lost/%s" % (backend, kclass(E["kind"])),
                          "msg": "[%s] after accepting kind %d d=%r created_at %d no version with the newest timestamp %d of the address is stored"
                                 % (backend, E["kind"], ref.d_value(E), E["created_at"], m), "replay": rp})

    return judge


def kclass(kind):
    if kind in (0, 3):
        return "kind0/3"
    if 10000 <= kind < 20000:
        return "replaceable"
    if 30000 <= kind < 40000:
        return "parameterized"
    return "regular"


def classify_relation(E, v):
    """how the wrongly removed event relates to the accepted one (mechanism key)"""
    if E["pubkey"] != v["pubkey"]:
        return "other-author"
    if E["kind"] != v["kind"]:
        return "other-kind"
    if E["kind"] >= 30000:
        de, dv = ref.d_value(E), ref.d_value(v)
        has_d = any(t and t[0] == "d" for t in E["tags"])
        if not has_d:
            return "new-has-no-d-tag"
        vd = next((t for t in v["tags"] if t and t[0] == "d"), [])
        if de in vd[2:]:
            return "d-equals-extra-element"
        if any(t[0] == "d" and len(t) > 1 and t[1] == de for t in v["tags"][1:] if t):
            return "d-equals-later-d-tag"
        if dv in de and dv != de:
            return "d-substring"
        if de in dv and dv != de:
            return "d-superstring"
        return "other-d"
    return "same-address?"


async def run_history(backend, history, counters, config=None, slow_select=0.0):
    rig = R.Rig(backend=backend, config=dict({"analysis_delay": 0}, **(config or {})))
    await rig.start()
    viols, nontrivial = [], []
    if slow_select and backend == "sql":
        # a database that answers slowly (loaded host, big table, remote server): every SELECT on the events table takes
        # `slow_select` seconds of real time in the driver's thread - whatever the relay measures or times out on
        import time as _t
        from sqlalchemy import event as sa_event

        def before(conn, cursor, statement, parameters, context, executemany):
            if statement.lstrip().upper().startswith("SELECT") and "events" in statement:
                counters.setdefault("clause", {})["slow_selects"] = counters.get("clause", {}).get("slow_selects", 0) + 1
                _t.sleep(slow_select)

        sa_event.listen(rig.storage.db.sync_engine, "before_cursor_execute", before)
    try:
        steps = [hist.Step("event", raw=e) for e in history]
        await hist.drive(rig, steps, make_judge(backend, history, counters, viols, nontrivial))
    finally:
        await rig.close()
    return viols, nontrivial


async def run_many(backend, histories, counters, config=None):
    """several histories in one relay instance: every history uses fresh keys?  No - the
    store is wiped between histories by using a new rig (cheap enough for LMDB/SQLite)"""
    viols, nontrivial = [], []
    for hs in histories:
        v, nt = await run_history(backend, hs, counters, config)
        if config:
            for x in v:
                x["replay"]["config"] = config
                x["key"] += "/max_limit-%s" % config.get("max_limit")
            counters.setdefault("clause", {})["low_max_limit_steps"] = counters["clause"].get("low_max_limit_steps", 0) + len(hs)
        viols.extend(v)
        nontrivial.extend(nt)
    return viols, nontrivial


def run_shard(spec):
    if spec.get("mode") == "e2e":
        from .. import e2e_cases

        return e2e_cases.run_e2e_shard(ID, spec)
    r = random.Random(spec["case_seed"])
    counters = {}
    if spec["mode"] == "perm":
        histories = perm_histories(r, spec["n"])
        r.shuffle(histories)
        histories = histories[: 60 if spec["n"] <= 10 else 400]
    elif spec["mode"] == "lowcap":
        histories = [many_addresses_history(r) for _ in range(spec["n"])]
    elif spec["mode"] == "slowdb":
        histories = []
    else:
        histories = [random_history(r, r.randint(15, 40)) for _ in range(spec["n"])]
    if spec["mode"] == "slowdb":
        histories = perm_histories(r, 10)
        r.shuffle(histories)
        histories = [hs for hs in histories if len(hs) <= 4][:5]

        async def slow_many(backend, histories, counters):
            viols, nontrivial = [], []
            for hs in histories:
                v, nt = await run_history(backend, hs, counters, None, slow_select=0.6)
                for x in v:
                    x["key"] += "/slow-database"
                    x["replay"]["slow_select"] = 0.6
                viols.extend(v)
                nontrivial.extend(nt)
            return viols, nontrivial

        viols, nontrivial = R.run(slow_many, spec["backend"], histories, counters)
    else:
        viols, nontrivial = R.run(run_many, spec["backend"], histories, counters, {"max_limit": 5} if spec["mode"] == "lowcap" else None)
    if spec["mode"] == "random" and spec["case_seed"] % 3 == 0:
        for j in range(2):
            v2, nt2 = R.run(run_many_versions, spec["backend"], counters, spec["case_seed"] + j)
            viols.extend(v2)
            nontrivial.extend(nt2)
    seen, out = {}, []
    for v in viols:
        seen[v["key"]] = seen.get(v["key"], 0) + 1
        if seen[v["key"]] <= 1:
            out.append(v)
    counters["violations_by_key"] = seen
    counters["histories"] = len(histories)
    sample = [{"kind": e["kind"], "d": [t for t in e["tags"] if t[0] == "d"], "created_at": e["created_at"], "author": e["pubkey"][:6]} for e in histories[0]]
    return {"evaluations": counters.get("steps", 0), "nontrivial": sorted(set(nontrivial)), "counters": counters,
            "coverage": {"backends": {spec["backend"]: 1}, "modes": {spec["mode"]: len(histories)}}, "violations": out,
            "samples": [{"backend": spec["backend"], "history": sample}], "inconclusive": []}


def replay(rp, spec):
    if rp.get("mode") == "e2e":
        from .. import e2e_cases

        return e2e_cases.run_e2e_shard(ID, rp)
    counters = {}
    if rp.get("mode") == "many-versions":
        v, nt = R.run(run_many_versions, rp["backend"], counters, rp["seed"])
        return {"evaluations": 1, "nontrivial": nt, "counters": counters, "violations": v, "samples": [], "inconclusive": []}
    v, nt = R.run(run_history, rp["backend"], rp["history"], counters, rp.get("config"))
    return {"evaluations": len(rp["history"]), "nontrivial": nt, "counters": counters, "violations": v, "samples": [], "inconclusive": []}
