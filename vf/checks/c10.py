"""
C10 - every LMDB index entry has its record and every record all its index entries.

Structural invariant walked over the live environment: a read snapshot of the whole
keyspace is taken after every operation at quiescence AND at arbitrary instants while the
writer thread is busy (MVCC snapshots only ever show committed states, so this also
watches for operations split over several transactions).  The expected secondary key set
is re-derived from the decoded primary records by the harness' own rendering of the
documented layout and compared with the keys actually present.
"""
import asyncio
import json
import random

from .. import rig as R, ref, gen, dump, hist, faults, subm
from ..orch import h

ID = "C10"
TECHNIQUE = 'runtime monitoring - structural invariant walker over LMDB snapshots (every index key has its record, every record all its keys, re-derived by an independent layout oracle) after every operation, during writer bursts, after injected engine errors and after a second process used the environment; get_event compared with the keyspace; end-to-end shard: 2-4 worker PROCESSES writing to one LMDB environment at the same time (replacements of the same addresses, author deletions, expirations with the real collector running), then the same keyspace walk over the files the server left'
LEVEL = "fault_enumeration"
RULE = (
    "cases = (seeded history of 20-60 operations on the LMDB backend: add, resubmit, author deletion, replaceable / "
    "parameterized replacement, garbage-collection pass with injected clock, storage.delete_event, over events with "
    "duplicate tags, empty values, multi-byte tag names, NUL / prefix-related / 300-byte / 2000-byte values, tag items "
    "that are ints, floats, bools, null and nested lists; in a third of the histories an engine error is injected at a "
    "random put/delete/commit ordinal of a random operation - the enumeration of ALL ordinals is C07's). One snapshot "
    "walk per operation at quiescence plus walks at random instants during bursts; after every operation the lookup by id "
    "(get_event) is compared with the keyspace for present and just-removed records; in half of the histories a second OS "
    "process opens the same environment with the relay's configuration, queries and closes, and the keyspace is walked again. Non-trivial = a walk over a store "
    "with at least one record whose key set differs from the previous walk. Distinct = distinct canonical keyspaces walked."
)
ASSUMPTIONS = [
    "end-to-end shards: a real gunicorn/uvicorn server process tree started from the tree under test (vf/e2e_launch.py: the repository's run_with_gunicorn / run_with_uvicorn; the SQL schema is made with the repository's metadata.create_all because its alembic env.py does not run with the installed SQLAlchemy; the notifier's fixed TCP port 6000 is replaced by a free port), spoken to over loopback TCP with the websockets client; real time, real sleeps",
    "LMDB backend over /verif/shim: key order, transactions and MVCC snapshots are the real liblmdb's; the ctypes binding is trusted (conformance self-test at setup)",
    "layout oracle: 0x00 id | 0x01 ts | 0x02 kind | 0x03 pubkey | 0x04 pubkey 0x00 kind | 0x09 name 0x00 value, each + 0x00 ts 0x00 id; values longer than 256 bytes indexed by 0x00 'sha256' 0x00 digest; 0xee sentinel",
    "for tag values that are not strings any of the renderings str()/tuple-str/JSON is accepted as the indexed text, but an entry must still belong to an existing record that carries such a tag",
]
MIN_NONTRIVIAL = {"quick": 300, "thorough": 3000}
REQUIRED_COUNTERS = ["e2e.e2e_records_checked", "e2e.e2e_keys_checked", "walks.quiescent", "walks.concurrent", "injected_errors_fired", "records_checked", "get_event_checks", "peer_processes"]
SHARD_TIMEOUT = {"quick": 500, "thorough": 3000}
NOW = gen.T0


def plan(tier, seed):
    return _plan(tier, seed) + e2e_plan(tier, seed)


def e2e_plan(tier, seed):
    """shards on a REAL server process tree (vf/e2e.py)"""
    out = [{"mode": "e2e", "e2e": "c10", "workers": 3, "seed": seed, "nevents": 150 if tier == "quick" else 600}]
    if tier == "thorough":
        out += [{"mode": "e2e", "e2e": "c10", "workers": w, "seed": seed + w, "nevents": 600} for w in (2, 4)]
    return out


def _plan(tier, seed):
    n, hs = (8, 6) if tier == "quick" else (64, 40)
    return [{"case_seed": seed * 7919 + i, "histories": hs} for i in range(n)]


VALUES = ["a", "ab", "abc", "", "a\x00b", "\x00", "é", "aÿ", "x" * 255, "y" * 256, "z" * 257, "w" * 300, "v" * 2000, "A",
          "é" * 128, "é" * 129, "é" * 250, "あ" * 200, "\U0001f600" * 64, "\U0001f600" * 65,
          5, 0, -1, 1.5, True, False, None, ["x"], ["x", ["y"]], [], "5", "None", "['x']", "('x',)", 2 ** 63 - 1, 1e20,
          {"a": 1}, {"relays": ["wss://one", "wss://two"]}, {"a": {"b": [1, [2]]}}, {}, "k" * 462, "k" * 470, "k" * 471]
NAMES = ["e", "p", "t", "d", "é", "\U0001f600", "expiration", "expiration", "delegation", "ab", "", "\x00", " "]


def rnd_event(r, keys, i, kind=None):
    kind = r.choice([1, 1, 7, 0, 3, 10000, 30000, 30000, 20000]) if kind is None else kind
    tags = []
    for _ in range(r.choice([0, 1, 2, 3, 5])):
        name = r.choice(NAMES)
        val = r.choice(VALUES)
        t = [name, val]
        if r.random() < 0.15:
            t = [name]
        if r.random() < 0.15:
            t.append("extra")
        tags.append(t)
    if r.random() < 0.2 and tags:
        tags.append(list(tags[0]))  # duplicate tag
    if r.random() < 0.25:
        tags.append(["expiration", r.choice([str(NOW - 10), str(NOW + 10 ** 6), "5", NOW - 10, "abc"])])
    key = r.choice(keys)
    ev = ref.make_event(key, kind=kind, created_at=NOW - 200 + r.choice([0, 1, 2, 50, 100, i]), tags=tags, content="x%d" % i)
    try:
        ev["id"] = subm.rapid_id(ev)
        ev["sig"] = key.sign(bytes.fromhex(ev["id"]))
    except Exception:
        return None
    return ev


def gen_history(r):
    keys = [ref.key_from_seed("c10-%d" % i) for i in range(3)]
    ops = []
    added = []
    n = r.randint(20, 60)
    for i in range(n):
        roll = r.random()
        if roll < 0.55 or not added:
            ev = rnd_event(r, keys, i)
            if ev:
                ops.append(hist.Step("event", raw=ev, label="add"))
                added.append(ev)
        elif roll < 0.63:
            ops.append(hist.Step("event", raw=json.loads(json.dumps(r.choice(added))), label="resubmit"))
        elif roll < 0.75:
            tgt = r.sample(added, min(len(added), r.choice([1, 1, 2, 4])))
            key = next(k for k in keys if k.pk == tgt[0]["pubkey"])
            d = ref.make_event(key, kind=5, created_at=NOW + i, tags=[["e", t["id"]] for t in tgt], content="d%d" % i)
            ops.append(hist.Step("event", raw=d, label="delete-by-author"))
            added.append(d)
        elif roll < 0.85:
            # a replacement that really supersedes a stored older version of the same address
            key = r.choice(keys)
            kind = r.choice([0, 3, 10000, 30000, 30000])
            d = [["d", r.choice(["x", "", "y"])]] if kind == 30000 else []
            extra = [[r.choice(NAMES[:6]), r.choice(VALUES[:14])] for _ in range(r.choice([1, 2, 4]))]
            old = ref.make_event(key, kind=kind, created_at=NOW - 500 + i, tags=d + extra + [["r", "wss://one.example"]], content="old%d" % i)
            new = ref.make_event(key, kind=kind, created_at=NOW - 400 + i, tags=d + [["t", "newer"]], content="new%d" % i)
            ops.append(hist.Step("event", raw=old, label="add"))
            ops.append(hist.Step("event", raw=new, label="replace"))
            added += [old, new]
        elif roll < 0.93:
            ops.append(hist.Step("gc", arg=r.choice([NOW, NOW + 10 ** 7]), label="gc"))
        else:
            ops.append(hist.Step("delete_event", arg=r.choice(added)["id"], label="delete_event"))
    return ops


def renderings(v):
    """texts under which a tag value may legitimately be indexed"""
    if isinstance(v, str):
        return [v]
    out = {str(v)}
    try:
        out.add(json.dumps(v, separators=(",", ":")))
        out.add(json.dumps(v))
    except Exception:
        pass

    def tup(x):
        return tuple(tup(i) for i in x) if isinstance(x, list) else x

    if isinstance(v, list):
        out.add(str(tup(v)))
    return list(out)


def tagkey(name, text):
    import hashlib

    tv = text.encode("utf-8", "surrogatepass")
    if len(tv) > 256:
        tv = b"\x00sha256\x00" + hashlib.sha256(tv).digest()
    return b"\x09" + name.encode("utf-8", "surrogatepass") + b"\x00" + tv


def check_keyspace(d):
    """returns list of (kind, message) problems of one snapshot"""
    problems = []
    keys = d["keys"]
    events = d["events"]
    if d["bad"]:
        problems.append(("undecodable-record", repr(d["bad"][:1])))
    required = set()
    allowed = set()
    for idhex, ev in events.items():
        try:
            eid = bytes.fromhex(ev["id"])
            ts = int(ev["created_at"]).to_bytes(4, "big")
            suffix = b"\x00" + ts + b"\x00" + eid
            pk = bytes.fromhex(ev["pubkey"])
            kind = int(ev["kind"]).to_bytes(4, "big")
        except Exception as e:
            problems.append(("unrenderable-record", "%s %r" % (idhex[:12], e)))
            continue
        if idhex != ev["id"]:
            problems.append(("record-under-wrong-id", idhex[:12]))
        required.update([b"\x01" + ts + suffix, b"\x02" + kind + suffix, b"\x03" + pk + suffix, b"\x04" + pk + b"\x00" + kind + suffix])
        for t in ev["tags"]:
            if isinstance(t, list) and len(t) >= 2 and isinstance(t[0], str) and (len(t[0]) == 1 or t[0] in ("expiration", "delegation")):
                rs = renderings(t[1])
                ks = [tagkey(t[0], x) + suffix for x in rs]
                if isinstance(t[1], str):
                    required.add(ks[0])
                else:
                    allowed.update(ks)
                    if not any(k in keys for k in ks) and not isinstance(t[1], (list, dict)):
                        problems.append(("record-without-tag-entry/non-string", "%s tag %r" % (idhex[:12], t[:2])))
    actual = {k for k in keys if k[:1] not in (b"\x00", b"\xee")}
    for k in sorted(actual - required - allowed)[:5]:
        tail = k[-32:].hex()
        kindname = {1: "created", 2: "kind", 3: "author", 4: "authorkind", 9: "tag"}.get(k[0], "?")
        if tail not in events:
            problems.append(("dangling-entry/" + kindname, "%r -> no record %s" % (k[:40], tail[:12])))
        else:
            problems.append(("entry-under-foreign-value/" + kindname, "%r for record %s tags %s" % (k[:60], tail[:12], json.dumps(events[tail]["tags"], default=repr)[:120])))
    for k in sorted(required - actual)[:5]:
        kindname = {1: "created", 2: "kind", 3: "author", 4: "authorkind", 9: "tag"}.get(k[0], "?")
        problems.append(("record-without-entry/" + kindname, "%r missing for record %s" % (k[:60], k[-32:].hex()[:12])))
    if b"\xee" not in keys:
        problems.append(("sentinel-missing", "0xee"))
    return problems


async def run_history(ops, counters, inject, seed):
    rig = R.Rig(backend="lmdb", config={"analysis_delay": 0})
    rig.load_config()
    from nostr_relay.storage import kv

    plan_ = faults.install_lmdb()
    plan_.reset()
    await rig.start()
    viols, nontrivial = [], []
    walks = counters.setdefault("walks", {})
    r = random.Random(seed)
    try:
        rig.gc = kv.KVGarbageCollector(rig.storage)
        clock = hist.Clock(NOW).install(kv)
        last = [None]
        hist_json = [o.to_json() for o in ops]

        def examine(d, where, i):
            canon = dump.lmdb_canonical(d)
            counters["records_checked"] = counters.get("records_checked", 0) + len(d["events"])
            walks[where] = walks.get(where, 0) + 1
            if canon != last[0] and d["events"]:
                nontrivial.append(h(canon))
            last[0] = canon
            for kind, msg in check_keyspace(d):
                viols.append({"key": "%s%s" % (kind, "/after-injected-error" if plan_.fired else ""),
                              "msg": "[lmdb] %s snapshot after op %d (%s): %s" % (where, i, ops[i].label if i < len(ops) else "?", msg),
                              "replay": {"ops": hist_json[: i + 1], "inject": inject, "seed": seed}})

        def judge(i, st, prev, cur, logs):
            counters["ops"] = counters.get("ops", 0) + 1
            examine(cur, "quiescent", i)
            for inj in injections:
                if i == inj["before_op"]:
                    counters["injected_errors_fired"] = counters.get("injected_errors_fired", 0) + plan_.fired
                    plan_.disarm()
            for inj in injections:
                if i == inj["before_op"] - 1:
                    plan_.arm(inj["ordinal"], "error")

        injections = inject if isinstance(inject, list) else ([inject] if inject else [])
        for inj in injections:
            if inj["before_op"] == 0:
                plan_.arm(inj["ordinal"], "error")
        peer_at = {r.randrange(len(ops)) for _ in range(2)} if seed % 2 == 0 and ops else set()

        async def after(i, st, prev, cur):
            # every access path agrees with the keyspace: the lookup by id behind GET /e/<id> and the notifier
            pe, ce = prev["events"], cur["events"]
            sample = list(ce)[-4:] + [x for x in pe if x not in ce][:4]
            for eid in sample:
                try:
                    got = await rig.storage.get_event(eid)
                except Exception as e:
                    got = e
                counters["get_event_checks"] = counters.get("get_event_checks", 0) + 1
                if (eid in ce) != (got is not None and not isinstance(got, Exception)):
                    viols.append({"key": "get_event-disagrees/%s" % ("missing" if eid in ce else "stale"),
                                  "msg": "[lmdb] after op %d the record %s is %s but get_event() returns %r" % (i, eid[:12], "present" if eid in ce else "gone", type(got).__name__ if got is not None else None),
                                  "replay": {"ops": hist_json[: i + 1], "inject": inject, "seed": seed}})
            if i in peer_at:
                # another process works on the same environment and leaves again
                import subprocess
                import sys as _s
                import os as _os

                p = await asyncio.get_running_loop().run_in_executor(None, lambda: subprocess.run(
                    [_s.executable, "-m", "vf.lmdbpeer", rig.config_path], cwd=_os.path.dirname(_os.path.dirname(_os.path.dirname(_os.path.abspath(__file__)))),
                    env=dict(_os.environ, PYTHONPATH=_os.path.dirname(_os.path.dirname(_os.path.dirname(_os.path.abspath(__file__))))), stdout=subprocess.PIPE, stderr=subprocess.PIPE, timeout=120))
                if p.returncode == 0:
                    counters["peer_processes"] = counters.get("peer_processes", 0) + 1
                    d2 = dump.dump(rig)
                    examine(d2, "after-peer-process", i)
                    if dump.lmdb_canonical(d2) != dump.lmdb_canonical(cur):
                        viols.append({"key": "peer-process-changed-store", "msg": "[lmdb] a second process that only opened, queried and closed the environment changed its content",
                                      "replay": {"ops": hist_json[: i + 1], "inject": inject, "seed": seed}})
                else:
                    counters["peer_process_failed"] = counters.get("peer_process_failed", 0) + 1
                    counters["peer_process_error"] = p.stderr.decode("utf-8", "replace")[-300:]

        await hist.drive(rig, ops, judge, clock=clock, after=after)
        plan_.disarm()
        # burst: resubmit-free stream of fresh events without waiting, walking concurrently
        keys = [ref.key_from_seed("c10-b%d" % i) for i in range(2)]
        conn = rig.connect("burst")
        burst = [e for e in (rnd_event(r, keys, 5000 + j) for j in range(40)) if e]
        # big records + a tiny thread switch interval: the loop thread (admission) and the writer
        # thread (storing) work on events at the same time
        import sys as _sys

        for j in range(12):
            big = ref.make_event(r.choice(keys), kind=1, created_at=NOW - 300 + j, tags=[["t", "b%d-%d" % (j, x)] for x in range(250)], content="big%d" % j)
            burst.insert(r.randrange(len(burst) + 1), big)
        old_si = _sys.getswitchinterval()
        _sys.setswitchinterval(1e-6)
        for e in burst:
            conn.feed(["EVENT", e])
        for _ in range(12):
            await asyncio.sleep(r.choice([0, 0.001, 0.003]))
            examine(dump.dump(rig), "concurrent", len(ops) - 1)
        await rig.quiesce()
        _sys.setswitchinterval(old_si)
        final = dump.dump(rig)
        examine(final, "quiescent", len(ops) - 1)
        # every record must BE the event it is filed under (a torn encode would still be indexed)
        for e in burst:
            rec = final["events"].get(e["id"])
            if rec is not None and (rec["content"] != e["content"] or len(rec["tags"]) != len(e["tags"])):
                viols.append({"key": "record-is-not-the-event", "msg": "[lmdb] record %s does not hold the event that was stored under it" % e["id"][:12],
                              "replay": {"ops": hist_json, "inject": inject, "seed": seed}})
    finally:
        await rig.close()
    return viols, nontrivial


async def run_many(histories, counters):
    viols, nontrivial = [], []
    for ops, inject, seed in histories:
        v, nt = await run_history(ops, counters, inject, seed)
        viols.extend(v)
        nontrivial.extend(nt)
    return viols, nontrivial


def run_shard(spec):
    if spec.get("mode") == "e2e":
        from .. import e2e_cases

        return e2e_cases.run_e2e_shard(ID, spec)
    r = random.Random(spec["case_seed"])
    counters = {}
    histories = []
    for i in range(spec["histories"]):
        ops = gen_history(r)
        inject = None
        if i % 3 != 2:
            removing = [j for j, o in enumerate(ops) if o.label in ("replace", "delete-by-author", "delete_event")]
            targets = sorted(set(r.sample(removing, min(len(removing), 4)) + [r.randrange(len(ops))]))
            # keep them apart (arming happens right after the previous operation)
            targets = [t for k, t in enumerate(targets) if k == 0 or t - targets[k - 1] > 1]
            inject = [{"before_op": t, "ordinal": r.choice(list(range(0, 20)) + [22, 26, 30])} for t in targets]
        histories.append((ops, inject, spec["case_seed"] * 100 + i))
    viols, nontrivial = R.run(run_many, histories, counters)
    seen, out = {}, []
    for v in viols:
        seen[v["key"]] = seen.get(v["key"], 0) + 1
        if seen[v["key"]] <= 1:
            out.append(v)
    counters["violations_by_key"] = seen
    labels = {}
    for ops, _, _ in histories:
        for o in ops:
            labels[o.label] = labels.get(o.label, 0) + 1
    return {"evaluations": sum(counters.get("walks", {}).values()), "nontrivial": sorted(set(nontrivial)), "counters": counters,
            "coverage": {"operations": labels, "histories_with_injected_error": sum(1 for _, i, _ in histories if i), "injections_planned": sum(len(i) for _, i, _ in histories if i)}, "violations": out,
            "samples": [{"ops": [(o.label, (o.raw or {}).get("kind") if isinstance(o.raw, dict) else o.arg) for o in histories[0][0][:15]], "inject": histories[0][1]}],
            "inconclusive": []}


def replay(rp, spec):
    if rp.get("mode") == "e2e":
        from .. import e2e_cases

        return e2e_cases.run_e2e_shard(ID, rp)
    counters = {}
    ops = [hist.Step.from_json(o) for o in rp["ops"]]
    v, nt = R.run(run_history, ops, counters, rp.get("inject"), rp.get("seed", 0))
    return {"evaluations": 1, "nontrivial": nt, "counters": counters, "violations": v, "samples": [], "inconclusive": []}
