"""
C11 - query answers are unaffected by unrelated data and monotone in the filter.

Metamorphic monitor over pairs of real executions on the same connection:
 (add)     Q(S + N, f) == Q(S, f) for neighbours N that definitely do not match f
 (remove)  after their authors delete those neighbours again the answer is still the same
 (and)     Q(S, f and c) is a subset of Q(S, f);  a shrunken window never adds results
 (union)   Q(S, f[v1..vn]) == union of Q(S, f[vi]) when no limit truncates
The reference matcher is used only to certify that a neighbour does not match.
"""
import json
import time as _time

from .. import rig as R, ref, gen, qcore, dump
from ..orch import h
from .c02 import filter_features

ID = "C11"
TECHNIQUE = "runtime monitoring - metamorphic monitor over pairs of real query executions: adding / deleting certified non-matching neighbours, adding a condition, shrinking the window, splitting multi-value conditions; neighbours generated at the scanners' key boundaries"
LEVEL = "exploration"
RULE = (
    "cases = (backend, seeded base store of 30-70 events, base filter of 1-3 well-formed conditions, relation). "
    "Neighbours are generated at the scanner's boundaries: kind +-1 / +256 / +65536, tag values extending or "
    "prefixing the requested value (v+NUL, v+'a', v+U+00FF, v[:-1], NUL+v), the same value under a neighbouring tag "
    "name, pubkeys and ids mined to share the first byte with a requested one, timestamps one second outside the "
    "window and equal to a matching event's, created_at 2^32-1 and kind 2^32-1 (index-prefix boundaries). Stores contain "
    "post-dated events (created_at ahead of the relay's clock); an open window is compared with a far-future 'until'; tag "
    "conditions are also asked with values that match nothing / cannot be index keys (lone surrogates) mixed in. "
    "Non-trivial = the base answer is non-empty and (for add/remove) at least one certified non-matching neighbour was "
    "stored, (for and/union) the related query was issued. Distinct = distinct (backend, relation, store seed, filter)."
)
ASSUMPTIONS = [
    "LMDB backend over /verif/shim (real liblmdb via ctypes, pure-python msgpack); SQL = SQLite",
    "stores stay far below max_limit so no limit truncates; neighbours use regular kinds only so they supersede nothing",
]
MIN_NONTRIVIAL = {"quick": 400, "thorough": 4000}
REQUIRED_COUNTERS = ["pairs.add", "pairs.remove", "pairs.and", "pairs.window", "pairs.union", "pairs.add-under-low-max_limit"]
SHARD_TIMEOUT = {"quick": 500, "thorough": 3000}
REGULAR_OK = lambda k: (0 <= k < 2 ** 32) and k not in (0, 3, 5) and not (10000 <= k < 40000)  # noqa: E731


def plan(tier, seed):
    n, stores, bases = (6, 2, 45) if tier == "quick" else (24, 5, 120)
    return [{"backend": b, "case_seed": seed * 100003 + i * 7919, "stores": stores, "bases": bases}
            for b in ("sql", "lmdb") for i in range(n)] + \
           [{"backend": b, "mode": "lowcap", "case_seed": seed * 7919, "n": 2 if tier == "quick" else 8} for b in ("sql", "lmdb")]


def neighbours(u, f, answer_events):
    """candidate neighbour events for filter f (not yet certified)"""
    r = u.rng
    out = []
    base_kind = (f.get("kinds") or [1])[0]
    base_key = u.keys[3]
    ts_in = None
    if answer_events:
        ts_in = r.choice(answer_events)["created_at"]
    else:
        ts_in = f.get("since", gen.T0) + 1

    def ev(**kw):
        kw.setdefault("key", base_key)
        kw.setdefault("kind", base_kind if REGULAR_OK(base_kind) else 1)
        kw.setdefault("created_at", ts_in)
        kw.setdefault("tags", [])
        try:
            out.append(u.event(**kw))
        except Exception:
            pass

    for k in f.get("kinds", []):
        for nk in (k - 1, k + 1, k + 256, k + 65536, k + 2 ** 24, 2 ** 32 - 1):
            if REGULAR_OK(nk):
                tags = []
                for name, vals in ref.tag_conditions(f):
                    if isinstance(vals, list) and vals:
                        tags.append([name, vals[0]])
                key = base_key
                if f.get("authors"):
                    key = next((x for x in u.keys if x.pk == f["authors"][0]), base_key)
                ev(kind=nk, tags=tags, key=key)
    for name, vals in ref.tag_conditions(f):
        for v in vals[:2]:
            for nv in (v + "\x00", v + "a", v + "ÿ", v[:-1] if v else "\x00", "\x00" + v, v + "\x00" + v, v.upper() if v.upper() != v else v + "A"):
                ev(tags=[[name, nv]])
            for nn in (chr(min(0x10FFFF, ord(name) + 1)) if not 0xD7FF <= ord(name) < 0xDFFF else "\ue000", chr(max(1, ord(name) - 1)) if not 0xD800 < ord(name) <= 0xE000 else "\ud7ff", name + name):
                ev(tags=[[nn, v]])
            ev(tags=[[name], ["x", v]])
            # the same look-alike values, but created outside the filter's time window
            for bound, dt in (("since", -1), ("since", -300), ("until", 1), ("until", 300)):
                if bound in f:
                    for nv in (v + "\x00", v + "\x00d\x01", v + "\x00" + v, v + "a"):
                        ev(tags=[[name, nv]], created_at=max(1, f[bound] + dt))
    for pk in f.get("authors", [])[:2]:
        for salt in ("n1", "n2"):
            ev(key=ref.mined_key(pk[:2], salt))
    for i in f.get("ids", [])[:2]:
        ev(id_prefix=i[:2])
        ev(id_prefix=i[:2], created_at=ts_in + 1)
    if "since" in f:
        ev(created_at=f["since"] - 1)
        ev(created_at=max(1, f["since"] - 256))
    if "until" in f:
        ev(created_at=f["until"] + 1)
        ev(created_at=f["until"] + 256)
        ev(created_at=2 ** 32 - 1)
    if not ("since" in f or "until" in f) and r.random() < 0.3:
        # same timestamp, ids just below/above in byte order
        ev(id_prefix="00", kind=base_kind + 1 if REGULAR_OK(base_kind + 1) else 41000)
        ev(id_prefix="ff", kind=base_kind + 1 if REGULAR_OK(base_kind + 1) else 41000)
    return out


def known_events(log):
    return [e for e in log if isinstance(e, dict)]


async def ask(rig, conn, f, counters):
    ans = await qcore.run_req(rig, conn, [f])
    counters["reqs"] = counters.get("reqs", 0) + 1
    if not ans["eose"]:
        return None
    return {e["id"] for e in ans["events"] if isinstance(e, dict) and "id" in e}


def _has_surrogate(f):
    try:
        json.dumps(f, ensure_ascii=False).encode("utf-8")
        return False
    except UnicodeEncodeError:
        return True


async def ask_any(rig, conn, f, counters):
    """over the websocket when the filter can travel in a text frame the relay's parser takes; else
    (lone surrogates: python-rapidjson refuses the frame, the stdlib fallback parser would not) through
    the storage's own query entry point, as the relay's command line does"""
    if not _has_surrogate(f):
        return await ask(rig, conn, f, counters)
    from .. import env

    counters["direct_queries"] = counters.get("direct_queries", 0) + 1
    env.LOGTAP.take()
    try:
        got = {e.id async for e in rig.storage.run_single_query([json.loads(json.dumps(f))])}
    except Exception as e:
        got = None
    if got is None or any(l.get("exc") for l in env.LOGTAP.take()):
        # the query FAILED (SQLite cannot bind a lone surrogate; the error is logged and swallowed): no answer to compare
        counters["direct_query_errors"] = counters.get("direct_query_errors", 0) + 1
        return None
    return got


async def run_store(backend, store_seed, nbases, counters, coverage, explicit=None):
    rig = R.Rig(backend=backend, config={"analysis_delay": 0})
    await rig.start()
    viols, nontrivial, samples = [], [], []
    pairs = counters.setdefault("pairs", {})

    def bump(rel):
        pairs[rel] = pairs.get(rel, 0) + 1

    try:
        conn = rig.connect()
        u = gen.Universe(store_seed)
        events = list(explicit["events"]) if explicit else u.store(u.rng.randint(30, 70))
        if not explicit:
            # post-dated copies of some events: created_at ahead of the relay's wall clock
            now = int(_time.time())
            for e in u.rng.sample(events, min(4, len(events))):
                if REGULAR_OK(e["kind"]):
                    key = next((x for x in u.keys if x.pk == e["pubkey"]), None)
                    if key is not None:
                        events.append(ref.make_event(key, kind=e["kind"], created_at=now + u.rng.choice([3600, 86400, 86400 * 400]), tags=e["tags"], content="post-dated"))
                        counters["post_dated_events"] = counters.get("post_dated_events", 0) + 1
        edge_bases = []
        if not explicit:
            # the two ENDS of the tag index: a tag name that sorts below every other stored name and one that sorts above
            # them all, each with a short value and one long enough to be keyed by its digest - scans of these conditions
            # run off the edge of the tag index into the neighbouring index / the end sentinel
            for name in ("\x01", "\U0010ffff"):
                k = u.rng.choice(u.keys)
                for val in ("b", "m" * 300, "a"):
                    events.append(ref.make_event(k, kind=1, created_at=gen.T0 + u.rng.choice([0, 1, 256]), tags=[[name, val]], content="edge %r %d" % (name, len(val))))
                edge_bases.append({"#" + name: u.rng.choice([["b", "m" * 300], ["m" * 300, "b"], ["a", "m" * 300, "b"]])})
                edge_bases.append({"#" + name: ["a", "b"], "kinds": [1]})
            counters["edge_name_cases"] = counters.get("edge_name_cases", 0) + len(edge_bases)
        await qcore.load_store(rig, conn, events)
        log = list(events)
        stored = dump.stored_events(dump.dump(rig))
        if explicit:
            bases = [explicit["filter"]]
        else:
            bases = edge_bases + [u.wellformed_filter(list(stored.values()), max_conds=u.rng.choice([1, 2, 2, 3])) for _ in range(nbases)]

        def viol(key, msg, f, extra=None):
            rp = {"backend": backend, "events": list(log), "filter": f}
            if extra:
                rp.update(extra)
            viols.append({"key": "%s/%s" % (backend, key), "msg": msg, "replay": rp})

        for f in bases:
            a0 = await ask(rig, conn, f, counters)
            if a0 is None:
                continue
            feat = filter_features(f)
            # ---- and / window (subset) --------------------------------------------------
            other = u.wellformed_filter(list(stored.values()), max_conds=1)
            extra = {k: v for k, v in other.items() if k not in f}
            if extra:
                f2 = dict(f, **extra)
                a2 = await ask(rig, conn, f2, counters)
                bump("and")
                if a2 is not None and not a2 <= a0:
                    viol("monotone/and", "Q(%s) returned %d events not in Q(%s)" % (json.dumps(f2)[:250], len(a2 - a0), json.dumps(f)[:250]), f,
                         {"related": f2})
                if a0:
                    nontrivial.append(h([backend, "and", store_seed, f, f2]))
            # the same filter narrowed to the events created exactly at its bounds: served by
            # another plan (ids), it must not return anything the wider filter does not
            bounds = [f[k] for k in ("since", "until") if k in f]
            at_bound = sorted(e["id"] for e in known_events(log) if e["created_at"] in bounds)[-6:]
            if at_bound and "ids" not in f:
                fb = dict(f, ids=at_bound)
                ab = await ask(rig, conn, fb, counters)
                bump("and")
                if ab is not None and not ab <= a0:
                    viol("monotone/and/ids-at-bound", "Q(%s) returned %d events not in Q(%s)" % (json.dumps(fb)[:250], len(ab - a0), json.dumps(f)[:250]), f, {"related": fb})
                if ab:
                    nontrivial.append(h([backend, "and-bound", store_seed, f]))
            f3 = dict(f)
            if "since" in f3:
                f3["since"] += u.rng.choice([1, 2, 255, 256])
            elif "until" in f3:
                f3["until"] -= u.rng.choice([1, 2, 255, 256])
            else:
                f3["since"] = u.rng.choice(gen.TS_GRID)
            a3 = await ask(rig, conn, f3, counters)
            bump("window")
            if a3 is not None and not a3 <= a0:
                viol("monotone/window", "shrunken window %s returned %d events not in Q(%s)" % (json.dumps(f3)[:250], len(a3 - a0), json.dumps(f)[:250]),
                     f, {"related": f3})
            if "until" not in f:
                # an explicit upper bound far in the future is a shrunken window as well
                f5 = dict(f, until=u.rng.choice([2 ** 32 - 1, 2 ** 31 - 1, int(_time.time()) + 86400 * 800]))
                a5 = await ask(rig, conn, f5, counters)
                bump("window")
                if a5 is not None and not a5 <= a0:
                    viol("monotone/window/open-vs-far-until", "%s returned %d events that the same filter without 'until' does not return (created_at %s)"
                         % (json.dumps(f5)[:250], len(a5 - a0), sorted({e["created_at"] for e in known_events(log) if e["id"] in a5 - a0})[:3]), f, {"related": f5})
            if a0:
                nontrivial.append(h([backend, "window", store_seed, f, f3]))
            # ---- union ------------------------------------------------------------------
            multi = [k for k, v in f.items() if isinstance(v, list) and len(set(v)) > 1]
            tagk = [k for k, v in f.items() if k.startswith("#") and isinstance(v, list) and v]
            if tagk and a0 and u.rng.random() < 0.5:
                # values that match nothing on their own (some cannot even be turned into an index key:
                # half of a surrogate pair, as cut-off emoji arrive from JavaScript clients) among the others
                k = u.rng.choice(tagk)
                odd = u.rng.sample(["\ud83d", "\U0001f600x", "\ue000", "\udc00z", "\uffff", "zz\ud83d", "\x00"], 3)
                vals = list(f[k]) + odd
                u.rng.shuffle(vals)
                fm = dict(f, **{k: vals})
                am = await ask_any(rig, conn, fm, counters)
                bump("union")
                counters["union_with_unmatchable_values"] = counters.get("union_with_unmatchable_values", 0) + (am is not None)
                if am is not None:
                    parts, okp = set(), True
                    for v in vals:
                        ai = await ask_any(rig, conn, dict(f, **{k: [v]}), counters)
                        if ai is not None:
                            parts |= ai
                    nontrivial.append(h([backend, "union-odd", store_seed, f, k]))
                    if not (a0 <= am) or parts != am:
                        viol("union/tag/with-unmatchable-value",
                             "Q(%s) has %d events; the same filter without the values %s has %d; union over its single values has %d"
                             % (json.dumps(fm)[:250], len(am), json.dumps(odd), len(a0), len(parts)), f, {"related": fm})
            if multi:
                k = u.rng.choice(multi)
                parts = set()
                ok = True
                for v in sorted(set(f[k]), key=repr):
                    ai = await ask(rig, conn, dict(f, **{k: [v]}), counters)
                    if ai is None:
                        ok = False
                        break
                    parts |= ai
                bump("union")
                if ok and parts != a0:
                    viol("union/%s" % ("tag" if k.startswith("#") else k),
                         "Q(%s) has %d events; union over single values of %s has %d (only-multi %d, only-parts %d)"
                         % (json.dumps(f)[:250], len(a0), k, len(parts), len(a0 - parts), len(parts - a0)), f, {"split": k})
                if a0:
                    nontrivial.append(h([backend, "union", store_seed, f, k]))
            # ---- add unrelated ---------------------------------------------------------------
            known = {e["id"]: e for e in log}
            if explicit:
                cands = explicit.get("neighbours", [])
            else:
                cands = neighbours(u, f, [known[i] for i in a0 if i in known])
            certified = [e for e in cands if ref.match3(e, f) == ref.NO and e["id"] not in known]
            before_add = list(log)
            if certified:
                acks = await qcore.load_store(rig, conn, certified)
                added = [e for e in certified if acks.get(e["id"], (None,))[0] is True]
                log.extend(added)
                counters["neighbours_stored"] = counters.get("neighbours_stored", 0) + len(added)
                a1 = await ask(rig, conn, f, counters)
                bump("add")
                if added and a0:
                    nontrivial.append(h([backend, "add", store_seed, f]))
                if a1 is not None and a1 != a0:
                    lost, gained = a0 - a1, a1 - a0
                    viol("unrelated-add/%s/%s" % ("lost" if lost else "gained", feat),
                         "after adding %d non-matching neighbours Q(%s) lost %d and gained %d events (e.g. %s)"
                         % (len(added), json.dumps(f)[:250], len(lost), len(gained), sorted(lost | gained)[0][:12]), f,
                         {"neighbours": added, "events": before_add})
                    if len(samples) < 1:
                        samples.append({"backend": backend, "filter": f, "neighbours": [[e["kind"], e["tags"], e["created_at"]] for e in added][:6]})
                # ---- remove them again (author deletion) -----------------------------------
                by_author = {}
                for e in added:
                    by_author.setdefault(e["pubkey"], []).append(e["id"])
                dels = []
                for pk, ids in ([] if explicit else by_author.items()):
                    key = next((x for x in u.keys if x.pk == pk), None) or ref._MINED_BY_PK.get(pk)
                    if key is None:
                        continue
                    d = ref.make_event(key, kind=5, created_at=max(e["created_at"] for e in added if e["pubkey"] == pk) + 5,
                                       tags=[["e", i] for i in ids], content="del")
                    if ref.match3(d, f) == ref.NO and d["created_at"] < 2 ** 32:
                        dels.append(d)
                if explicit:
                    dels = explicit.get("deletions", [])
                if dels and a1 is not None:
                    await qcore.load_store(rig, conn, dels)
                    log.extend(dels)
                    a4 = await ask(rig, conn, f, counters)
                    bump("remove")
                    if a0:
                        nontrivial.append(h([backend, "remove", store_seed, f]))
                    if a4 is not None and a4 != a1:
                        lost, gained = a1 - a4, a4 - a1
                        viol("unrelated-remove/%s/%s" % ("lost" if lost else "gained", feat),
                             "after deleting non-matching neighbours Q(%s) lost %d and gained %d events" % (json.dumps(f)[:250], len(lost), len(gained)),
                             f, {"neighbours": added, "deletions": dels, "events": before_add})
            if len(samples) < 2 and a0:
                samples.append({"backend": backend, "filter": f, "base_answer": len(a0)})
    finally:
        await rig.close()
    return viols, nontrivial, samples


async def run_lowcap(backend, counters, seed):
    """a relay configured with a small max_limit (40): many neighbours that share a requested tag value / author /
    kind but fail another condition of the filter must not push matching events out of the answer"""
    import random

    r = random.Random(seed)
    rig = R.Rig(backend=backend, config={"analysis_delay": 0, "max_limit": 40})
    await rig.start()
    viols, nontrivial = [], []
    pairs = counters.setdefault("pairs", {})
    try:
        conn = rig.connect()
        for case in range(6):
            keys = [ref.key_from_seed("c11-low-%d-%d-%d" % (seed, case, i)) for i in range(3)]  # nothing is shared between cases
            name, val = r.choice(["t", "e", "p"]), "topic-%d-%d" % (seed, case)
            kind_m, kind_n = r.choice([(1, 7), (7, 1), (1, 40000)])
            shape = r.choice(["kinds+tag", "authors+tag", "kinds+authors", "tag+tag"])
            nmatch = r.randint(2, 8)
            match = [ref.make_event(keys[0], kind=kind_m, created_at=gen.T0 + 10 * i, tags=[[name, val], ["g", "keep"]], content="m %d %d %d" % (seed, case, i)) for i in range(nmatch)]
            if shape == "kinds+tag":
                f = {"kinds": [kind_m], "#" + name: [val]}
                neigh = lambda i: ref.make_event(keys[i % 3], kind=kind_n, created_at=gen.T0 + 5 + i, tags=[[name, val]], content="n %d %d %d" % (seed, case, i))  # noqa: E731
            elif shape == "authors+tag":
                f = {"authors": [keys[0].pk], "#" + name: [val]}
                neigh = lambda i: ref.make_event(keys[1 + i % 2], kind=kind_m, created_at=gen.T0 + 5 + i, tags=[[name, val]], content="n %d %d %d" % (seed, case, i))  # noqa: E731
            elif shape == "kinds+authors":
                f = {"kinds": [kind_m], "authors": [keys[0].pk]}
                neigh = lambda i: ref.make_event(keys[0], kind=kind_n, created_at=gen.T0 + 5 + i, tags=[[name, val]], content="n %d %d %d" % (seed, case, i))  # noqa: E731
            else:
                f = {"#" + name: [val], "#g": ["keep"]}
                neigh = lambda i: ref.make_event(keys[i % 3], kind=kind_m, created_at=gen.T0 + 5 + i, tags=[[name, val], ["g", "other"]], content="n %d %d %d" % (seed, case, i))  # noqa: E731
            neighbours = [neigh(i) for i in range(r.choice([45, 60, 90]))]
            neighbours = [e for e in neighbours if ref.match3(e, f) == ref.NO]
            if case % 2 == 0:
                await qcore.load_store(rig, conn, match)
                a0 = await ask(rig, conn, f, counters)
                await qcore.load_store(rig, conn, neighbours)
            else:
                # the neighbours were there first: the answer is what a store holding only the matching events gives
                await qcore.load_store(rig, conn, neighbours)
                await qcore.load_store(rig, conn, match)
                a0 = {e["id"] for e in match} if all(ref.match3(e, f) == ref.MUST for e in match) else None
            a1 = await ask(rig, conn, f, counters)
            pairs["add-under-low-max_limit"] = pairs.get("add-under-low-max_limit", 0) + 1
            if a0 is not None and a0 == {e["id"] for e in match}:
                nontrivial.append(h([backend, "lowcap", seed, case, shape]))
            if a0 is not None and a1 is not None and a1 != a0:
                viols.append({"key": "%s/unrelated-add/%s/max_limit-40/%s" % (backend, "lost" if a0 - a1 else "gained", shape),
                              "msg": "[max_limit 40] after adding %d non-matching neighbours Q(%s) went from %d to %d events (the filter has %d matches, far below the limit)"
                                     % (len(neighbours), json.dumps(f)[:200], len(a0), len(a1), nmatch),
                              "replay": {"backend": backend, "mode": "lowcap", "seed": seed}})
    finally:
        await rig.close()
    return viols, nontrivial


def _dedup(viols, cap=2):
    seen, out = {}, []
    for v in viols:
        n = seen.get(v["key"], 0)
        seen[v["key"]] = n + 1
        if n < cap:
            out.append(v)
    return out, seen


def run_shard(spec):
    counters, coverage = {}, {"backends": {spec["backend"]: 1}}
    viols, nontrivial, samples = [], [], []
    if spec.get("mode") == "lowcap":
        # own process: the relay captures max_limit when its storage module is first imported
        for j in range(spec["n"]):
            v, nt = R.run(run_lowcap, spec["backend"], counters, spec["case_seed"] + j)
            viols.extend(v)
            nontrivial.extend(nt)
        viols, seen = _dedup(viols)
        counters["violations_by_key"] = seen
        return {"evaluations": sum(counters.get("pairs", {}).values()), "nontrivial": sorted(set(nontrivial)), "counters": counters, "coverage": coverage,
                "violations": viols, "samples": [], "inconclusive": []}
    for s in range(spec["stores"]):
        v, nt, sm = R.run(run_store, spec["backend"], spec["case_seed"] * 31 + s, spec["bases"], counters, coverage)
        viols.extend(v)
        nontrivial.extend(nt)
        samples.extend(sm)
    viols, seen = _dedup(viols)
    counters["violations_by_key"] = seen
    return {"evaluations": sum(counters.get("pairs", {}).values()), "nontrivial": sorted(set(nontrivial)), "counters": counters,
            "coverage": coverage, "violations": viols, "samples": samples[:2], "inconclusive": []}


def replay(rp, spec):
    """replays the recorded event log up to the base query, then the full relation set"""
    counters, coverage = {}, {}
    if rp.get("mode") == "lowcap":
        v, nt = R.run(run_lowcap, rp["backend"], counters, rp["seed"])
        return {"evaluations": 1, "nontrivial": nt, "counters": counters, "coverage": coverage, "violations": v, "samples": [], "inconclusive": []}
    v, nt, sm = R.run(run_store, rp["backend"], 12345, 1, counters, coverage, rp)
    v, seen = _dedup(v, cap=50)
    return {"evaluations": 1, "nontrivial": nt, "counters": counters, "coverage": coverage, "violations": v,
            "samples": sm, "inconclusive": []}
