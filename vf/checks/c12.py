"""
C12 - a limit returns the newest matching events, never more than min(n, max_limit).

Oracle over each REQ's ordered answer and a dump of the store at quiescence: (cap) the
number of stored events sent for a filter is <= min(limit, max_limit) with limit 0 meaning
none; (recency) no stored event that MUST-match the filter and was left out is strictly
newer than one that was sent for it; (no needless truncation) if the possibly-matching
events fit the limit, every MUST-matching one is sent.  Multi-filter REQs: only events
matching exactly one filter are attributed to it.
"""
import json
import time as _time

from .. import rig as R, ref, gen, qcore, dump
from ..orch import h
from .c02 import filter_features

ID = "C12"
TECHNIQUE = 'runtime monitoring - limit oracle over ordered answers and store dumps: cap per filter and per REQ, recency (no omitted event newer than a sent one), no truncation when matches fit; max_limit values in separate processes, purple import order'
LEVEL = "exploration"
RULE = (
    "cases = (backend, max_limit in {7, 25} - one worker process per value because the relay captures it at import "
    "time -, seeded store of 30-90 events concentrated on few kinds/authors/tag values so that filters have more, "
    "exactly as many and fewer matches than their limit, REQ of 1-5 well-formed filters with limit in "
    "{absent,0,1,2,cap-1,cap,cap+1,1e9}; stores include post-dated events (ahead of the relay's clock), some filters carry "
    "an empty value list beside usable conditions); one shard per backend imports the purple server module before the "
    "configuration is loaded, as a purple worker does). Non-trivial = some filter of the REQ has more possibly-matching stored events "
    "than its effective limit (truncation really had to happen) or exactly/one fewer than the limit. Distinct = distinct "
    "(backend, max_limit, store seed, canonical filter list)."
)
ASSUMPTIONS = [
    "LMDB backend over /verif/shim (real liblmdb via ctypes, pure-python msgpack); SQL = SQLite",
    "limit 0 means 'no stored events' (NIP-01); a missing limit means max_limit",
    "for REQs with several filters only events matching exactly one filter are attributed (conservative)",
]
MIN_NONTRIVIAL = {"quick": 300, "thorough": 3000}
REQUIRED_COUNTERS = ["reqs_with_repeated_filter", "reqs_truncating", "cap_checks", "recency_checks", "post_dated_events", "filters_with_empty_condition", "purple_imported_before_config", "default_cap_reqs"]
SHARD_TIMEOUT = {"quick": 500, "thorough": 3000}


def plan(tier, seed):
    shards = []
    n, stores, reqs = (4, 2, 120) if tier == "quick" else (32, 8, 400)
    for backend in ("sql", "lmdb"):
        for cap in (7, 25):
            for i in range(n):
                shards.append({"backend": backend, "max_limit": cap, "case_seed": seed * 100003 + i * 7919 + cap,
                               "stores": stores, "reqs": reqs})
    for backend in ("sql", "lmdb"):
        shards.append({"backend": backend, "max_limit": 7, "case_seed": seed * 100003 + 77, "stores": 1, "reqs": 60, "purple_first": True})
        shards.append({"backend": backend, "max_limit": "default", "mode": "default-cap", "case_seed": seed})
    return shards


def eff_limit(f, cap):
    if "limit" not in f or f["limit"] is None:
        return cap
    return min(f["limit"], cap)


def limit_class(f, cap):
    if "limit" not in f:
        return "absent"
    n = f["limit"]
    if n == 0:
        return "0"
    if n > cap:
        return ">cap"
    return "<=cap"


def multi_value(f):
    return any(isinstance(v, list) and len(set(map(str, v))) > 1 for v in f.values())


def judge(backend, cap, filters, delivered, stored, plans, counters):
    viols = []
    nontrivial = False
    verdicts = []
    for f in filters:
        verdicts.append({eid: ref.match3(ev, f) for eid, ev in stored.items()})
    single = len(filters) == 1
    plan_name = "+".join(sorted(set(p.split("(")[0] for p in plans))) if backend == "lmdb" else ""
    canon = [json.dumps(f, sort_keys=True) for f in filters]
    for i, f in enumerate(filters):
        if canon.index(canon[i]) != i:
            continue  # a repetition of an earlier filter of this REQ: judged with it
        vd = verdicts[i]
        may = [e for e, v in vd.items() if v in (ref.MUST, ref.MAY)]
        must = [e for e, v in vd.items() if v == ref.MUST]
        same = {j for j in range(len(filters)) if canon[j] == canon[i]}

        def only_this(eid):
            return all(j in same or verdicts[j].get(eid) == ref.NO for j in range(len(filters)))

        attributed = [ev for ev in delivered if isinstance(ev, dict) and ev.get("id") in stored
                      and vd.get(ev["id"]) in (ref.MUST, ref.MAY) and (len(same) == len(filters) or only_this(ev["id"]))]
        if len(same) > 1:
            # equal filters have equal answers: however often each event is sent, the DISTINCT events sent for them
            # are bounded by the limit of one of them
            seen_ids, distinct = set(), []
            for ev in attributed:
                if ev["id"] not in seen_ids:
                    seen_ids.add(ev["id"])
                    distinct.append(ev)
            attributed = distinct
        eff = eff_limit(f, cap)
        if len(may) > eff or len(may) in (eff, eff - 1):
            nontrivial = True
        if len(may) > eff:
            counters["reqs_truncating"] = counters.get("reqs_truncating", 0) + 1
        counters["cap_checks"] = counters.get("cap_checks", 0) + 1
        shape = "single" if single else ("repeated-filter" if len(same) > 1 else "multi-filter")
        if backend == "lmdb":
            comps = (1 if ("kinds" in f or "authors" in f) else 0) + (1 if any(k.startswith("#") for k in f) else 0)
            mech = "multi-index" if ("ids" not in f and comps == 2) else ("multi-value" if multi_value(f) else "single-value")
        else:
            mech = shape
        if len(attributed) > eff:
            viols.append({"key": "%s/cap/limit-%s/%s" % (backend, limit_class(f, cap), shape),
                          "msg": "filter %s (max_limit %d, effective limit %d) was sent %d stored events attributable to it alone"
                                 % (json.dumps(f)[:300], cap, eff, len(attributed))})
        sent_ids = {ev["id"] for ev in delivered if isinstance(ev, dict) and "id" in ev}
        omitted = [e for e in must if e not in sent_ids and (len(same) == len(filters) or only_this(e))]
        if attributed and omitted:
            counters["recency_checks"] = counters.get("recency_checks", 0) + 1
            oldest_sent = min(stored[ev["id"]]["created_at"] for ev in attributed)
            newer = [e for e in omitted if stored[e]["created_at"] > oldest_sent]
            if newer:
                viols.append({"key": "%s/recency/%s" % (backend, mech),
                              "msg": "filter %s (%s): omitted event %s (created_at %d) is newer than a sent one (created_at %d); sent %d of %d"
                                     % (json.dumps(f)[:300], plan_name, newer[0][:12], stored[newer[0]]["created_at"], oldest_sent,
                                        len(attributed), len(may))})
        elif not omitted:
            counters["recency_checks"] = counters.get("recency_checks", 0) + 1
        if len(may) <= eff and omitted:
            viols.append({"key": "%s/truncated/limit-%s/%s" % (backend, limit_class(f, cap), mech),
                          "msg": "filter %s has %d possibly-matching stored events (effective limit %d) yet %d must-matching ones were not sent"
                                 % (json.dumps(f)[:300], len(may), eff, len(omitted))})
    # whatever the attribution: a REQ is never sent more stored events than its filters' limits add up to
    total = sum(1 for ev in delivered if isinstance(ev, dict) and ev.get("id") in stored)
    allowed = sum(eff_limit(f, cap) for f in filters)
    counters["cap_checks"] = counters.get("cap_checks", 0) + 1
    if total > allowed:
        null = any(any(isinstance(v, list) and not v for v in f.values()) for f in filters)
        viols.append({"key": "%s/cap/total/%s%s" % (backend, "single" if single else "multi-filter", "/unmatchable-condition" if null else ""),
                      "msg": "REQ %s (max_limit %d) was sent %d stored events; its filters' effective limits add up to %d"
                             % (json.dumps(filters)[:300], cap, total, allowed)})
    return viols, nontrivial


async def run_store(backend, cap, store_seed, nreqs, counters, coverage, explicit=None, purple_first=False):
    rig = R.Rig(backend=backend, config={"analysis_delay": 0, "max_limit": cap})
    if purple_first:
        # the import order of a `serve --use-purple` worker: the server module (and with it the web and storage
        # packages) is imported BEFORE the worker reads its configuration file
        from .. import env

        env.setup_paths()
        import nostr_relay.purple  # noqa: F401

        counters["purple_imported_before_config"] = counters.get("purple_imported_before_config", 0) + 1
    await rig.start()
    from nostr_relay.storage import base

    if not purple_first:
        assert base.NostrQuery.model_fields["limit"].default == cap, "max_limit not captured"
    viols, nontrivial, samples = [], [], []
    try:
        conn = rig.connect()
        tap = qcore.StatementTap(rig).install()
        u = gen.Universe(store_seed)
        if explicit is not None:
            events = explicit["events"]
        else:
            events = []
            keys = u.keys[:3]
            for _ in range(u.rng.randint(30, 90)):
                events.append(u.event(key=u.rng.choice(keys), kind=u.rng.choice([1, 1, 1, 7, 7, 255]),
                                      created_at=gen.T0 + u.rng.randint(0, 40)))
            # a few post-dated ones (ahead of the relay's clock): they are the newest
            now = int(_time.time())
            for _ in range(3):
                events.append(u.event(key=u.rng.choice(keys), kind=u.rng.choice([1, 1, 7]), created_at=now + u.rng.choice([600, 3600, 86400 * 30])))
            # timestamps a client wrote in milliseconds, or beyond year 9999: where the backend stores them, they are the newest
            for ts in (1700000000123, 253402300800, 2 ** 53):
                events.append(u.event(key=u.rng.choice(keys), kind=u.rng.choice([1, 7]), created_at=ts))
            counters["post_dated_events"] = counters.get("post_dated_events", 0) + 6
        await qcore.load_store(rig, conn, events)
        stored = dump.stored_events(dump.dump(rig))
        counters["stores"] = counters.get("stores", 0) + 1
        if explicit is not None:
            reqs = [explicit["filters"]]
        else:
            pool = list(stored.values())
            reqs = []
            for _ in range(nreqs):
                n = 1 if u.rng.random() < 0.65 else u.rng.randint(2, 5)
                fs = []
                for _ in range(n):
                    lim = u.rng.choice([None, None, 0, 1, 2, cap - 1, cap, cap + 1, 10 ** 9, 2 ** 31 - 1, 2 ** 31, 2 ** 32, 2 ** 53 - 1, 2 ** 63 - 1])
                    f = u.wellformed_filter(pool, max_conds=u.rng.choice([1, 1, 2, 2, 3]), limit=lim)
                    f.pop("ids", None) if u.rng.random() < 0.5 else None
                    if not [k for k in f if k != "limit"]:
                        f["kinds"] = [1]
                    if u.rng.random() < 0.08:
                        # a condition without values next to usable ones: the filter matches nothing, its limit still binds
                        f[u.rng.choice([k for k in ("#e", "#p", "kinds", "authors", "ids") if k not in f] or ["#z"])] = []
                        counters["filters_with_empty_condition"] = counters.get("filters_with_empty_condition", 0) + 1
                    fs.append(f)
                if u.rng.random() < 0.12:
                    # the same filter several times in one REQ (clients that merge subscriptions send such REQs)
                    fs = [json.loads(json.dumps(fs[0])) for _ in range(u.rng.choice([2, 2, 3]))] + fs[1:2]
                    counters["reqs_with_repeated_filter"] = counters.get("reqs_with_repeated_filter", 0) + 1
                reqs.append(fs)
        for filters in reqs:
            m = tap.mark()
            ans = await qcore.run_req(rig, conn, filters)
            got = tap.since(m)
            counters["reqs"] = counters.get("reqs", 0) + 1
            for p in got["plans"]:
                coverage.setdefault("lmdb_plans", {})
                coverage["lmdb_plans"][p.split("(")[0]] = coverage["lmdb_plans"].get(p.split("(")[0], 0) + 1
            if not ans["eose"]:
                continue
            v, nt = judge(backend, cap, filters, ans["events"], stored, got["plans"], counters)
            for f in filters:
                lc = limit_class(f, cap)
                coverage.setdefault("limit_classes", {})
                coverage["limit_classes"][lc] = coverage["limit_classes"].get(lc, 0) + 1
            if nt:
                nontrivial.append(h([backend, cap, store_seed, filters]))
                if len(samples) < 2:
                    samples.append({"backend": backend, "max_limit": cap, "filters": filters,
                                    "sent": [(e["id"][:8], e["created_at"]) for e in ans["events"]][:30]})
            for x in v:
                x["replay"] = {"backend": backend, "max_limit": cap, "events": events, "filters": filters}
            viols.extend(v)
    finally:
        await rig.close()
    return viols, nontrivial, samples


async def run_default_cap(backend, counters, seed):
    """no max_limit in the configuration file: the documented default (6000) is the cap, also for limits above it"""
    rig = R.Rig(backend=backend, config={"analysis_delay": 0})
    await rig.start()
    viols, nontrivial = [], []
    try:
        from nostr_relay.config import Config

        cap = Config.max_limit
        key = ref.key_from_seed("c12-default-cap")
        conn = rig.connect("bulk")
        n = cap + 100
        for i in range(n):
            conn.feed(["EVENT", ref.make_event(key, kind=1, created_at=gen.T0 + i, content="b%d %d" % (i, seed))])
            if i % 500 == 499:
                await conn.processed(timeout=300)
        await conn.processed(timeout=300)
        await rig.quiesce(timeout=300)
        for lim in (cap + 1, cap + 1000, None, 2 ** 31, "absent"):
            f = {"kinds": [1]}
            if lim != "absent":
                f["limit"] = lim
            ans = await qcore.run_req(rig, conn, [f], timeout=120)
            counters["cap_checks"] = counters.get("cap_checks", 0) + 1
            counters["default_cap_reqs"] = counters.get("default_cap_reqs", 0) + 1
            counters["reqs"] = counters.get("reqs", 0) + 1
            nontrivial.append(h([backend, "default-cap", repr(lim)]))
            if ans["eose"] and len(ans["events"]) > cap:
                viols.append({"key": "%s/cap/default-max_limit/limit-%s" % (backend, "absent" if lim == "absent" else ("null" if lim is None else ">cap")),
                              "msg": "[%s] no max_limit configured (default %d), %d matching events stored: REQ %s was sent %d events" % (backend, cap, n, json.dumps(f), len(ans["events"])),
                              "replay": {"backend": backend, "mode": "default-cap", "seed": seed}})
    finally:
        await rig.close()
    return viols, nontrivial


def _dedup(viols, cap=2):
    seen, out = {}, []
    for v in viols:
        n = seen.get(v["key"], 0)
        seen[v["key"]] = n + 1
        if n < cap:
            out.append(v)
    return out, seen


def run_shard(spec):
    counters, coverage = {}, {"backends": {spec["backend"]: 1}, "max_limits": {str(spec["max_limit"]): 1}}
    viols, nontrivial, samples = [], [], []
    if spec.get("mode") == "default-cap":
        viols, nontrivial = R.run(run_default_cap, spec["backend"], counters, spec["case_seed"])
        return {"evaluations": counters.get("reqs", 0), "nontrivial": sorted(set(nontrivial)), "counters": counters, "coverage": coverage, "violations": viols[:3], "samples": [], "inconclusive": []}
    for s in range(spec["stores"]):
        v, nt, sm = R.run(run_store, spec["backend"], spec["max_limit"], spec["case_seed"] * 31 + s, spec["reqs"], counters, coverage, None, bool(spec.get("purple_first")))
        if spec.get("purple_first"):
            for x in v:
                x["msg"] += " [server module imported before the configuration was loaded]"
                x["replay"]["purple_first"] = True
        viols.extend(v)
        nontrivial.extend(nt)
        samples.extend(sm)
    viols, seen = _dedup(viols)
    counters["violations_by_key"] = seen
    return {"evaluations": counters.get("reqs", 0), "nontrivial": sorted(set(nontrivial)), "counters": counters,
            "coverage": coverage, "violations": viols, "samples": samples[:2], "inconclusive": []}


def replay(rp, spec):
    counters, coverage = {}, {}
    if rp.get("mode") == "default-cap":
        v, nt = R.run(run_default_cap, rp["backend"], counters, rp["seed"])
        return {"evaluations": 1, "nontrivial": nt, "counters": counters, "coverage": coverage, "violations": v, "samples": [], "inconclusive": []}
    v, nt, sm = R.run(run_store, rp["backend"], rp["max_limit"], 0, 0, counters, coverage, rp, bool(rp.get("purple_first")))
    v, seen = _dedup(v, cap=50)
    return {"evaluations": 1, "nontrivial": nt, "counters": counters, "coverage": coverage, "violations": v,
            "samples": sm, "inconclusive": []}
