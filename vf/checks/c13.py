"""
C13 - subscription protocol: one EOSE per REQ, CLOSE and replacement end delivery.

An automaton per (connection, subscription id) is fed from the boundary log (feed /
recv-call / send-call events, globally ordered).  A command is complete when the relay
asks for the next frame.  Refutations: an accepted REQ without EOSE at quiescence while
still open; more EOSE frames than accepted REQs of that id; a refused REQ without NOTICE
(or met with a closed connection); an EVENT frame handed to the socket after CLOSE /
replacement completed that can only belong to the old generation; any frame after the
handler exited; more than subscription_limit subscriptions at a quiescent point; existing
subscriptions no longer served after a refused over-limit REQ.
"""
import asyncio
import itertools
import json
import random

from .. import rig as R, ref, gen, qcore
from ..orch import h

ID = "C13"
TECHNIQUE = 'runtime monitoring - per (connection, subscription id) automaton fed from the boundary log; exhaustive symbol sequences to depth 3/4 under two pacings and consumers, random sequences to depth 40, failing stored queries, REQ bursts with default settings; end-to-end shard: hostile subscription ids and ill-formed REQs over a real server (EOSE or NOTICE, never silence, never a closed connection); REQ/CLOSE/replacement cycles on one worker while another worker process accepts a stream of matching events (no EVENT after the marker that proves the CLOSE was processed), and on a connection the relay is slowing down with real sleeps'
LEVEL = "exploration"
EXHAUSTIVE = {"quick": True, "thorough": True}
RULE = (
    "alphabet on the observed connection: REQ a f1 | REQ a f2 (disjoint from f1) | REQ b f1 | REQ a with no filter | "
    "REQ a with an invalid filter | REQ a with an unhashable tag value | REQ a with explicit nulls | CLOSE a | CLOSE b | EVENT matching f1 | EVENT "
    "matching f2 (both published by a second connection, so they arrive as live pushes) | disconnect. ALL sequences up "
    "to depth 3 (quick) / 4 (thorough) are run on both backends with (quiesce between commands, immediate consumer) and (feed the "
    "next command as soon as the previous one completed, slow consumer); the two mixed combinations run every third (quick) / "
    "every second (thorough) sequence; seeded random "
    "sequences to depth 40 with subscription_limit in {1,2,3}, non-string ids and duplicates on top; plus REQs whose stored-events "
    "query fails while it runs (SQL: rows that cannot be decoded, connection pool exhausted; LMDB: damaged records), and a quick "
    "series of 90-300 REQs in one process with default settings (LMDB analysis queue backlog). Non-trivial = a "
    "sequence with at least one REQ followed by CLOSE / replacement / disconnect or hitting the limit. Distinct = "
    "distinct (backend, pacing, consumer, symbol sequence)."
)
ASSUMPTIONS = [
    "end-to-end shards: a real gunicorn/uvicorn server process tree started from the tree under test (vf/e2e_launch.py: the repository's run_with_gunicorn / run_with_uvicorn; the SQL schema is made with the repository's metadata.create_all because its alembic env.py does not run with the installed SQLAlchemy; the notifier's fixed TCP port 6000 is replaced by a free port), spoken to over loopback TCP with the websockets client; real time, real sleeps",
    "a command is complete when the handler asks for the next frame (the handler loop is strictly sequential per connection)",
    "replacement filters are disjoint (kind 1 vs kind 7), so every EVENT frame identifies the generation it belongs to",
    "LMDB backend over /verif/shim; SQL = SQLite",
]
MIN_NONTRIVIAL = {"quick": 800, "thorough": 8000}
REQUIRED_COUNTERS = ["e2e.e2e_reqs", "e2e.e2e_refused_reqs", "e2e.e2e_close_cycles", "e2e.e2e_throttled_close_checks", "clause.eose", "clause.refused_notice", "clause.after_close", "clause.limit", "clause.after_exit", "clause.answered_despite_fault", "clause.answered_in_burst"]
SHARD_TIMEOUT = {"quick": 600, "thorough": 3200}

F1 = {"kinds": [1]}
F2 = {"kinds": [7]}
SYMS = ["REQa1", "REQa2", "REQb1", "REQa-", "REQa!", "REQa#", "REQa~", "CLOSEa", "CLOSEb", "EV1", "EV7", "DISC"]


def plan(tier, seed):
    return _plan(tier, seed) + e2e_plan(tier, seed)


def e2e_plan(tier, seed):
    """shards on a REAL server process tree (vf/e2e.py)"""
    out = []
    for i in range(1 if tier == "quick" else 4):
        out += [{"mode": "e2e", "e2e": "wire", "backend": b, "seed": seed * 7919 + 100 + i, "nevents": 30} for b in ("sql", "lmdb")]
        out += [{"mode": "e2e", "e2e": "c13", "backend": b, "workers": 2, "seed": seed * 7919 + i, "cycles": 120 if tier == "quick" else 400} for b in ("sql", "lmdb")]
    return out


def _plan(tier, seed):
    depth = 3 if tier == "quick" else 4
    shards = []
    seqs = list(itertools.product(SYMS, repeat=depth))
    parts = 4 if tier == "quick" else 16
    for backend in ("sql", "lmdb"):
        for pacing in ("quiesce", "eager"):
            for consumer in ("fast", "slow"):
                for p in range(parts):
                    shards.append({"mode": "enum", "backend": backend, "pacing": pacing, "consumer": consumer, "depth": depth, "part": p, "parts": parts,
                                   "stride": (1 if (pacing, consumer) in (("quiesce", "fast"), ("eager", "slow")) else (2 if tier == "thorough" else 3)),
                                   "case_seed": seed})
        for i in range(2 if tier == "quick" else 8):
            shards.append({"mode": "random", "backend": backend, "case_seed": seed * 7919 + i, "n": 40 if tier == "quick" else 200})
        shards.append({"mode": "fault", "backend": backend, "case_seed": seed * 7919, "n": 2 if tier == "quick" else 10})
        shards.append({"mode": "burst", "backend": backend, "case_seed": seed * 7919, "n": 90 if tier == "quick" else 300})
    return shards


class Gen:
    """one generation of a subscription id"""

    def __init__(self, sub, start_n, filters):
        self.sub = sub
        self.start_n = start_n
        self.done_n = None  # command complete
        self.filters = filters
        self.refused = False
        self.ended_n = None  # completion of CLOSE / replacement / disconnect
        self.end_kind = None


def judge_log(rigrec, conn, script, published, counters, limit, backend, descr, final_open_check):
    """script: list of dicts {sym, frame, feed_n, done_n}; returns violations (without replay)"""
    viols = []
    clause = counters.setdefault("clause", {})

    def bump(c):
        clause[c] = clause.get(c, 0) + 1

    sends = [(n, t) for n, t in conn.frames]
    parsed = []
    for n, t in sends:
        try:
            parsed.append((n, json.loads(t)))
        except Exception:
            parsed.append((n, None))
    exit_n = None
    for n, c, kind, data in rigrec.events:
        if c == conn.name and kind == "handler-exit":
            exit_n = n
    gens = {}
    order = []
    for st in script:
        sym, fr = st["sym"], st["msg"]
        if st["done_n"] is None:
            continue
        if fr[0] == "REQ":
            sub = str(fr[1])
            g = Gen(sub, st["feed_n"], fr[2:])
            g.done_n = st["done_n"]
            notices = [f for n, f in parsed if st["feed_n"] < n <= st["done_n"] and isinstance(f, list) and f and f[0] == "NOTICE"]
            g.refused = bool(notices)
            g.conn_closed = st.get("closed_conn", False)
            prev = gens.get(sub, [])
            if prev and prev[-1].ended_n is None and not prev[-1].refused:
                prev[-1].ended_n = st["done_n"]
                prev[-1].end_kind = "replaced"
                if g.refused:
                    # unsubscribe of the old one happens before the limit / permission check
                    pass
            gens.setdefault(sub, []).append(g)
            order.append(g)
        elif fr[0] == "CLOSE":
            sub = str(fr[1])
            prev = gens.get(sub, [])
            if prev and prev[-1].ended_n is None:
                prev[-1].ended_n = st["done_n"]
                prev[-1].end_kind = "closed"
    if exit_n is not None:
        for gl in gens.values():
            if gl[-1].ended_n is None:
                gl[-1].ended_n = exit_n
                gl[-1].end_kind = "disconnected"
    # ---- refused REQ -> NOTICE --------------------------------------------------------------
    for g in order:
        bump("refused_notice")
        eoses_in = [n for n, f in parsed if isinstance(f, list) and len(f) > 1 and f[0] == "EOSE" and f[1] == g.sub and n > g.start_n]
        evs_in = [n for n, f in parsed if isinstance(f, list) and len(f) > 2 and f[0] == "EVENT" and f[1] == g.sub and n > g.start_n]
        if g.conn_closed and not g.refused and not eoses_in:
            viols.append({"key": "%s/req-met-with-closed-connection/%s" % (backend, g.cause if hasattr(g, "cause") else descr_filter(g.filters)),
                          "msg": "[%s] REQ %s %s was answered neither by NOTICE nor by EOSE: the connection was closed" % (backend, g.sub, json.dumps(g.filters)[:100])})
    # ---- EOSE accounting ----------------------------------------------------------------------
    for sub, gl in gens.items():
        bump("eose")
        accepted = [g for g in gl if not g.refused and not g.conn_closed]
        eoses = [n for n, f in parsed if isinstance(f, list) and len(f) > 1 and f[0] == "EOSE" and f[1] == sub]
        if len(eoses) > len(accepted):
            viols.append({"key": "%s/too-many-eose" % backend, "msg": "[%s] %d EOSE frames for id %r but only %d accepted REQs (%s)" % (backend, len(eoses), sub, len(accepted), descr)})
        last = gl[-1]
        if not last.refused and not last.conn_closed and last.ended_n is None and final_open_check:
            if not [n for n in eoses if n > last.start_n]:
                viols.append({"key": "%s/no-eose" % backend, "msg": "[%s] REQ %r %s is still open at quiescence but never got an EOSE (%s)" % (backend, sub, json.dumps(last.filters)[:80], descr)})
            else:
                # an EOSE comes BEHIND the stored events of its REQ: an EOSE frame that precedes a stored result of the
                # open generation belongs to an earlier REQ of the same id, so this one is still waiting for its own
                stored_n = [n for n, f in parsed if n > last.start_n and isinstance(f, list) and len(f) > 2 and f[0] == "EVENT" and f[1] == sub
                            and isinstance(f[2], dict) and 0 < published.get(f[2].get("id"), 0) < last.start_n
                            and any(ref.match3(f[2], fl) != ref.NO for fl in last.filters if isinstance(fl, dict))]
                if stored_n:
                    bump("eose_behind_stored_results")
                    if not [n for n in eoses if n > max(stored_n)]:
                        viols.append({"key": "%s/no-eose/behind-stored-results" % backend,
                                      "msg": "[%s] REQ %r %s is still open at quiescence, its stored events were sent (last at #%d) but no EOSE followed them - the only EOSE frames for the id (%s) precede them (%s)"
                                             % (backend, sub, json.dumps(last.filters)[:80], max(stored_n), eoses, descr)})
        # ---- frames after close / replacement ------------------------------------------------
        for gi, g in enumerate(gl):
            if g.refused or g.conn_closed or g.ended_n is None:
                continue
            bump("after_close")
            later = [x for x in gl[gi + 1:] if not x.refused and not x.conn_closed]
            for n, f in parsed:
                if n <= g.ended_n or not (isinstance(f, list) and len(f) > 2 and f[0] == "EVENT" and f[1] == sub):
                    continue
                if any(n > x.start_n and any(ref.match3(f[2], fl) != ref.NO for fl in x.filters if isinstance(fl, dict)) for x in later):
                    continue  # belongs (possibly) to a later generation of the same id
                live = published.get(f[2].get("id"), 0) > g.done_n
                viols.append({"key": "%s/event-after-%s/%s" % (backend, g.end_kind, "live-push" if live else "stored-backlog"),
                              "msg": "[%s] EVENT (kind %s, %s) for id %r handed to the socket at #%d, after the %s completed at #%d (%s)"
                                     % (backend, f[2].get("kind"), "live" if live else "stored", sub, n, g.end_kind, g.ended_n, descr)})
                break
    # ---- after handler exit ------------------------------------------------------------------
    bump("after_exit")
    if exit_n is not None:
        late = [n for n, t in sends if n > exit_n]
        if late:
            viols.append({"key": "%s/frame-after-disconnect" % backend, "msg": "[%s] %d frames handed to the socket after the handler exited (%s)" % (backend, len(late), descr)})
    return viols, gens


def descr_filter(filters):
    s = json.dumps(filters)
    if "[[" in s:
        return "unhashable-tag-value"
    if "null" in s:
        return "null-valued-key"
    return "other"


def sym_to_msg(sym, n):
    if sym == "REQa1":
        return ["REQ", "a", F1]
    if sym == "REQa2":
        return ["REQ", "a", F2]
    if sym == "REQb1":
        return ["REQ", "b", F1]
    if sym == "REQa-":
        return ["REQ", "a"]
    if sym == "REQa!":
        return ["REQ", "a", {"kinds": "x"}, {"ids": ["zz"]}]
    if sym == "REQa#":
        return ["REQ", "a", {"#e": [["x"]]}]
    if sym == "REQa~":
        # valid but unusual spellings: explicit nulls, numbers as strings
        return ["REQ", "a", {"kinds": [1], "limit": None, "since": None, "search": None}]
    if sym == "CLOSEa":
        return ["CLOSE", "a"]
    if sym == "CLOSEb":
        return ["CLOSE", "b"]
    return None


async def run_sequences(backend, pacing, consumer, seqs, counters, limit=2, seed=0, extra_syms=None):
    rig = R.Rig(backend=backend, config={"analysis_delay": 0, "subscription_limit": limit})
    await rig.start()
    viols, nontrivial, samples = [], [], []
    r = random.Random(seed)
    try:
        key = ref.key_from_seed("c13")
        pub = rig.connect("pub")
        stored = {}
        for i in range(6):
            e = ref.make_event(key, kind=1 if i % 2 else 7, created_at=gen.T0 + i, content="st%d" % i)
            stored[e["id"]] = 0
            await pub.cmd(["EVENT", e])
        await rig.quiesce()
        evn = [0]
        for si, seq in enumerate(seqs):
            delay = None
            if consumer == "slow":
                delay = (lambda: r.choice([0, 0, 0.001, 0.002]))
            conn = rig.connect("c%d" % si, send_delay=delay)
            await rig.quiesce()
            script = []
            for sym in seq:
                if conn.exited:
                    break
                if isinstance(sym, list):
                    msg = sym
                    sym = msg[0]
                else:
                    msg = sym_to_msg(sym, si)
                if sym in ("EV1", "EV7"):
                    evn[0] += 1
                    e = ref.make_event(key, kind=1 if sym == "EV1" else 7, created_at=gen.T0 + 100 + evn[0], content="lv%d" % evn[0])
                    stored[e["id"]] = rig.rec.n
                    await pub.cmd(["EVENT", e])
                    if pacing == "quiesce":
                        await rig.quiesce()
                    script.append({"sym": sym, "msg": ["EVENT"], "feed_n": None, "done_n": None})
                    continue
                if sym == "DISC":
                    conn.disconnect()
                    await conn.processed()
                    script.append({"sym": sym, "msg": ["DISC"], "feed_n": rig.rec.n, "done_n": rig.rec.n})
                    break
                feed_n = rig.rec.n
                conn.feed(msg)
                await conn.processed()
                st = {"sym": sym, "msg": msg, "feed_n": feed_n, "done_n": rig.rec.n, "closed_conn": conn.exited}
                script.append(st)
                if pacing == "quiesce":
                    await rig.quiesce()
                # limit is checked at every completed command
                n_open = len(rig.subs_of(conn)) if not conn.exited else 0
                counters.setdefault("clause", {})
                counters["clause"]["limit"] = counters["clause"].get("limit", 0) + 1
                if n_open > limit:
                    viols.append({"key": "%s/over-subscription-limit" % backend, "msg": "[%s] %d subscriptions open with subscription_limit %d after %s" % (backend, n_open, limit, seq),
                                  "replay": {"backend": backend, "pacing": pacing, "consumer": consumer, "seq": list(seq), "limit": limit}})
            await rig.quiesce()
            # one more live event: open subscriptions must still be served, closed ones not
            open_before = dict(rig.subs_of(conn)) if not conn.exited else {}
            mark = rig.rec.n
            evn[0] += 1
            probe1 = ref.make_event(key, kind=1, created_at=gen.T0 + 100 + evn[0], content="pr%d" % evn[0])
            evn[0] += 1
            probe7 = ref.make_event(key, kind=7, created_at=gen.T0 + 100 + evn[0], content="pr%d" % evn[0])
            stored[probe1["id"]] = rig.rec.n
            await pub.cmd(["EVENT", probe1])
            stored[probe7["id"]] = rig.rec.n
            await pub.cmd(["EVENT", probe7])
            await rig.quiesce()
            descr = "%s/%s %s" % (pacing, consumer, list(seq) if all(isinstance(x, str) for x in seq) else "random")
            v, gens = judge_log(rig.rec, conn, script, stored, counters, limit, backend, descr, True)
            # served-after-refusal: every generation still open must have got the matching probe
            if not conn.exited:
                got = [f for n, f in conn.parsed_frames(mark) if isinstance(f, list) and len(f) > 2 and f[0] == "EVENT"]
                for sub, gl in gens.items():
                    g = gl[-1]
                    if g.refused or g.conn_closed or g.ended_n is not None:
                        if g.refused and len(gl) > 1:
                            pass
                        continue
                    for probe in (probe1, probe7):
                        should = any(ref.match3(probe, fl) == ref.MUST for fl in g.filters if isinstance(fl, dict))
                        has = any(f[1] == sub and f[2].get("id") == probe["id"] for f in got)
                        if should and not has and sub in open_before:
                            v.append({"key": "%s/open-subscription-not-served" % backend, "msg": "[%s] subscription %r %s is open but did not get the live probe (%s)" % (backend, sub, g.filters, descr)})
                        if should and not has and sub not in open_before:
                            v.append({"key": "%s/accepted-req-not-registered" % backend, "msg": "[%s] REQ %r %s was accepted (no NOTICE) but is not registered (%s)" % (backend, sub, g.filters, descr)})
            for x in v:
                x["replay"] = {"backend": backend, "pacing": pacing, "consumer": consumer, "seq": [s if isinstance(s, str) else s for s in seq], "limit": limit}
            viols.extend(v)
            flat = [s if isinstance(s, str) else s[0] for s in seq]
            if any(a.startswith("REQ") for a in flat) and (any(a.startswith("CLOSE") or a == "DISC" for a in flat) or flat.count("REQa1") + flat.count("REQa2") > 1 or len([a for a in flat if a.startswith("REQ")]) > limit):
                nontrivial.append(h([backend, pacing, consumer, limit, seq]))
            if len(samples) < 2 and si % 37 == 5:
                samples.append({"backend": backend, "pacing": pacing, "consumer": consumer, "sequence": list(seq), "frames": [t[:60] for _, t in conn.frames][:8]})
            if not conn.exited:
                conn.disconnect()
                await conn.processed()
            counters["sequences"] = counters.get("sequences", 0) + 1
    finally:
        await rig.close()
    return viols, nontrivial, samples


FAULTS_SQL = ["tags-not-json", "tags-not-a-list", "short-id", "pool-exhausted"]
FAULTS_LMDB = ["record-garbage", "record-empty", "record-wrong-shape", "record-one-byte"]


async def run_faulty_queries(backend, counters, seed):
    """
    The stored-events query FAILS while it runs (damaged row / record it cannot decode; no database
    connection to be had): the REQ must still be answered - EOSE or NOTICE - never met with silence,
    and the connection keeps working.
    """
    import sqlalchemy as sa

    viols, nontrivial = [], []
    clause = counters.setdefault("clause", {})
    r = random.Random(seed)
    for fault in (FAULTS_SQL if backend == "sql" else FAULTS_LMDB):
        opts = {"sqlalchemy.pool_size": 2, "sqlalchemy.max_overflow": 0, "sqlalchemy.pool_timeout": 0.3} if fault == "pool-exhausted" else {}
        rig = R.Rig(backend=backend, config={"analysis_delay": 0}, storage_options=opts)
        await rig.start()
        try:
            conn = rig.connect("f")
            key = ref.key_from_seed("c13-fault")
            evs = [ref.make_event(key, kind=r.choice([1, 7]), created_at=gen.T0 + i, tags=[["t", "a"]], content="f%d %d" % (i, seed)) for i in range(6)]
            await qcore.load_store(rig, conn, evs)
            victim = evs[r.randrange(len(evs))]
            held = []
            if backend == "sql" and fault != "pool-exhausted":
                row = {"i": bytes.fromhex(ref.compute_id(key.pk, 1, 9, [], "damaged %d" % seed)), "p": bytes.fromhex(key.pk), "s": bytes(64),
                       "t": {"tags-not-json": "{not json", "tags-not-a-list": "5", "short-id": "[]"}[fault]}
                if fault == "short-id":
                    row["i"] = row["i"][:7]
                async with rig.storage.db.begin() as c:
                    await c.execute(sa.text("INSERT INTO events (id, created_at, kind, pubkey, tags, sig, content) VALUES (:i, %d, %d, :p, :t, :s, 'damaged')"
                                            % (gen.T0 + 3, victim["kind"])), row)
            elif backend == "lmdb":
                garbage = {"record-garbage": b"\xc1garbage", "record-empty": b"", "record-wrong-shape": b"\x93\x01\x02\x03", "record-one-byte": b"\x00"}[fault]
                with rig.storage.db.begin(write=True) as txn:
                    txn.put(b"\x00" + bytes.fromhex(victim["id"]), garbage)
            reqs = [[{"kinds": [victim["kind"]]}], [{"ids": [victim["id"]]}], [{"#t": ["a"]}, {"kinds": [victim["kind"]]}], [{"authors": [key.pk]}], [{"kinds": [40404]}]]
            for filters in reqs:
                if fault == "pool-exhausted":
                    held = [await rig.storage.db.connect(), await rig.storage.db.connect()]
                try:
                    ans = await qcore.run_req(rig, conn, filters, timeout=8.0)
                finally:
                    for c in held:
                        await c.close()
                    held = []
                clause["answered_despite_fault"] = clause.get("answered_despite_fault", 0) + 1
                counters["sequences"] = counters.get("sequences", 0) + 1
                nontrivial.append(h([backend, "fault", fault, filters and sorted(filters[0])]))
                if not ans["eose"] and not ans["notices"]:
                    viols.append({"key": "%s/silence-after-failed-query/%s" % (backend, fault),
                                  "msg": "[%s] with %s the REQ %s got neither EOSE nor NOTICE within 8 s (%s)"
                                         % (backend, fault, json.dumps(filters)[:120], "connection closed" if ans["exited"] else "connection open"),
                                  "replay": {"backend": backend, "mode": "fault", "seed": seed}})
                    break
                if conn.exited:
                    conn = rig.connect()
        finally:
            await rig.close()
    return viols, nontrivial


async def run_req_burst(backend, counters, seed, n=90):
    """
    Many REQs in a short time in ONE process with the relay's default settings (the query-analysis queue of
    the LMDB backend holds 30 plans and is drained at two per second): each of them is answered.
    """
    viols, nontrivial = [], []
    rig = R.Rig(backend=backend, config={})  # default analysis_delay
    await rig.start()
    clause = counters.setdefault("clause", {})
    try:
        conn = rig.connect("burst")
        key = ref.key_from_seed("c13-burst")
        evs = [ref.make_event(key, kind=1, created_at=gen.T0 + i, content="b%d %d" % (i, seed)) for i in range(5)]
        await qcore.load_store(rig, conn, evs)
        for i in range(n):
            ans = await qcore.run_req(rig, conn, [{"kinds": [1]}] if i % 3 else [{"kinds": [1]}, {"authors": [key.pk]}], timeout=10.0)
            clause["answered_in_burst"] = clause.get("answered_in_burst", 0) + 1
            counters["sequences"] = counters.get("sequences", 0) + 1
            if not ans["eose"] and not ans["notices"]:
                viols.append({"key": "%s/silence-in-burst" % backend, "msg": "[%s] REQ number %d of a quick series (default settings) got %d events and then neither EOSE nor NOTICE within 10 s"
                              % (backend, i + 1, len(ans["events"])), "replay": {"backend": backend, "mode": "burst", "seed": seed}})
                break
            if ans["eose"] and len({e.get("id") for e in ans["events"]}) != 5:
                viols.append({"key": "%s/incomplete-answer-in-burst" % backend, "msg": "[%s] REQ number %d of a quick series got EOSE after %d of 5 stored events"
                              % (backend, i + 1, len(ans["events"])), "replay": {"backend": backend, "mode": "burst", "seed": seed}})
                break
        nontrivial.append(h([backend, "burst", n, seed]))
    finally:
        await rig.close()
    return viols, nontrivial


def random_seq(r, n):
    ids = ["a", "b", "c", 5, None, "a\"b", ""]
    out = []
    for _ in range(n):
        roll = r.random()
        if roll < 0.45:
            out.append(["REQ", r.choice(ids), r.choice([F1, F2, {"kinds": [1, 7]}, {"kinds": "x"}, {}, {"kinds": [1], "limit": None}, {"kinds": ["7"], "until": None},
                                                         {"kinds": [1], "limit": 0}, {"#e": [["x"]]}, {"kinds": [1], "ids": None}])] + ([r.choice([F1, F2])] if r.random() < 0.2 else []))
        elif roll < 0.65:
            out.append(["CLOSE", r.choice(ids)])
        elif roll < 0.95:
            out.append(r.choice(["EV1", "EV7"]))
        else:
            out.append("DISC")
    return out


def run_shard(spec):
    if spec.get("mode") == "e2e":
        from .. import e2e_cases

        return e2e_cases.run_e2e_shard(ID, spec)
    try:
        return _run_shard(spec)
    except R.Inconclusive as e:
        # the harness' generous (60 s) quiescence watchdog fired. Only when a stored-events query of the relay is
        # demonstrably still pending then (its task is named in the message) is this the property's refutation - an
        # accepted REQ that is met with silence; anything else stays inconclusive
        if "run_query" in str(e):
            return {"evaluations": 1, "nontrivial": [], "counters": {"violations_by_key": {"silence": 1}}, "coverage": {"backends": {spec["backend"]: 1}},
                    "violations": [{"key": "%s/silence/stored-query-never-finishes" % spec["backend"],
                                    "msg": "[%s] a REQ's stored-events query was still pending 60 s after the last command (%s): no EOSE, no NOTICE" % (spec["backend"], e),
                                    "replay": {"backend": spec["backend"], "shard": spec}}], "samples": [], "inconclusive": []}
        return {"evaluations": 0, "nontrivial": [], "counters": {}, "coverage": {}, "violations": [], "samples": [], "inconclusive": ["watchdog: %s" % e]}


def _run_shard(spec):
    counters = {}
    if spec["mode"] == "burst":
        # its own process: the LMDB analysis thread keeps the delay it was started with
        samples = []
        viols, nontrivial = R.run(run_req_burst, spec["backend"], counters, spec["case_seed"], spec["n"])
    elif spec["mode"] == "fault":
        viols, nontrivial, samples = [], [], []
        for j in range(spec["n"]):
            v, nt = R.run(run_faulty_queries, spec["backend"], counters, spec["case_seed"] + j)
            viols.extend(v)
            nontrivial.extend(nt)
    elif spec["mode"] == "enum":
        seqs = [s for i, s in enumerate(itertools.product(SYMS, repeat=spec["depth"])) if i % spec["parts"] == spec["part"]]
        seqs = seqs[:: spec["stride"]]
        viols, nontrivial, samples = R.run(run_sequences, spec["backend"], spec["pacing"], spec["consumer"], seqs, counters, 2, spec["case_seed"])
    else:
        r = random.Random(spec["case_seed"])
        viols, nontrivial, samples = [], [], []
        for limit in (1, 2, 3):
            seqs = [random_seq(r, r.randint(5, 40)) for _ in range(spec["n"] // 3)]
            for pacing, consumer in (("eager", "slow"), ("quiesce", "fast")):
                v, nt, sm = R.run(run_sequences, spec["backend"], pacing, consumer, seqs, counters, limit, spec["case_seed"])
                viols.extend(v)
                nontrivial.extend(nt)
    seen, out = {}, []
    for v in viols:
        seen[v["key"]] = seen.get(v["key"], 0) + 1
        if seen[v["key"]] <= 1:
            out.append(v)
    counters["violations_by_key"] = seen
    return {"evaluations": counters.get("sequences", 0), "nontrivial": sorted(set(nontrivial)), "counters": counters,
            "coverage": {"backends": {spec["backend"]: 1}, "modes": {spec["mode"] + "/" + spec.get("pacing", "mixed") + "/" + spec.get("consumer", "mixed"): 1}},
            "violations": out, "samples": samples[:2], "inconclusive": []}


def replay(rp, spec):
    if rp.get("mode") == "e2e":
        from .. import e2e_cases

        return e2e_cases.run_e2e_shard(ID, rp)
    counters = {}
    if "shard" in rp:
        return run_shard(rp["shard"])
    if rp.get("mode") == "burst":
        v, nt = R.run(run_req_burst, rp["backend"], counters, rp["seed"])
        return {"evaluations": 1, "nontrivial": nt, "counters": counters, "violations": v, "samples": [], "inconclusive": []}
    if rp.get("mode") == "fault":
        v, nt = R.run(run_faulty_queries, rp["backend"], counters, rp["seed"])
        return {"evaluations": 1, "nontrivial": nt, "counters": counters, "violations": v, "samples": [], "inconclusive": []}
    v, nt, sm = R.run(run_sequences, rp["backend"], rp["pacing"], rp["consumer"], [rp["seq"]], counters, rp.get("limit", 2), 0)
    return {"evaluations": 1, "nontrivial": nt, "counters": counters, "violations": v, "samples": [], "inconclusive": []}
