"""
C14 - role-based authorization is enforced on every read and write path.

For generated action->roles configurations the harness recomputes the role-set
intersection itself and compares it with what the relay did: EVENT stored / broadcast only
with a 'save' role, REQ served (stored answers AND live pushes) only with a 'query' role,
refusals say 'restricted' and leave no trace.  The configured output validator is a harness
module (vf.ov.check) that logs every call: every EVENT frame handed to a socket must be
preceded by an approving call for that very event and connection, and an event it rejects
must never be sent - from storage or live.  Role assignments are read back after every
assignment sequence.
"""
import asyncio
import itertools
import json
import random
import time

from .. import rig as R, ref, gen, dump, ov
from ..orch import h

ID = "C14"
TECHNIQUE = 'runtime monitoring - authorization matrix recomputed by the harness (role-set intersection) against observed behaviour on every path (EVENT, stored REQ, live push), output-validator call log matched against every EVENT frame, role read-back incl. close/re-open; end-to-end shard: role assignments changed by an admin process (and, on LMDB, through one worker and then another) read back on connections of every worker process; events the configured output validator refuses published on one worker must not be pushed to subscribers of another'
LEVEL = "exploration"
RULE = (
    "cases = (backend, action->roles map with save and query each drawn from the non-empty subsets of {a,r,w,s} (all 225 "
    "maps in thorough, a seeded third in quick) plus maps in which save or query is the EMPTY collection (\"\" or []), connections holding every role subset reachable through real NIP-42 "
    "AUTH plus the unauthenticated one, both actions, stored (REQs of all connections in flight together in half of the maps) "
    "and live delivery, output validator on (verdict depends on the receiving connection's token), a connection whose first REQ "
    "is refused and which authenticates and subscribes under another id afterwards). Role read-back: "
    "seeded assignment sequences of 2-6 steps per pubkey incl. repeats within one second, and batches of assignments followed "
    "at once by an orderly close and a re-open of the same store. Non-trivial = a (config, "
    "token, action) cell in which the expected verdict is 'refuse', or an EVENT frame whose validator verdict was "
    "checked. Distinct = distinct (backend, save roles, query roles, token roles, action, path)."
)
ASSUMPTIONS = [
    "end-to-end shards: a real gunicorn/uvicorn server process tree started from the tree under test (vf/e2e_launch.py: the repository's run_with_gunicorn / run_with_uvicorn; the SQL schema is made with the repository's metadata.create_all because its alembic env.py does not run with the installed SQLAlchemy; the notifier's fixed TCP port 6000 is replaced by a free port), spoken to over loopback TCP with the websockets client; real time, real sleeps",
    "roles are obtained through the real AUTH handshake (challenge from the relay, kind-22242 answer signed by the harness)",
    "the output validator is harness code configured through the relay's own output_validator option",
    "LMDB backend over /verif/shim; SQL = SQLite",
]
MIN_NONTRIVIAL = {"quick": 150, "thorough": 1500}
REQUIRED_COUNTERS = ["e2e.e2e_role_readbacks", "e2e.e2e_output_validator_cross_worker_pairs", "cells.save", "cells.query_stored", "cells.query_stored_concurrent", "cells.query_live", "cells.can_do", "cells.refused_then_authenticated",
                     "validator.frames_checked", "readback.assignments", "readback.after_reopen", "readback.listed"]
SHARD_TIMEOUT = {"quick": 600, "thorough": 3200}
ALPHA = "arws"
SUBSETS = ["".join(c) for n in range(1, 5) for c in itertools.combinations(ALPHA, n)]


def plan(tier, seed):
    return _plan(tier, seed) + e2e_plan(tier, seed)


def e2e_plan(tier, seed):
    """shards on a REAL server process tree (vf/e2e.py)"""
    out = [{"mode": "e2e", "e2e": "c14", "backend": "sql", "workers": 2, "seed": seed}, {"mode": "e2e", "e2e": "c14", "backend": "lmdb", "workers": 2, "seed": seed}]
    if tier == "thorough":
        out += [{"mode": "e2e", "e2e": "c14", "backend": b, "workers": 3, "seed": seed + 1} for b in ("sql", "lmdb")]
    return out


def _plan(tier, seed):
    maps = [(s, q) for s in SUBSETS for q in SUBSETS]
    r = random.Random(seed)
    r.shuffle(maps)
    if tier == "quick":
        maps = maps[:48]
    # "nobody may do this over the websocket": an action configured with an empty role collection
    # (string "" or list []; a map entry is a string, or a list for the list spelling)
    empties = [("", "a"), ([], "ar"), ("aw", ""), ("arws", []), ("", ""), ([], "s")]
    r.shuffle(empties)
    maps = maps + (empties[:4] if tier == "quick" else empties * 3)
    shards = []
    per = 6 if tier == "quick" else 15
    for backend in ("sql", "lmdb"):
        for i in range(0, len(maps), per):
            shards.append({"backend": backend, "maps": maps[i:i + per], "case_seed": seed * 7919 + i})
        shards.append({"backend": backend, "mode": "readback", "case_seed": seed * 7919 + 5, "n": 12 if tier == "quick" else 300})
    return shards


async def authenticate(conn, key, rig):
    """answer the relay's challenge; returns True if an AUTH frame was seen"""
    await rig.quiesce()
    ch = None
    for n, f in conn.parsed_frames():
        if isinstance(f, list) and f and f[0] == "AUTH":
            ch = f[1]
    if ch is None:
        return False
    ev = ref.make_event(key, kind=22242, created_at=int(time.time()), tags=[["relay", "ws://localhost:6969"], ["challenge", ch]], content="")
    await conn.cmd(["AUTH", ev])
    return True


def rp_early(backend, save_roles, query_roles, seed):
    return {"backend": backend, "save": save_roles, "query": query_roles, "seed": seed}


async def run_map(backend, save_roles, query_roles, counters, seed):
    service = ref.key_from_seed("service")
    rig = R.Rig(backend=backend, config={
        "analysis_delay": 0, "service_privatekey": service.sk_hex, "output_validator": "vf.ov.check",
        "authentication": {"enabled": True, "relay_urls": ["ws://localhost:6969"], "actions": {"save": save_roles, "query": query_roles}},
    })
    await rig.start()
    viols, nontrivial = [], []
    cells = counters.setdefault("cells", {})
    val = counters.setdefault("validator", {})
    r = random.Random(seed)

    def bump(d, k, n=1):
        d[k] = d.get(k, 0) + n

    ov.CALLS.clear()
    try:
        # role assignment for a sample of role subsets
        # five random role subsets, the EMPTY assignment (an authenticated key with no role
        # at all must be refused everything) and the unauthenticated connection
        role_sets = r.sample(SUBSETS, 5) + ["", None]
        keys = {}
        for rs in role_sets:
            if rs is not None:
                k = ref.key_from_seed("c14-%s" % rs)
                keys[rs] = k
                await rig.storage.set_auth_roles(k.pk, rs)
        await rig.quiesce()
        conns = {}
        for rs in role_sets:
            c = rig.connect("t-%s" % (rs or "anon"))
            if rs is not None:
                await authenticate(c, keys[rs], rig)
            conns[rs] = c
        await rig.quiesce()
        rp = {"backend": backend, "save": save_roles, "query": query_roles, "seed": seed}

        def roles_of(rs):
            if rs == "@intruder":
                return {"a"}  # never assigned by the operator: default role
            return set(rs) if rs is not None else {"a"}

        # ---- the decision function itself, for every role set incl. the empty one ----------------------
        for rs_ in SUBSETS + [""]:
            for action, needed in (("save", save_roles), ("query", query_roles)):
                tok = {"pubkey": "00" * 32, "roles": set(rs_), "now": time.time()}
                got = await rig.storage.authenticator.can_do(tok, action)
                bump(cells, "can_do")
                if not (set(rs_) & set(needed)):
                    nontrivial.append(h([backend, "can_do", needed, rs_, action]))
                if bool(got) != bool(set(rs_) & set(needed)):
                    viols.append({"key": "%s/can_do/%s" % (backend, "empty-role-set" if not rs_ else "role-set"),
                                  "msg": "[%s] can_do(roles=%r, %s) -> %s but %s requires one of %r" % (backend, rs_, action, got, action, needed), "replay": rp_early(backend, save_roles, query_roles, seed)})
        for tok in (None, {}):
            for action, needed in (("save", save_roles), ("query", query_roles)):
                got = await rig.storage.authenticator.can_do(tok, action)
                if bool(got) != ("a" in needed):
                    viols.append({"key": "%s/can_do/no-token" % backend, "msg": "[%s] can_do(%r, %s) -> %s with %s=%r" % (backend, tok, action, got, action, needed), "replay": rp_early(backend, save_roles, query_roles, seed)})
        # ---- a client cannot assign itself roles ----------------------------------------------------
        # anybody who may save can publish a look-alike of the relay's role-assignment event for
        # a key the operator never assigned; that key must keep the default role afterwards
        intruder = ref.key_from_seed("c14-intruder-%d" % seed)
        forged = ref.make_event(intruder, kind=31494, created_at=int(time.time()), tags=[["d", "auth:" + intruder.pk], ["t", "auth"], ["p", intruder.pk]], content="arws")
        poster = next((c for rs_, c in conns.items() if (set(rs_) if rs_ is not None else {"a"}) & set(save_roles)), None)
        if poster is not None:
            await poster.cmd(["EVENT", forged])
            await rig.quiesce()
            counters["forged_role_events_posted"] = counters.get("forged_role_events_posted", 0) + 1
            got = await rig.storage.get_auth_roles(intruder.pk)
            if got != {"a"}:
                viols.append({"key": "%s/self-assigned-roles/readback" % backend, "msg": "[%s] after a client posted its own kind-31494 'auth' event the roles of that key read back as %s" % (backend, sorted(got)), "replay": rp_early(backend, save_roles, query_roles, seed)})
            ci = rig.connect("t-intruder")
            await authenticate(ci, intruder, rig)
            conns["@intruder"] = ci
        # ---- save ----------------------------------------------------------------------------
        # somebody who may read everything listens: a refused event must not be broadcast either
        listener = None
        lk = next((rs_ for rs_ in keys if rs_ and set(rs_) & set(query_roles)), None)
        if lk is not None and not conns[lk].exited:
            listener = conns[lk]
            await listener.cmd(["REQ", "listen", {"kinds": [1, 5, 10002, 20001, 29999, 30023], "since": gen.T0 - 1}])
            await rig.quiesce()
        submitted = {}
        for rs, c in conns.items():
            author = keys.get(rs) or (intruder if rs == "@intruder" else ref.key_from_seed("c14-anon"))
            # regular, replaceable, deletion and ephemeral kinds alike (an ephemeral event is not stored, it is broadcast)
            kind_ = [1, 20001, 10002, 5, 30023, 1, 29999][(seed + len(submitted)) % 7]
            ev = ref.make_event(author, kind=kind_, created_at=gen.T0 + len(submitted), tags=[["d", "x"]] if kind_ == 30023 else [], content="by %s" % (rs or "anon"))
            n0 = rig.rec.n
            if not c.exited:
                await c.cmd(["EVENT", ev])
            oks = R.ok_frames(c, n0)
            ok = oks[-1][1][2] if oks else None
            reason = oks[-1][1][3] if oks else ""
            submitted[rs] = (ev, ok, reason)
        await rig.quiesce()
        d = dump.dump(rig)
        for rs, (ev, ok, reason) in submitted.items():
            if conns[rs].exited:
                counters["connections_closed_by_relay"] = counters.get("connections_closed_by_relay", 0) + 1
                if ev["id"] in d["events"]:
                    viols.append({"key": "%s/save-stored-from-closed-connection" % backend, "msg": "[%s] event of a connection the relay closed was stored" % backend, "replay": rp})
                continue
            allowed = bool(roles_of(rs) & set(save_roles))
            bump(cells, "save")
            if not allowed:
                nontrivial.append(h([backend, save_roles, query_roles, rs, "save"]))
            if allowed and ok is not True:
                viols.append({"key": "%s/save-refused-with-role" % backend, "msg": "[%s] save=%s: connection with roles %s was refused (%r)" % (backend, save_roles, rs or "anon", reason), "replay": rp})
            if not allowed:
                if ok is not False or not str(reason).startswith("restricted"):
                    viols.append({"key": "%s/save-not-refused" % backend, "msg": "[%s] save=%s: connection with roles %s got OK=%s %r for an EVENT" % (backend, save_roles, rs or "anon", ok, reason), "replay": rp})
                if ev["id"] in d["events"]:
                    viols.append({"key": "%s/save-stored-without-role" % backend, "msg": "[%s] save=%s: event from a connection with roles %s was stored" % (backend, save_roles, rs or "anon"), "replay": rp})
                if listener is not None and any(isinstance(f, list) and len(f) > 2 and f[0] == "EVENT" and f[1] == "listen" and f[2].get("id") == ev["id"] for _, f in listener.parsed_frames()):
                    viols.append({"key": "%s/save-broadcast-without-role/%s" % (backend, ref.kind_class(ev["kind"])),
                                  "msg": "[%s] save=%s: kind %d event from a connection with roles %s was pushed to a subscriber" % (backend, save_roles, ev["kind"], rs or "anon"), "replay": rp})
                bump(cells, "save_refused_broadcast_checked")
        # ---- query (stored) ------------------------------------------------------------------------
        stored_ids = set(d["events"].keys())
        together = seed % 2 == 0
        # (most runs ask with a tag condition as well: a refusal is the same NOTICE whatever the filters look like)
        QF = [{"kinds": [1, 31494]}] + ([{"kinds": [4], "#p": ["00" * 32, "ab"]}, {"#e": ["x"], "#t": ["a", ""]}] if seed % 3 != 0 else [])
        n0_all = rig.rec.n
        if together:
            # every connection's REQ is in flight at the same time
            for rs, c in conns.items():
                if not c.exited:
                    c.feed(["REQ", "q"] + QF)
            for rs, c in conns.items():
                if not c.exited:
                    await c.processed()
            await rig.quiesce()
            bump(cells, "query_stored_concurrent", len(conns))
        for rs, c in conns.items():
            if c.exited:
                continue
            allowed = bool(roles_of(rs) & set(query_roles))
            n0 = n0_all
            if not together:
                n0 = rig.rec.n
                await c.cmd(["REQ", "q"] + QF)
                await rig.quiesce()
            fr = [f for n, f in c.parsed_frames(n0) if isinstance(f, list)]
            evs = [f for f in fr if f[0] == "EVENT"]
            notices = [f for f in fr if f[0] == "NOTICE"]
            bump(cells, "query_stored")
            if not allowed:
                nontrivial.append(h([backend, save_roles, query_roles, rs, "query"]))
                if evs:
                    viols.append({"key": "%s/query-served-without-role/stored" % backend, "msg": "[%s] query=%s: %d stored events served to roles %s" % (backend, query_roles, len(evs), rs or "anon"), "replay": rp})
                if not any(str(f[1]).startswith("restricted") for f in notices):
                    viols.append({"key": "%s/query-refusal-not-reported" % backend, "msg": "[%s] query=%s: roles %s got no 'restricted' NOTICE for a REQ (frames %s)" % (backend, query_roles, rs or "anon", [f[:2] for f in fr][:3]), "replay": rp})
            elif stored_ids and not evs and any(ev["id"] in stored_ids for ev, ok, _ in submitted.values()):
                viols.append({"key": "%s/query-refused-with-role" % backend, "msg": "[%s] query=%s: roles %s got no stored events (notices %s)" % (backend, query_roles, rs or "anon", notices[:1]), "replay": rp})
        # ---- query (live) + output validator ---------------------------------------------------------
        writer_rs = next((rs for rs in conns if roles_of(rs) & set(save_roles) and not conns[rs].exited), None)

        async def publish(ev):
            if writer_rs is not None:
                await conns[writer_rs].cmd(["EVENT", ev])
            else:
                try:
                    await rig.storage.add_event(ev, auth_token={"roles": set(save_roles), "pubkey": service.pk})
                except Exception:
                    counters["live_publish_refused"] = counters.get("live_publish_refused", 0) + 1

        if writer_rs is not None or True:
            pubs = []
            for i, content in enumerate(["live ok", "live deny-output", "live only-for:%s" % (keys[role_sets[0]].pk if role_sets[0] else "anon")]):
                ev = ref.make_event(service, kind=1, created_at=gen.T0 + 500 + i, content=content)
                pubs.append(ev)
                await publish(ev)
            await rig.quiesce()
            for rs, c in conns.items():
                allowed = bool(roles_of(rs) & set(query_roles))
                got = [f[2].get("id") for n, f in c.parsed_frames() if isinstance(f, list) and len(f) > 2 and f[0] == "EVENT"]
                bump(cells, "query_live")
                for ev in pubs:
                    if not allowed and ev["id"] in got:
                        viols.append({"key": "%s/query-served-without-role/live" % backend, "msg": "[%s] query=%s: live event pushed to roles %s" % (backend, query_roles, rs or "anon"), "replay": rp})
            # stored re-query of the live events (output validator on the stored path as well)
            q2 = [c for rs, c in conns.items() if bool(roles_of(rs) & set(query_roles)) and not c.exited]
            for c in q2:
                c.feed(["REQ", "q2", {"ids": [e["id"] for e in pubs]}])
            for c in q2:
                await c.processed()
            await rig.quiesce()
            # what the validator lets through for a connection is still delivered when it refuses other results
            dd = dump.dump(rig)
            if pubs[0]["id"] in dd["events"]:
                for c in q2:
                    got_q2 = {f[2].get("id") for n, f in c.parsed_frames() if isinstance(f, list) and len(f) > 2 and f[0] == "EVENT" and f[1] == "q2"}
                    bump(cells, "query_stored_with_refusals")
                    if pubs[0]["id"] not in got_q2 and not c.exited:
                        viols.append({"key": "%s/stored-result-lost-behind-refused-one" % backend,
                                      "msg": "[%s] REQ ids of three stored events, two of which the output validator refuses for this connection: the third (%r) was not delivered either (got %d events)"
                                             % (backend, pubs[0]["content"], len(got_q2)), "replay": rp})
            # ---- a REQ that was refused leaves nothing behind ------------------------------------------
            # the connection asks too early, is refused, authenticates, subscribes under ANOTHER id
            reader_rs = next((rs for rs in keys if rs and set(rs) & set(query_roles)), None)
            if reader_rs is not None and "a" not in set(query_roles):
                late = rig.connect("t-late")
                n0 = rig.rec.n
                await late.cmd(["REQ", "early", {"kinds": [1]}])
                await rig.quiesce()
                refused = any(isinstance(f, list) and f[0] == "NOTICE" and str(f[1]).startswith("restricted") for n, f in late.parsed_frames(n0))
                ev1 = ref.make_event(service, kind=1, created_at=gen.T0 + 600, content="before the reader may read")
                await publish(ev1)
                await authenticate(late, keys[reader_rs], rig)
                await late.cmd(["REQ", "mine", {"kinds": [7]}])
                await rig.quiesce()
                ev2 = ref.make_event(service, kind=1, created_at=gen.T0 + 601, content="after the reader subscribed to something else")
                await publish(ev2)
                await rig.quiesce()
                bump(cells, "refused_then_authenticated")
                if refused:
                    nontrivial.append(h([backend, save_roles, query_roles, reader_rs, "refused-then-auth"]))
                    bad = [f for n, f in late.parsed_frames(n0) if isinstance(f, list) and f[0] in ("EVENT", "EOSE") and f[1] == "early"]
                    if bad:
                        viols.append({"key": "%s/refused-req-served-later" % backend,
                                      "msg": "[%s] query=%s: REQ 'early' was refused ('restricted'), yet after AUTH + REQ 'mine' the connection received %d frame(s) under 'early' (%s)"
                                             % (backend, query_roles, len(bad), [f[0] for f in bad][:4]), "replay": rp})
        # every EVENT frame must be covered by an approving validator call for that event + connection
        approved = {}
        denied = set()
        for eid, cid, verdict in ov.CALLS:
            if verdict:
                approved.setdefault(eid, set()).add(cid.rsplit("-", 1)[0])
            else:
                denied.add((eid, cid.rsplit("-", 1)[0]))
        for rs, c in conns.items():
            sub_live = {}
            for n, f in c.parsed_frames():
                if isinstance(f, list) and len(f) > 2 and f[0] == "EVENT" and isinstance(f[2], dict):
                    bump(val, "frames_checked")
                    eid = f[2].get("id")
                    path = "live" if f[1] == "q" and eid in {e["id"] for e in pubs} else "stored"
                    nontrivial.append(h([backend, save_roles, query_roles, rs, "frame", path, f[2].get("content", "")[:12]]))
                    if c.addr not in approved.get(eid, set()):
                        viols.append({"key": "%s/sent-without-output-validator/%s" % (backend, path),
                                      "msg": "[%s] EVENT %s (%r) sent to roles %s via %s path without an approving output-validator call%s"
                                             % (backend, eid[:10], f[2].get("content", "")[:30], rs or "anon", path, " (it was REJECTED)" if (eid, c.addr) in denied else ""), "replay": rp})
        counters["validator_calls"] = counters.get("validator_calls", 0) + len(ov.CALLS)
    finally:
        await rig.close()
    return viols, nontrivial


async def run_readback(backend, n, counters, seed):
    service = ref.key_from_seed("service")
    # max_limit (a bound on what a REQ returns) is set far below the number of assignments: the relay's own
    # look-ups of the role table are not client REQs
    rig = R.Rig(backend=backend, config={"analysis_delay": 0, "service_privatekey": service.sk_hex, "max_limit": 5,
                                          "authentication": {"enabled": True, "relay_urls": ["ws://localhost:6969"]}})
    await rig.start()
    viols, nontrivial = [], []
    rb = counters.setdefault("readback", {})
    r = random.Random(seed)
    final_roles = {}
    try:
        for i in range(n):
            k = ref.key_from_seed("c14-rb-%d-%d" % (seed, i))
            seq = [r.choice(SUBSETS + ["", "W", "rW"]) for _ in range(r.randint(2, 6))]
            before = await rig.storage.get_auth_roles(k.pk)
            if before != {"a"}:
                viols.append({"key": "%s/readback/default" % backend, "msg": "[%s] roles of an unknown pubkey read as %s" % (backend, before), "replay": {"backend": backend, "mode": "readback", "seed": seed, "n": n}})
            for j, roles in enumerate(seq):
                await rig.storage.set_auth_roles(k.pk, roles)
                rb["assignments"] = rb.get("assignments", 0) + 1
                if r.random() < 0.5:
                    await rig.quiesce()
                    got = await rig.storage.get_auth_roles(k.pk)
                    want = set(roles.lower())
                    nontrivial.append(h([backend, "readback", tuple(seq[: j + 1])]))
                    if got != want and not (want == set() and got in (set(), {"a"})):
                        viols.append({"key": "%s/readback/stale-or-wrong/%s" % (backend, "same-second" if j else "first"),
                                      "msg": "[%s] roles set to %r (sequence %s) read back as %s" % (backend, roles, seq[: j + 1], sorted(got)), "replay": {"backend": backend, "mode": "readback", "seed": seed, "n": n}})
            await rig.quiesce()
            got = await rig.storage.get_auth_roles(k.pk)
            want = set(seq[-1].lower())
            final_roles[k.pk] = want
            if got != want and not (want == set() and got in (set(), {"a"})):
                viols.append({"key": "%s/readback/final" % backend, "msg": "[%s] after assignments %s the roles read back as %s" % (backend, seq, sorted(got)),
                              "replay": {"backend": backend, "mode": "readback", "seed": seed, "n": n}})
        # ---- assignments that pile up behind a busy writer (another process holds the LMDB write lock, the queue is
        # backed up): A, B, A in a row - what is read back afterwards is the LAST assignment
        if backend == "lmdb":
            for i, (a, b) in enumerate((("r", "w"), ("w", "r"), ("rw", ""), ("a", "w"))):
                k = ref.key_from_seed("c14-aba-%d-%d" % (seed, i))
                await rig.storage.set_auth_roles(k.pk, a)
                await rig.quiesce()
                txn = rig.storage.db.begin(write=True)  # the writer thread now waits for the lock
                try:
                    for roles in (b, a):
                        await rig.storage.set_auth_roles(k.pk, roles)
                        await asyncio.sleep(0.01)
                finally:
                    txn.abort()
                await rig.quiesce()
                got = await rig.storage.get_auth_roles(k.pk)
                want = set(a)
                rb["aba_sequences"] = rb.get("aba_sequences", 0) + 1
                nontrivial.append(h([backend, "readback-aba", a, b]))
                final_roles[k.pk] = want
                if got != want:
                    viols.append({"key": "%s/readback/last-assignment-lost-behind-busy-writer" % backend,
                                  "msg": "[%s] roles set to %r, then (while another writer held the write lock) to %r and back to %r: read back as %s" % (backend, a, b, a, sorted(got)),
                                  "replay": {"backend": backend, "mode": "readback", "seed": seed, "n": n}})
        # the whole table, as `nostr-relay role get` lists it
        listing = {}
        async for pk, roles in rig.storage.get_all_auth_roles():
            listing[pk] = set(roles)
        rb["listed"] = rb.get("listed", 0) + len(listing)
        missing = [pk for pk, want in final_roles.items() if want and listing.get(pk) != want]
        nontrivial.append(h([backend, "listing", n]))
        if missing:
            viols.append({"key": "%s/readback/listing-incomplete" % backend,
                          "msg": "[%s] %d pubkeys have roles (max_limit 5); the listing of all assignments shows %d, %d of the assigned ones are missing or differ (e.g. %s: %s instead of %s)"
                                 % (backend, sum(1 for w in final_roles.values() if w), len(listing), len(missing), missing[0][:8], sorted(listing.get(missing[0], [])), sorted(final_roles[missing[0]])),
                          "replay": {"backend": backend, "mode": "readback", "seed": seed, "n": n}})
    finally:
        await rig.close()
    return viols, nontrivial


async def run_reopen(backend, n, counters, seed):
    """assignments, then at once an orderly close; a new storage on the same files must read the last ones back"""
    from .. import env

    service = ref.key_from_seed("service")
    cfg = {"analysis_delay": 0, "service_privatekey": service.sk_hex, "authentication": {"enabled": True, "relay_urls": ["ws://localhost:6969"]}}
    scratch = env.scratch("vf-c14-reopen-")
    r = random.Random(seed)
    viols, nontrivial = [], []
    rb = counters.setdefault("readback", {})
    last = {}
    keys = [ref.key_from_seed("c14-ro-%d-%d" % (seed, i)) for i in range(n)]
    rounds = 3
    for rnd in range(rounds):
        rig = R.Rig(backend=backend, config=cfg, scratch_dir=scratch)
        await rig.start(create_schema=(rnd == 0))
        try:
            # what the previous incarnation was told
            for k in keys:
                if k.pk in last:
                    got = await rig.storage.get_auth_roles(k.pk)
                    want = set(last[k.pk].lower())
                    rb["after_reopen"] = rb.get("after_reopen", 0) + 1
                    nontrivial.append(h([backend, "reopen", rnd, last[k.pk]]))
                    if got != want and not (want == set() and got in (set(), {"a"})):
                        viols.append({"key": "%s/readback/lost-by-close" % backend,
                                      "msg": "[%s] roles of %s were set to %r, the storage was closed in an orderly way and re-opened: they read back as %s"
                                             % (backend, k.pk[:8], last[k.pk], sorted(got)), "replay": {"backend": backend, "mode": "reopen", "seed": seed, "n": n}})
            if rnd == rounds - 1:
                break
            conn = rig.connect("load")
            for k in keys:
                roles = r.choice(SUBSETS)
                await rig.storage.set_auth_roles(k.pk, roles)
                last[k.pk] = roles
            if rnd == 0:
                await rig.quiesce()
            # a second batch (and some ordinary traffic) right before the close
            for i, k in enumerate(keys):
                if r.random() < 0.7:
                    roles = r.choice([x for x in SUBSETS if x != last[k.pk]])
                    if i % 4 == 0:
                        conn.feed(["EVENT", ref.make_event(service, kind=1, created_at=gen.T0 + i, content="load %d %d %d" % (seed, rnd, i))])
                    await rig.storage.set_auth_roles(k.pk, roles)
                    last[k.pk] = roles
                    rb["assignments"] = rb.get("assignments", 0) + 1
            await conn.processed()
        finally:
            await rig.close()
    import shutil

    shutil.rmtree(scratch, ignore_errors=True)
    return viols, nontrivial


def run_shard(spec):
    if spec.get("mode") == "e2e":
        from .. import e2e_cases

        return e2e_cases.run_e2e_shard(ID, spec)
    counters = {}
    viols, nontrivial = [], []
    if spec.get("mode") == "readback":
        v, nt = R.run(run_readback, spec["backend"], spec["n"], counters, spec["case_seed"])
        viols.extend(v)
        nontrivial.extend(nt)
        for j in range(2 if spec["n"] <= 12 else 6):
            v, nt = R.run(run_reopen, spec["backend"], 12, counters, spec["case_seed"] + j)
            viols.extend(v)
            nontrivial.extend(nt)
    else:
        for i, (s, q) in enumerate(spec["maps"]):
            v, nt = R.run(run_map, spec["backend"], s, q, counters, spec["case_seed"] + i)
            viols.extend(v)
            nontrivial.extend(nt)
    seen, out = {}, []
    for v in viols:
        seen[v["key"]] = seen.get(v["key"], 0) + 1
        if seen[v["key"]] <= 1:
            out.append(v)
    counters["violations_by_key"] = seen
    return {"evaluations": sum(counters.get("cells", {}).values()) + counters.get("readback", {}).get("assignments", 0), "nontrivial": sorted(set(nontrivial)),
            "counters": counters, "coverage": {"backends": {spec["backend"]: 1}, "configs": len(spec.get("maps", []))}, "violations": out,
            "samples": [{"backend": spec["backend"], "maps": spec.get("maps", [])[:3], "mode": spec.get("mode", "matrix")}], "inconclusive": []}


def replay(rp, spec):
    if rp.get("mode") == "e2e":
        from .. import e2e_cases

        return e2e_cases.run_e2e_shard(ID, rp)
    counters = {}
    if rp.get("mode") == "reopen":
        v, nt = R.run(run_reopen, rp["backend"], rp["n"], counters, rp["seed"])
    elif rp.get("mode") == "readback":
        v, nt = R.run(run_readback, rp["backend"], rp["n"], counters, rp["seed"])
    else:
        v, nt = R.run(run_map, rp["backend"], rp["save"], rp["query"], counters, rp["seed"])
    return {"evaluations": 1, "nontrivial": nt, "counters": counters, "violations": v, "samples": [], "inconclusive": []}
