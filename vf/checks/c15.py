"""
C15 - NIP-42 authentication succeeds only for a fresh, correctly signed answer.

Reference predicate (harness crypto + an injected clock over auth.time): validly signed by
the claimed pubkey, kind 22242, |now - created_at| < 600 (599 must pass, 601 must fail),
exactly one relay tag EQUAL to a configured URL and one challenge tag equal to THIS
connection's challenge.  Every AUTH payload derived from a valid one by a single change is
presented through the real connection handler; the identity the connection ends up with is
read through behaviour (only P1 may save, only P2 may query).  Challenges are tapped at
secrets.token_hex: what goes on the wire must be a fresh value of >= 128 bits, and 10^5
challenges must be pairwise distinct.
"""
import asyncio
import json
import random

from .. import rig as R, ref, gen, dump, hist
from ..orch import h

ID = "C15"
TECHNIQUE = 'runtime monitoring - reference predicate for NIP-42 answers with an injected clock: ~90 single mutations of a valid answer, AUTH sequences and replays across connections, time-bound sweep with fractional clocks; challenge provenance tapped at secrets.token_hex, 10^5 challenges distinct; end-to-end shard: challenges collected from the forked workers of a real preloaded gunicorn server (distinct, 128-bit hex, several workers observed by /proc placement), an answer replayed on a connection of another worker process'
LEVEL = "exploration"
RULE = (
    "cases = (relay_urls configured as list / as plain string / absent (default), backend SQL or LMDB, one AUTH payload "
    "out of ~90 single mutations of a valid answer: kind, signature, signer, created_at at both bounds +-1 s, challenge "
    "of another / an earlier connection / prefix / empty, relay URL equal / prefix / substring / superstring / empty / "
    "case / trailing slash, tags missing / bare / duplicated / extra, payload of wrong JSON type; plus the AUTH "
    "sequences good->bad, bad->good, P1->P2, P1->replayed P2 answer of another connection, an answer ACCEPTED on its own "
    "connection replayed on one / two other connections and on the same connection 700 s later, the id and sig of one "
    "identity's accepted answer under another pubkey, both time bounds with a relay clock of NOW+0.99 s). Non-trivial = a payload the "
    "reference rejects (must-refuse) or an identity-preservation check after a failed attempt. Distinct = distinct "
    "(config, mutation label, prior identity)."
)
ASSUMPTIONS = [
    "end-to-end shards: a real gunicorn/uvicorn server process tree started from the tree under test (vf/e2e_launch.py: the repository's run_with_gunicorn / run_with_uvicorn; the SQL schema is made with the repository's metadata.create_all because its alembic env.py does not run with the installed SQLAlchemy; the notifier's fixed TCP port 6000 is replaced by a free port), spoken to over loopback TCP with the websockets client; real time, real sleeps",
    "unpredictability of challenges cannot be decided by observation: provenance (secrets.token_hex, >= 16 bytes) and distinctness are monitored instead",
    "URL case / trailing-slash variants and duplicated tags with one correct value are free; created_at exactly 600 s off is free",
    "identity is observed through behaviour: save requires role w (only P1 has it), query requires role r (only P2)",
]
MIN_NONTRIVIAL = {"quick": 150, "thorough": 1500}
REQUIRED_COUNTERS = ["e2e.e2e_challenges", "e2e.e2e_foreign_answers", "payloads.must_refuse", "payloads.must_accept", "sequences", "challenges_checked"]
SHARD_TIMEOUT = {"quick": 600, "thorough": 3200}
URL = "ws://relay.example:6969"
NOW = 1700000000


def plan(tier, seed):
    return _plan(tier, seed) + e2e_plan(tier, seed)


def e2e_plan(tier, seed):
    """shards on a REAL server process tree (vf/e2e.py)"""
    out = [{"mode": "e2e", "e2e": "c15", "backend": "sql", "workers": 3, "seed": seed}, {"mode": "e2e", "e2e": "c15", "backend": "lmdb", "workers": 2, "seed": seed}]
    if tier == "thorough":
        out += [{"mode": "e2e", "e2e": "c15", "backend": b, "workers": w, "seed": seed + 1 + w} for b in ("sql", "lmdb") for w in (2, 4)]
    return out


def _plan(tier, seed):
    out = []
    for backend in (("sql", "lmdb") if tier == "thorough" else ("sql", "lmdb")):
        for urls in ("list", "string", "default"):
            out.append({"backend": backend, "urls": urls, "case_seed": seed, "mode": "payloads"})
    out.append({"mode": "challenges", "case_seed": seed, "n": 100000 if tier == "quick" else 400000})
    if tier == "thorough":
        for backend in ("sql", "lmdb"):
            for urls in ("list", "string", "default"):
                for part in range(4):
                    out.append({"backend": backend, "urls": urls, "case_seed": seed, "mode": "sweep", "part": part, "parts": 4})
    return out


def url_config(kind):
    if kind == "list":
        return [URL, "wss://other.example"], URL
    if kind == "string":
        return URL, URL
    return None, "ws://localhost:6969"


def payloads(p1, p2, challenge, url, other_challenges):
    """(label, payload, verdict) verdict in ACCEPT / REFUSE / FREE; signer identity for ACCEPT"""
    def mk(key=p1, kind=22242, created_at=NOW, tags=None, content="", **over):
        tags = [["relay", url], ["challenge", challenge]] if tags is None else tags
        ev = ref.make_event(key, kind=kind, created_at=created_at, tags=tags, content=content)
        ev.update(over)
        return ev

    out = [("valid", mk(), "ACCEPT")]
    for k in (22241, 22243, 1, 0, 22242 + 65536):
        out.append(("kind=%d" % k, mk(kind=k), "REFUSE"))
    ev = mk()
    b = bytearray(bytes.fromhex(ev["sig"]))
    b[5] ^= 4
    out.append(("sig=bit-flip", dict(ev, sig=bytes(b).hex()), "REFUSE"))
    out.append(("sig=of-other-key", dict(mk(), sig=mk(key=p2)["sig"]), "REFUSE"))
    e2 = mk(key=p2)
    out.append(("pubkey=claims-p1-signed-by-p2", dict(e2, pubkey=p1.pk), "REFUSE"))
    out.append(("content-changed-after-signing", dict(mk(), content="x"), "REFUSE"))
    for dt, verdict in ((-601, "REFUSE"), (-600, "FREE"), (-599, "ACCEPT"), (599, "ACCEPT"), (600, "FREE"), (601, "REFUSE"), (-86400, "REFUSE"), (86400, "REFUSE")):
        out.append(("created_at=now%+d" % dt, mk(created_at=NOW + dt), verdict))
    for lab, ch in [("other-connection", other_challenges[0]), ("earlier-connection", other_challenges[1]), ("prefix", challenge[:-1]), ("superstring", challenge + "0"),
                    ("empty", ""), ("upper", challenge.upper() if challenge.upper() != challenge else challenge + "A")]:
        out.append(("challenge=" + lab, mk(tags=[["relay", url], ["challenge", ch]]), "REFUSE"))
    for lab, u, verdict in [("prefix", url[:-3], "REFUSE"), ("scheme-only", "ws://", "REFUSE"), ("substring", url[5:-2], "REFUSE"), ("one-char", url[0], "REFUSE"), ("empty", "", "REFUSE"),
                            ("superstring", url + "0", "REFUSE"), ("other-host", "ws://evil.example:6969", "REFUSE"), ("path-added", url + "/x", "FREE"),
                            ("trailing-slash", url + "/", "FREE"), ("upper-case", url.upper(), "FREE")]:
        out.append(("relay=" + lab, mk(tags=[["relay", u], ["challenge", challenge]]), verdict))
    out.append(("tags=no-relay", mk(tags=[["challenge", challenge]]), "REFUSE"))
    out.append(("tags=no-challenge", mk(tags=[["relay", url]]), "REFUSE"))
    out.append(("tags=none", mk(tags=[]), "REFUSE"))
    out.append(("tags=bare-relay", mk(tags=[["relay"], ["challenge", challenge]]), "REFUSE"))
    out.append(("tags=bare-challenge", mk(tags=[["relay", url], ["challenge"]]), "REFUSE"))
    out.append(("tags=relay-wrong-then-right", mk(tags=[["relay", "ws://evil"], ["relay", url], ["challenge", challenge]]), "FREE"))
    out.append(("tags=challenge-right-then-wrong", mk(tags=[["relay", url], ["challenge", challenge], ["challenge", "x"]]), "FREE"))
    out.append(("tags=challenge-in-relay-slot", mk(tags=[["relay", challenge], ["challenge", url]]), "REFUSE"))
    out.append(("tags=extra", mk(tags=[["relay", url], ["challenge", challenge], ["p", p2.pk], ["x"]]), "ACCEPT"))
    out.append(("tags=value-in-third-item", mk(tags=[["relay", "x", url], ["challenge", "y", challenge]]), "REFUSE"))
    out.append(("content=text", mk(content="hello"), "ACCEPT"))
    for lab, val in [("list", [1, 2]), ("str", "x"), ("null", None), ("int", 5), ("empty-obj", {})]:
        out.append(("payload=" + lab, val, "REFUSE"))
    e = mk()
    del e["sig"]
    out.append(("sig-missing", e, "REFUSE"))
    e = mk()
    del e["tags"]
    out.append(("tags-missing", e, "REFUSE"))
    out.append(("kind=str", dict(mk(), kind="22242"), "FREE"))
    out.append(("created_at=str", dict(mk(), created_at=str(NOW)), "REFUSE"))
    out.append(("extra-key", dict(mk(), extra=1), "FREE"))
    return out


async def identity_of(rig, conn, p1, n):
    """observe the connection's identity through behaviour"""
    k = ref.key_from_seed("c15-author")
    ev = ref.make_event(k, kind=1, created_at=gen.T0 + n, content="probe%d" % n)
    n0 = rig.rec.n
    await conn.cmd(["EVENT", ev])
    oks = R.ok_frames(conn, n0)
    can_save = bool(oks and oks[-1][1][2] is True)
    m0 = rig.rec.n
    await conn.cmd(["REQ", "idq", {"kinds": [1], "limit": 1}])
    await rig.quiesce()
    fr = [f for _, f in conn.parsed_frames(m0) if isinstance(f, list)]
    can_query = not any(f[0] == "NOTICE" for f in fr)
    if can_query and not conn.exited:
        await conn.cmd(["CLOSE", "idq"])
    return "P1" if can_save else ("P2" if can_query else "anon")


async def run_payloads(backend, urls_kind, counters, seed):
    urls, url = url_config(urls_kind)
    service = ref.key_from_seed("service")
    authcfg = {"enabled": True, "actions": {"save": "w", "query": "r"}}
    if urls is not None:
        authcfg["relay_urls"] = urls
    rig = R.Rig(backend=backend, config={"analysis_delay": 0, "service_privatekey": service.sk_hex, "authentication": authcfg})
    rig.load_config()
    from nostr_relay import auth

    from nostr_relay import web as _web

    clock = hist.Clock(NOW).install(auth, _web)
    issued = []
    real_token_hex = auth.secrets.token_hex

    class Secrets:
        def token_hex(self, n=None):
            v = real_token_hex(n)
            issued.append((n, v))
            return v

        def __getattr__(self, name):
            return getattr(__import__("secrets"), name)

    auth.secrets = Secrets()
    await rig.start()
    viols, nontrivial = [], []
    pc = counters.setdefault("payloads", {})

    def bump(d, k, n=1):
        d[k] = d.get(k, 0) + n

    try:
        p1, p2 = ref.key_from_seed("c15-p1"), ref.key_from_seed("c15-p2")
        await rig.storage.set_auth_roles(p1.pk, "w")
        await rig.storage.set_auth_roles(p2.pk, "r")
        await rig.quiesce()

        async def fresh_conn(name):
            c = rig.connect(name)
            await rig.quiesce()
            ch = next((f[1] for _, f in c.parsed_frames() if isinstance(f, list) and f and f[0] == "AUTH"), None)
            return c, ch

        old, ch_old = await fresh_conn("old")
        other, ch_other = await fresh_conn("other")
        old.disconnect()
        await old.processed()
        # challenges on the wire come from secrets.token_hex and are distinct
        chs = [ch_old, ch_other]
        n = 0
        template_conn, template_ch = await fresh_conn("tmpl")
        plist = payloads(p1, p2, "CH", url, [ch_other, ch_old])
        for idx in range(len(plist)):
            for prior in (("anon", "P1") if idx % 3 == 0 else ("anon",)):
                n += 1
                conn, ch = await fresh_conn("a%d" % n)
                chs.append(ch)
                label, payload, verdict = payloads(p1, p2, ch, url, [ch_other, ch_old])[idx]
                rp = {"backend": backend, "urls": urls_kind, "label": label, "prior": prior}
                if prior == "P1":
                    good = payloads(p1, p2, ch, url, [ch_other, ch_old])[0][1]
                    await conn.cmd(["AUTH", good])
                    if await identity_of(rig, conn, p1, n * 10) != "P1":
                        viols.append({"key": "valid-answer-refused/%s" % urls_kind, "msg": "[%s/%s] a valid AUTH answer did not authenticate" % (backend, urls_kind), "replay": rp})
                        continue
                m0 = rig.rec.n
                await conn.cmd(["AUTH", payload])
                await rig.quiesce()
                closed = conn.exited
                ident = "anon" if closed else await identity_of(rig, conn, p1, n * 10 + 1)
                expected_signer = "P1"
                if verdict == "ACCEPT":
                    bump(pc, "must_accept")
                    if ident != expected_signer:
                        viols.append({"key": "valid-answer-refused/%s" % label.split("=")[0], "msg": "[%s/%s] %s: the reference accepts this answer but the connection ended up as %s (closed=%s)"
                                      % (backend, urls_kind, label, ident, closed), "replay": rp})
                elif verdict == "REFUSE":
                    bump(pc, "must_refuse")
                    nontrivial.append(h([urls_kind, label, prior]))
                    if prior == "anon" and ident != "anon":
                        viols.append({"key": "accepted/%s/%s" % (label.split("=")[0], classify(label, urls_kind)),
                                      "msg": "[%s/%s] %s: the reference refuses this answer but the connection became %s; payload %s"
                                             % (backend, urls_kind, label, ident, json.dumps(payload, default=repr)[:300]), "replay": rp})
                    if prior == "P1" and not closed and ident != "P1":
                        viols.append({"key": "identity-changed-after-failed-auth/%s" % label.split("=")[0],
                                      "msg": "[%s/%s] %s: a failed AUTH changed the identity of an authenticated connection from P1 to %s" % (backend, urls_kind, label, ident), "replay": rp})
                else:
                    bump(pc, "free")
                if not conn.exited:
                    conn.disconnect()
                    await conn.processed()
        # ---- sequences -------------------------------------------------------------------------------
        for seqname in ("good-bad", "bad-good", "P1-P2", "P1-then-replayed-P2-answer-of-other-connection"):
            counters["sequences"] = counters.get("sequences", 0) + 1
            conn, ch = await fresh_conn("s-" + seqname)
            conn2, ch2 = await fresh_conn("s2-" + seqname)
            good1 = ref.make_event(p1, kind=22242, created_at=NOW, tags=[["relay", url], ["challenge", ch]], content="")
            good2 = ref.make_event(p2, kind=22242, created_at=NOW, tags=[["relay", url], ["challenge", ch]], content="")
            bad = ref.make_event(p2, kind=22242, created_at=NOW, tags=[["relay", url], ["challenge", "nope"]], content="")
            foreign2 = ref.make_event(p2, kind=22242, created_at=NOW, tags=[["relay", url], ["challenge", ch2]], content="")
            steps = {"good-bad": [(good1, "P1"), (bad, "P1")], "bad-good": [(bad, "anon"), (good1, "P1")], "P1-P2": [(good1, "P1"), (good2, "P2")],
                     "P1-then-replayed-P2-answer-of-other-connection": [(good1, "P1"), (foreign2, "P1")]}[seqname]
            for i, (payload, want) in enumerate(steps):
                await conn.cmd(["AUTH", payload])
                got = await identity_of(rig, conn, p1, 100000 + counters["sequences"] * 10 + i)
                nontrivial.append(h([urls_kind, "seq", seqname, i]))
                if got != want:
                    viols.append({"key": "sequence/%s/step%d" % (seqname, i), "msg": "[%s/%s] AUTH sequence %s: after step %d the identity is %s, expected %s" % (backend, urls_kind, seqname, i, got, want),
                                  "replay": {"backend": backend, "urls": urls_kind, "label": "seq:" + seqname}})
        # ---- an answer that was ACCEPTED once is not a ticket: replayed elsewhere / later it must fail -------
        for seqname in ("accepted-answer-replayed-on-other-connection", "accepted-answer-replayed-twice-elsewhere", "accepted-answer-replayed-when-stale"):
            counters["sequences"] = counters.get("sequences", 0) + 1
            clock.now = NOW
            conn, ch = await fresh_conn("r-" + seqname)
            conn2, ch2 = await fresh_conn("r2-" + seqname)
            conn3, ch3 = await fresh_conn("r3-" + seqname)
            good1 = ref.make_event(p1, kind=22242, created_at=NOW, tags=[["relay", url], ["challenge", ch]], content="")
            good2 = ref.make_event(p2, kind=22242, created_at=NOW, tags=[["relay", url], ["challenge", ch]], content="")
            base = 200000 + counters["sequences"] * 10
            rp = {"backend": backend, "urls": urls_kind, "label": "seq:" + seqname}
            await conn.cmd(["AUTH", good1])
            got = await identity_of(rig, conn, p1, base)
            if got != "P1":
                viols.append({"key": "sequence/%s/genuine-use" % seqname, "msg": "[%s/%s] %s: the genuine answer left the connection as %s" % (backend, urls_kind, seqname, got), "replay": rp})
                continue
            nontrivial.append(h([urls_kind, "seq", seqname]))
            if seqname == "accepted-answer-replayed-when-stale":
                await conn.cmd(["AUTH", good2])
                got = await identity_of(rig, conn, p1, base + 1)
                clock.now = NOW + 700
                await conn.cmd(["AUTH", good1])
                got2 = await identity_of(rig, conn, p1, base + 2)
                clock.now = NOW
                if got == "P2" and got2 != "P2":
                    viols.append({"key": "sequence/%s" % seqname, "msg": "[%s/%s] an answer accepted earlier was accepted again 700 s after its timestamp (identity %s -> %s)" % (backend, urls_kind, got, got2), "replay": rp})
                continue
            for j, c in enumerate([conn2, conn3] if seqname.endswith("twice-elsewhere") else [conn2]):
                await c.cmd(["AUTH", good1])
                await rig.quiesce()
                got = "anon" if c.exited else await identity_of(rig, c, p1, base + 3 + j)
                if got != "anon":
                    viols.append({"key": "sequence/%s" % seqname,
                                  "msg": "[%s/%s] the answer signed for the challenge of one connection and accepted there made ANOTHER connection (own challenge %s...) %s" % (backend, urls_kind, (ch2 or "")[:8], got),
                                  "replay": rp})
        # ---- the relay's clock is not a whole number of seconds ---------------------------------------
        for dt, verdict in ((-601, "REFUSE"), (-600, "REFUSE"), (-599, "ACCEPT"), (599, "ACCEPT"), (600, "ACCEPT"), (601, "REFUSE")):
            clock.now = NOW + 0.99
            conn, ch = await fresh_conn("f%d" % dt)
            ev = ref.make_event(p1, kind=22242, created_at=NOW + dt, tags=[["relay", url], ["challenge", ch]], content="")
            await conn.cmd(["AUTH", ev])
            await rig.quiesce()
            got = "anon" if conn.exited else await identity_of(rig, conn, p1, 300000 + dt)
            clock.now = NOW
            bump(pc, "must_refuse" if verdict == "REFUSE" else "must_accept")
            nontrivial.append(h([urls_kind, "fractional-clock", dt]))
            age = 0.99 - dt
            if verdict == "REFUSE" and got != "anon":
                viols.append({"key": "accepted/created_at/fractional-clock", "msg": "[%s/%s] an answer timestamped %.2f s %s the relay's clock (ten minutes = 600 s) authenticated the connection"
                              % (backend, urls_kind, abs(age), "before" if age > 0 else "after"), "replay": {"backend": backend, "urls": urls_kind, "label": "fractional-clock"}})
            if verdict == "ACCEPT" and got != "P1":
                viols.append({"key": "valid-answer-refused/created_at/fractional-clock", "msg": "[%s/%s] an answer timestamped %.2f s %s the relay's clock was refused"
                              % (backend, urls_kind, abs(age), "before" if age > 0 else "after"), "replay": {"backend": backend, "urls": urls_kind, "label": "fractional-clock"}})
        # ---- "within ten minutes of NOW": a connection that has been open for a while (the relay's clock, also the
        # one its connection handler reads, moves on between the challenge and the answer)
        for held, age, verdict in ((900, 650, "REFUSE"), (900, 601, "REFUSE"), (900, 100, "ACCEPT"), (5000, 4000, "REFUSE"), (5000, -650, "REFUSE"), (5000, -100, "ACCEPT")):
            clock.now = NOW
            conn, ch = await fresh_conn("held%d-%d" % (held, age))
            clock.now = NOW + held
            ev = ref.make_event(p1, kind=22242, created_at=NOW + held - age, tags=[["relay", url], ["challenge", ch]], content="")
            await conn.cmd(["AUTH", ev])
            await rig.quiesce()
            got = "anon" if conn.exited else await identity_of(rig, conn, p1, 600000 + held + age)
            clock.now = NOW
            bump(pc, "must_refuse" if verdict == "REFUSE" else "must_accept")
            nontrivial.append(h([urls_kind, "held-connection", held, age]))
            if verdict == "REFUSE" and got != "anon":
                viols.append({"key": "accepted/created_at/connection-held-open", "msg": "[%s/%s] on a connection opened %d s earlier an answer timestamped %d s %s the relay's clock authenticated the connection"
                              % (backend, urls_kind, held, abs(age), "before" if age > 0 else "after"), "replay": {"backend": backend, "urls": urls_kind, "label": "held-connection"}})
            if verdict == "ACCEPT" and got != "P1":
                viols.append({"key": "valid-answer-refused/created_at/connection-held-open", "msg": "[%s/%s] on a connection opened %d s earlier a fresh answer (%d s %s now) was refused"
                              % (backend, urls_kind, held, abs(age), "before" if age > 0 else "after"), "replay": {"backend": backend, "urls": urls_kind, "label": "held-connection"}})
        # ---- somebody else's verified id and signature under the victim's name -----------------------
        counters["sequences"] = counters.get("sequences", 0) + 1
        connx, chx = await fresh_conn("x-own")
        own = ref.make_event(p2, kind=22242, created_at=NOW, tags=[["relay", url], ["challenge", chx]], content="")
        await connx.cmd(["AUTH", own])
        if await identity_of(rig, connx, p1, 400001) == "P2":
            for variant in ("same-id-and-sig", "same-id-and-sig-own-content"):
                conny, chy = await fresh_conn("y-" + variant)
                forged = {"id": own["id"], "sig": own["sig"], "pubkey": p1.pk, "created_at": NOW, "kind": 22242,
                          "tags": [["relay", url], ["challenge", chy]], "content": "" if variant == "same-id-and-sig" else "x"}
                await conny.cmd(["AUTH", forged])
                await rig.quiesce()
                got = "anon" if conny.exited else await identity_of(rig, conny, p1, 400002 + len(variant))
                nontrivial.append(h([urls_kind, "seq", "verified-id-reused", variant]))
                if got != "anon":
                    viols.append({"key": "sequence/verified-id-and-sig-reused-under-another-pubkey",
                                  "msg": "[%s/%s] after P2 authenticated honestly, an AUTH naming P1 as pubkey but carrying the id and sig of P2's answer made the connection %s" % (backend, urls_kind, got),
                                  "replay": {"backend": backend, "urls": urls_kind, "label": "seq:verified-id-reused"}})
        # ---- the victim's own verified id and signature around REWRITTEN tags: the fields that were signed are
        # not the fields presented (challenge of the attacker's connection, refreshed created_at, other relay)
        counters["sequences"] = counters.get("sequences", 0) + 1
        connv, chv = await fresh_conn("v-genuine")
        genuine = ref.make_event(p1, kind=22242, created_at=NOW, tags=[["relay", url], ["challenge", chv]], content="")
        await connv.cmd(["AUTH", genuine])
        if await identity_of(rig, connv, p1, 500001) == "P1":
            for vi, variant in enumerate(("challenge-rewritten", "challenge-and-created_at-rewritten", "tags-reordered-challenge-rewritten", "content-added-challenge-rewritten")):
                connz, chz = await fresh_conn("z-" + variant)
                forged = dict(genuine, tags=[["relay", url], ["challenge", chz]])
                if variant == "challenge-and-created_at-rewritten":
                    forged["created_at"] = NOW + 30
                elif variant == "tags-reordered-challenge-rewritten":
                    forged["tags"] = [["challenge", chz], ["relay", url]]
                elif variant == "content-added-challenge-rewritten":
                    forged["content"] = "x"
                await connz.cmd(["AUTH", forged])
                await rig.quiesce()
                got = "anon" if connz.exited else await identity_of(rig, connz, p1, 500010 + vi)
                nontrivial.append(h([urls_kind, "seq", "verified-sig-reused", variant]))
                bump(pc, "must_refuse")
                if got != "anon":
                    viols.append({"key": "sequence/verified-id-and-sig-around-rewritten-tags",
                                  "msg": "[%s/%s] after P1 authenticated honestly on one connection, the same id, pubkey and sig around a rewritten challenge tag (%s) made ANOTHER connection %s" % (backend, urls_kind, variant, got),
                                  "replay": {"backend": backend, "urls": urls_kind, "label": "seq:verified-sig-reused"}})
        # ---- challenge provenance ---------------------------------------------------------------------
        counters["challenges_checked"] = counters.get("challenges_checked", 0) + len(chs)
        issued_vals = [v for _, v in issued]
        for c in chs:
            if c is None or c not in issued_vals:
                viols.append({"key": "challenge-not-from-secrets", "msg": "[%s] challenge %r on the wire was not produced by secrets.token_hex" % (backend, c), "replay": {"backend": backend, "urls": urls_kind, "label": "challenge"}})
            elif len(c) < 32:
                viols.append({"key": "challenge-too-short", "msg": "[%s] challenge %r has fewer than 128 bits" % (backend, c), "replay": {"backend": backend, "urls": urls_kind, "label": "challenge"}})
        if len(set(chs)) != len(chs):
            viols.append({"key": "challenge-repeated", "msg": "[%s] two connections got the same challenge" % backend, "replay": {"backend": backend, "urls": urls_kind, "label": "challenge"}})
    finally:
        await rig.close()
    return viols, nontrivial


async def run_sweep(backend, urls_kind, counters, part, parts):
    """both time bounds swept second by second around +-600 s (and coarsely in between), with relay clocks of
    NOW, NOW+0.5 and NOW+0.99, from an anonymous and from an authenticated connection"""
    urls, url = url_config(urls_kind)
    service = ref.key_from_seed("service")
    authcfg = {"enabled": True, "actions": {"save": "w", "query": "r"}}
    if urls is not None:
        authcfg["relay_urls"] = urls
    rig = R.Rig(backend=backend, config={"analysis_delay": 0, "service_privatekey": service.sk_hex, "authentication": authcfg})
    rig.load_config()
    from nostr_relay import auth

    clock = hist.Clock(NOW).install(auth)
    await rig.start()
    viols, nontrivial = [], []
    pc = counters.setdefault("payloads", {})
    try:
        p1, p2 = ref.key_from_seed("c15-p1"), ref.key_from_seed("c15-p2")
        await rig.storage.set_auth_roles(p1.pk, "w")
        await rig.storage.set_auth_roles(p2.pk, "r")
        await rig.quiesce()
        dts = sorted(set(list(range(-615, -584)) + list(range(585, 616)) + list(range(-900, 901, 60)) + [0, -3600, 3600, -86400 * 365, 86400 * 365]))
        cases = [(dt, frac, prior) for dt in dts for frac in (0, 0.5, 0.99) for prior in ("anon", "P2")]
        n = 0
        for ci, (dt, frac, prior) in enumerate(cases):
            if ci % parts != part:
                continue
            n += 1
            clock.now = NOW
            conn = rig.connect("sw%d" % n)
            await rig.quiesce()
            ch = next((f[1] for _, f in conn.parsed_frames() if isinstance(f, list) and f and f[0] == "AUTH"), None)
            if prior == "P2":
                await conn.cmd(["AUTH", ref.make_event(p2, kind=22242, created_at=NOW, tags=[["relay", url], ["challenge", ch]], content="")])
            clock.now = NOW + frac
            ev = ref.make_event(p1, kind=22242, created_at=NOW + dt, tags=[["relay", url], ["challenge", ch]], content="")
            await conn.cmd(["AUTH", ev])
            await rig.quiesce()
            got = "anon" if conn.exited else await identity_of(rig, conn, p1, 500000 + n)
            clock.now = NOW
            age = frac - dt
            verdict = "ACCEPT" if abs(age) < 600 else ("FREE" if abs(age) == 600 else "REFUSE")
            pc["must_refuse" if verdict == "REFUSE" else ("must_accept" if verdict == "ACCEPT" else "free")] = pc.get("must_refuse" if verdict == "REFUSE" else ("must_accept" if verdict == "ACCEPT" else "free"), 0) + 1
            nontrivial.append(h([urls_kind, "sweep", dt, frac, prior]))
            rp = {"backend": backend, "urls": urls_kind, "mode": "sweep", "part": part, "parts": parts}
            if verdict == "REFUSE" and got not in (prior, "anon" if prior == "anon" else "P2"):
                viols.append({"key": "accepted/created_at/sweep", "msg": "[%s/%s] answer timestamped %.2f s %s the relay clock changed the identity from %s to %s"
                              % (backend, urls_kind, abs(age), "before" if age > 0 else "after", prior, got), "replay": rp})
            if verdict == "ACCEPT" and got != "P1":
                viols.append({"key": "valid-answer-refused/created_at/sweep", "msg": "[%s/%s] answer timestamped %.2f s %s the relay clock was refused (identity %s)"
                              % (backend, urls_kind, abs(age), "before" if age > 0 else "after", got), "replay": rp})
            if not conn.exited:
                conn.disconnect()
                await conn.processed()
        counters["sequences"] = counters.get("sequences", 0) + 1
        counters["challenges_checked"] = counters.get("challenges_checked", 0) + n
    finally:
        await rig.close()
    return viols, nontrivial


def classify(label, urls_kind):
    if label.startswith("relay=") and label.split("=")[1] in ("prefix", "scheme-only", "substring", "one-char", "empty"):
        return "relay-url-substring/urls-as-%s" % urls_kind
    return urls_kind


def run_challenges(n, counters):
    from .. import env

    env.load_config({})
    from nostr_relay import auth

    a = auth.Authenticator(None, {"enabled": True})
    seen = set()
    short = 0
    for i in range(n):
        c = a.get_challenge("10.0.0.%d" % (i % 250))
        if len(c) < 32 or any(ch not in "0123456789abcdef" for ch in c):
            short += 1
        seen.add(c)
    counters["challenges_checked"] = counters.get("challenges_checked", 0) + n
    viols = []
    if len(seen) != n:
        viols.append({"key": "challenge-repeated", "msg": "%d of %d challenges repeated" % (n - len(seen), n), "replay": {"mode": "challenges", "n": n}})
    if short:
        viols.append({"key": "challenge-too-short", "msg": "%d challenges are not >=128-bit hex" % short, "replay": {"mode": "challenges", "n": n}})
    return viols, [h(["challenges", i]) for i in range(3)]


def run_shard(spec):
    if spec.get("mode") == "e2e":
        from .. import e2e_cases

        return e2e_cases.run_e2e_shard(ID, spec)
    counters = {}
    if spec["mode"] == "sweep":
        viols, nontrivial = R.run(run_sweep, spec["backend"], spec["urls"], counters, spec["part"], spec["parts"])
    elif spec["mode"] == "challenges":
        viols, nontrivial = run_challenges(spec["n"], counters)
        counters.setdefault("payloads", {})
    else:
        viols, nontrivial = R.run(run_payloads, spec["backend"], spec["urls"], counters, spec["case_seed"])
    seen, out = {}, []
    for v in viols:
        seen[v["key"]] = seen.get(v["key"], 0) + 1
        if seen[v["key"]] <= 1:
            out.append(v)
    counters["violations_by_key"] = seen
    return {"evaluations": sum(counters.get("payloads", {}).values()) + counters.get("challenges_checked", 0), "nontrivial": sorted(set(nontrivial)), "counters": counters,
            "coverage": {"relay_urls_config": {spec.get("urls", "n/a"): 1}, "backends": {spec.get("backend", "n/a"): 1}}, "violations": out,
            "samples": [{"mode": spec["mode"], "urls": spec.get("urls"), "labels": [p[0] for p in payloads(ref.key_from_seed("a"), ref.key_from_seed("b"), "c" * 32, URL, ["d" * 32, "e" * 32])][:12]}],
            "inconclusive": []}


def replay(rp, spec):
    if rp.get("mode") == "e2e":
        from .. import e2e_cases

        return e2e_cases.run_e2e_shard(ID, rp)
    counters = {}
    if rp.get("mode") == "sweep":
        v, nt = R.run(run_sweep, rp["backend"], rp["urls"], counters, rp["part"], rp["parts"])
    elif rp.get("mode") == "challenges":
        v, nt = run_challenges(rp["n"], counters)
    else:
        v, nt = R.run(run_payloads, rp["backend"], rp["urls"], counters, 0)
        v = [x for x in v if x["replay"].get("label") == rp.get("label")] or v
    return {"evaluations": 1, "nontrivial": nt, "counters": counters, "violations": v, "samples": [], "inconclusive": []}
