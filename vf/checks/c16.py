"""
C16 - configured admission policies are applied to every event, fail-closed.

 (a) function-level contracts: every validator of validators.py, dynamic_lists.py and
     recipe/homeserver.py is wrapped (record-and-delegate) and driven with events at, just
     inside and just outside its documented bound under an injected clock:
     'raises StorageError <=> the reference predicate rejects';
 (b) pipelines: subsets and orders of the validators configured on a real relay (both
     backends); an event is acknowledged / stored / broadcast iff every reference predicate
     accepts it, and every configured validator was evaluated for an accepted event before
     it was stored;
 (c) dynamic lists: the real ListBuilder.run_once against stores holding list events; the
     resulting sets must equal the p-tagged pubkeys of the query results plus the static
     whitelist and service key;
 (d) the refresh race: validator threads check a never-listed pubkey in a loop while the
     loop thread refreshes an enforced allow list from L1 to L2; sys.monitoring LINE events
     local to run_once inject a short sleep at every statement (a yield the GIL could grant
     anyway).  One admission of the outsider = the list was treated as empty.
"""
import asyncio
import itertools
import json
import random
import sys
import threading
import time
import types

from .. import rig as R, ref, gen, dump, hist, env
from ..orch import h

ID = "C16"
TECHNIQUE = 'runtime monitoring - validator contracts (reference predicate per validator at its documented bounds), pipelines through the relay with call taps (every configured validator evaluated; fail-closed), dynamic list content vs store, refresh race driven by sys.monitoring yield injection; end-to-end shard: a real server with 1-3 worker processes on a database that already holds the list events - the first EVENT served after a start, after an orderly restart and after a worker respawn, and one decision per worker process (placement observed in /proc)'
LEVEL = "exploration"
RULE = (
    "cases: (a) per validator the boundary grid - content length cap-1/cap/cap+1, age oldest_event-1/=/+1 and future skew "
    "3599/3600/3601 s, kinds in/out of valid_kinds, listed / unlisted / other-case pubkeys, ALL 257 leading-zero-bit "
    "counts against require_pow in {0,1,8,20,255,256}, p-tag counts limit-1/limit/limit+1 for kinds 1, 7 and 4, service "
    "kind by service / other key; (b) every ordered pipeline of <=2 validators and seeded longer ones through the relay "
    "on both backends with a boundary event set; (c) list builds over 6 store shapes x 2 backends; (d) refresh races "
    "with yield injection. Non-trivial = a validator decision at a bound where the reference rejects, a pipeline event "
    "some configured validator must reject, a race refresh during which the window was actually entered (>= 1 validator "
    "call overlapped run_once). Distinct = distinct (part, validator/pipeline, boundary label)."
)
ASSUMPTIONS = [
    "end-to-end shards: a real gunicorn/uvicorn server process tree started from the tree under test (vf/e2e_launch.py: the repository's run_with_gunicorn / run_with_uvicorn; the SQL schema is made with the repository's metadata.create_all because its alembic env.py does not run with the installed SQLAlchemy; the notifier's fixed TCP port 6000 is replaced by a free port), spoken to over loopback TCP with the websockets client; real time, real sleeps",
    "clock injected by rebinding validators.time; validator wrappers are installed on the defining modules before the storage resolves them",
    "when the allow queries return nothing the list may stay empty (not enforced) - documented behaviour - so that case is not judged",
    "verification.is_nip05_verified needs nostr_bot (absent) and is not exercised",
]
MIN_NONTRIVIAL = {"quick": 150, "thorough": 600}
REQUIRED_COUNTERS = ["e2e.e2e_first_contacts", "e2e.e2e_allow_list_decisions", "contract.evaluations", "pipeline.events", "pipeline.respelled_keys", "lists.builds", "lists.started_builders", "race.refreshes", "race.checks_during_refresh"]
SHARD_TIMEOUT = {"quick": 600, "thorough": 3200}
NOW = 1700000000


def plan(tier, seed):
    return _plan(tier, seed) + e2e_plan(tier, seed)


def e2e_plan(tier, seed):
    """shards on a REAL server process tree (vf/e2e.py)"""
    out = [{"mode": "e2e", "e2e": "c16", "backend": "sql", "workers": 2, "seed": seed}, {"mode": "e2e", "e2e": "c16", "backend": "lmdb", "workers": 2, "seed": seed}]
    if tier == "thorough":
        out += [{"mode": "e2e", "e2e": "c16", "backend": b, "workers": w, "seed": seed + w} for b in ("sql", "lmdb") for w in (1, 3)]
    return out


def _plan(tier, seed):
    out = [{"mode": "contracts", "case_seed": seed}]
    pipes = 10 if tier == "quick" else 40
    for backend in ("sql", "lmdb"):
        for i in range(2 if tier == "quick" else 6):
            out.append({"mode": "pipelines", "backend": backend, "case_seed": seed * 7919 + i, "n": pipes})
        out.append({"mode": "lists", "backend": backend, "case_seed": seed})
    for i in range(4 if tier == "quick" else 12):
        out.append({"mode": "race", "backend": "sql" if i % 4 < 2 else "lmdb", "case_seed": (seed * 7919 + i) * 2 + (i % 2), "refreshes": 12 if tier == "quick" else 60})
    return out


# ---------------------------------------------------------------------------------------
# reference predicates: return None (accept) or a reason string


def cfg_ns(**kw):
    base = dict(max_event_size=100, oldest_event=1000, valid_kinds=[1, 7, 5], pubkey_whitelist=[], pubkey_blacklist=[], require_pow=0,
                hellthread_limit=3, service_pubkey="ab" * 32)
    base.update(kw)
    return types.SimpleNamespace(**base)


def lead_zero_bits(idhex):
    return 256 - int(idhex, 16).bit_length()


REF = {
    "nostr_relay.validators.is_not_too_large": lambda e, c, now: "too large" if len(e["content"]) > c.max_event_size else None,
    "nostr_relay.validators.is_recent": lambda e, c, now: "too old" if (now - e["created_at"]) > c.oldest_event else ("future" if (now - e["created_at"]) < -3600 else None),
    "nostr_relay.validators.is_certain_kind": lambda e, c, now: "kind" if e["kind"] not in c.valid_kinds else None,
    "nostr_relay.validators.is_author_whitelisted": lambda e, c, now: "not whitelisted" if e["pubkey"] not in c.pubkey_whitelist else None,
    "nostr_relay.validators.is_author_blacklisted": lambda e, c, now: "blacklisted" if e["pubkey"] in c.pubkey_blacklist else None,
    "nostr_relay.validators.is_pow": lambda e, c, now: "pow" if lead_zero_bits(e["id"]) < c.require_pow else None,
    "nostr_relay.validators.is_not_hellthread": lambda e, c, now: "hellthread" if (c.hellthread_limit and e["kind"] in (1, 7) and len([t for t in e["tags"] if t and t[0] == "p"]) > c.hellthread_limit) else None,
    "nostr_relay.validators.is_service_event": lambda e, c, now: "service" if (e["kind"] == 31494 and e["pubkey"] != c.service_pubkey) else None,
    "nostr_relay.recipe.homeserver.is_whitelisted_or_tagged": lambda e, c, now: None if (e["kind"] == 10002 or e["pubkey"] in c.pubkey_whitelist or any(
        t and t[0] == "p" and len(t) > 1 and t[1] in c.pubkey_whitelist for t in e["tags"])) else "not tagged",
}


def to_event(raw):
    from aionostr.event import Event

    return Event(**raw)


def run_contracts(counters):
    env.load_config({})
    from nostr_relay import validators
    from nostr_relay.recipe import homeserver
    from nostr_relay.errors import StorageError
    from nostr_relay.util import object_from_path

    clock = hist.Clock(NOW).install(validators)
    viols, nontrivial = [], []
    ct = counters.setdefault("contract", {})
    k1, k2 = ref.key_from_seed("c16-a"), ref.key_from_seed("c16-b")
    cases = []

    def ev(**kw):
        kw.setdefault("kind", 1)
        kw.setdefault("created_at", NOW)
        return ref.make_event(kw.pop("key", k1), **kw)

    for n in (99, 100, 101, 0, 5000):
        cases.append(("nostr_relay.validators.is_not_too_large", "len=%d" % n, ev(content="x" * n), cfg_ns()))
    cases.append(("nostr_relay.validators.is_not_too_large", "len=100-multibyte", ev(content="é" * 100), cfg_ns()))
    for age in (999, 1000, 1001, 0, -3599, -3600, -3601, 10 ** 6, -10 ** 6):
        cases.append(("nostr_relay.validators.is_recent", "age=%d" % age, ev(created_at=NOW - age), cfg_ns()))
    for kind in (1, 7, 5, 0, 2, 6, 8, 10001):
        cases.append(("nostr_relay.validators.is_certain_kind", "kind=%d" % kind, ev(kind=kind), cfg_ns()))
    for wl, lab in (([k1.pk], "listed"), ([k2.pk], "other"), ([], "empty"), ([k1.pk.upper()], "upper-case-entry"), ([k1.pk[:63]], "prefix-entry")):
        cases.append(("nostr_relay.validators.is_author_whitelisted", "whitelist=" + lab, ev(), cfg_ns(pubkey_whitelist=wl)))
        cases.append(("nostr_relay.validators.is_author_blacklisted", "blacklist=" + lab, ev(), cfg_ns(pubkey_blacklist=wl)))
    for bits in range(0, 257):
        idhex = "%064x" % ((1 << (256 - bits)) - 1 if bits < 256 else 0)
        raw = dict(ev(), id=idhex)
        for need in (0, 1, 8, 20, 255, 256):
            if abs(bits - need) <= 1 or bits in (0, 256) or need in (8,):
                cases.append(("nostr_relay.validators.is_pow", "bits=%d/need=%d" % (bits, need), raw, cfg_ns(require_pow=need)))
    for kind in (1, 7, 4):
        for n in (2, 3, 4, 0, 50):
            tags = [["p", "%064x" % i] for i in range(n)] + [["e", "00" * 32], ["P", "x"]]
            cases.append(("nostr_relay.validators.is_not_hellthread", "kind=%d/p=%d" % (kind, n), ev(kind=kind, tags=tags), cfg_ns()))
    cases.append(("nostr_relay.validators.is_not_hellthread", "limit=0", ev(tags=[["p", "%064x" % i] for i in range(9)]), cfg_ns(hellthread_limit=0)))
    # the bound is on the NUMBER of p tags: repeated values, value-less tags and short tags count like any other
    for kind in (1, 7):
        cases.append(("nostr_relay.validators.is_not_hellthread", "kind=%d/p=4-with-one-repeated" % kind, ev(kind=kind, tags=[["p", "%064x" % (i % 3)] for i in range(4)]), cfg_ns()))
        cases.append(("nostr_relay.validators.is_not_hellthread", "kind=%d/p=50-identical" % kind, ev(kind=kind, tags=[["p", "%064x" % 1] for i in range(50)]), cfg_ns()))
        cases.append(("nostr_relay.validators.is_not_hellthread", "kind=%d/p=3-distinct+3-valueless" % kind, ev(kind=kind, tags=[["p", "%064x" % i] for i in range(3)] + [["p"]] * 3), cfg_ns()))
        cases.append(("nostr_relay.validators.is_not_hellthread", "kind=%d/p=3+other-tags" % kind, ev(kind=kind, tags=[["p", "%064x" % i] for i in range(3)] + [["e", "%064x" % 9], ["P", "x"], ["pp", "y"]]), cfg_ns()))
    for key, lab in ((k1, "service-key"), (k2, "other-key")):
        for kind in (31494, 31493, 1):
            cases.append(("nostr_relay.validators.is_service_event", "%s/kind=%d" % (lab, kind), ev(key=key, kind=kind), cfg_ns(service_pubkey=k1.pk)))
    for lab, kw in (("whitelisted-author", dict(key=k1)), ("tagged", dict(key=k2, tags=[["p", k1.pk]])), ("tagged-other", dict(key=k2, tags=[["p", k2.pk]])),
                    ("untagged", dict(key=k2)), ("kind-10002", dict(key=k2, kind=10002)), ("bare-p", dict(key=k2, tags=[["p"]])), ("e-tag-names-wl", dict(key=k2, tags=[["e", k1.pk]]))):
        cases.append(("nostr_relay.recipe.homeserver.is_whitelisted_or_tagged", lab, ev(**kw), cfg_ns(pubkey_whitelist=[k1.pk])))
    for path, lab, raw, cfg in cases:
        fn = object_from_path(path)
        want = REF[path](raw, cfg, NOW)
        try:
            fn(to_event(raw), cfg)
            got = None
        except StorageError as e:
            got = str(e) or "rejected"
        except Exception as e:
            got = "EXC " + repr(e)
        ct["evaluations"] = ct.get("evaluations", 0) + 1
        name = path.rsplit(".", 1)[1]
        if want is not None:
            nontrivial.append(h(["contract", name, lab]))
        if (want is None) != (got is None) or (got or "").startswith("EXC"):
            viols.append({"key": "contract/%s/%s" % (name, "accepts-what-must-be-refused" if want else "refuses-what-must-be-accepted"),
                          "msg": "%s at %s: reference says %s, validator %s" % (name, lab, want or "accept", ("raised %r" % got) if got else "accepted"),
                          "replay": {"mode": "contracts"}})
    return viols, nontrivial


# ---------------------------------------------------------------------------------------
# pipelines through the relay

PIPE_VALIDATORS = [p for p in REF if "homeserver" not in p]


def boundary_events(k1, k2, svc):
    T = NOW
    out = [("plain", ref.make_event(k1, kind=1, created_at=T, content="ok"))]
    out.append(("too-large", ref.make_event(k1, kind=1, created_at=T, content="x" * 101)))
    out.append(("at-size", ref.make_event(k1, kind=1, created_at=T, content="x" * 100)))
    out.append(("too-old", ref.make_event(k1, kind=1, created_at=T - 1001, content="old")))
    out.append(("at-oldest", ref.make_event(k1, kind=1, created_at=T - 1000, content="old=")))
    out.append(("future", ref.make_event(k1, kind=1, created_at=T + 3601, content="fut")))
    out.append(("at-future", ref.make_event(k1, kind=1, created_at=T + 3600, content="fut=")))
    out.append(("bad-kind", ref.make_event(k1, kind=2, created_at=T, content="k")))
    out.append(("other-author", ref.make_event(k2, kind=1, created_at=T, content="o")))
    out.append(("hellthread", ref.make_event(k1, kind=1, created_at=T, tags=[["p", "%064x" % i] for i in range(4)], content="h")))
    out.append(("hellthread-at-limit", ref.make_event(k1, kind=7, created_at=T, tags=[["p", "%064x" % i] for i in range(3)], content="h=")))
    out.append(("hellthread-repeated-values", ref.make_event(k1, kind=1, created_at=T, tags=[["p", "%064x" % (i % 2)] for i in range(6)], content="hr")))
    out.append(("hellthread-valueless", ref.make_event(k1, kind=7, created_at=T, tags=[["p", "%064x" % i] for i in range(3)] + [["p"], ["p"]], content="hv")))
    out.append(("hellthread-kind4", ref.make_event(k1, kind=5, created_at=T, tags=[["p", "%064x" % i] for i in range(9)], content="h4")))
    out.append(("fake-service", ref.make_event(k1, kind=31494, created_at=T, tags=[["d", "x"]], content="s")))
    out.append(("pow-8", ref.make_event(k1, kind=1, created_at=T, content="pow", id_prefix="00")))
    # the same 32-byte keys in another SPELLING (id computed and signed over that spelling): a list of keys
    # must not be evaded by upper-case hex digits - and such an event is not canonical NIP-01 anyway
    for lab, key, spell in (("deny-listed-key-upper-case", k2, str.upper), ("deny-listed-key-one-upper-digit", k2, one_upper),
                            ("allow-listed-key-upper-case", k1, str.upper)):
        pk = spell(key.pk)
        eid = ref.compute_id(pk, T, 1, [], "spelled " + lab)
        out.append((lab, {"id": eid, "pubkey": pk, "created_at": T, "kind": 1, "tags": [], "content": "spelled " + lab, "sig": key.sign(bytes.fromhex(eid))}))
    # events that merely CLAIM the relay's own service key (its public half is public): they go through every
    # configured validator like anybody's
    eid = ref.compute_id(svc.pk, T, 1, [], "claims the service key, zero sig " + "x" * 200)
    out.append(("claims-service-key/zero-sig+too-large", {"id": eid, "pubkey": svc.pk, "created_at": T, "kind": 1, "tags": [], "content": "claims the service key, zero sig " + "x" * 200, "sig": "00" * 64}))
    eid = ref.compute_id(svc.pk, T - 5000, 31494, [["d", "auth:" + k2.pk]], "arws")
    out.append(("claims-service-key/forged-role-grant", {"id": eid, "pubkey": svc.pk, "created_at": T - 5000, "kind": 31494, "tags": [["d", "auth:" + k2.pk]], "content": "arws", "sig": k2.sign(bytes.fromhex(eid))}))
    return out


def one_upper(pk):
    for i, ch in enumerate(pk):
        if ch in "abcdef":
            return pk[:i] + ch.upper() + pk[i + 1:]
    return pk


async def run_broken_validator(backend, counters):
    """fail-closed: a configured validator that cannot decide (raises something that is not
    a StorageError - here is_certain_kind without valid_kinds) must refuse, never admit"""
    viols, nontrivial = [], []
    k1 = ref.key_from_seed("c16-a")
    for chain in (["nostr_relay.validators.is_signed", "nostr_relay.validators.is_certain_kind"],
                  ["nostr_relay.validators.is_certain_kind", "nostr_relay.validators.is_signed"],
                  ["nostr_relay.validators.is_signed", "nostr_relay.validators.is_author_whitelisted", "nostr_relay.validators.is_not_hellthread"]):
        rig = R.Rig(backend=backend, config={"analysis_delay": 0}, storage_options={"validators": chain})
        await rig.start()
        try:
            watcher = rig.connect("w")
            await watcher.cmd(["REQ", "w", {"since": 1}])
            conn = rig.connect("s")
            for i in range(3):
                raw = ref.make_event(k1, kind=1, created_at=NOW + i, content="undecidable %d" % i)
                n0 = rig.rec.n
                await conn.cmd(["EVENT", raw])
                await rig.quiesce()
                oks = R.ok_frames(conn, n0)
                ok = oks[-1][1][2] if oks else None
                stored = raw["id"] in dump.dump(rig)["events"]
                pushed = any(isinstance(f, list) and len(f) > 2 and f[0] == "EVENT" and f[2].get("id") == raw["id"] for _, f in watcher.parsed_frames(n0))
                counters.setdefault("pipeline", {})
                counters["pipeline"]["undecidable_events"] = counters["pipeline"].get("undecidable_events", 0) + 1
                nontrivial.append(h(["broken", backend, tuple(chain), i]))
                if ok is True or stored or pushed:
                    viols.append({"key": "pipeline/fail-open-on-validator-error", "msg": "[%s] chain %s with a validator that raises (missing setting): event ok=%s stored=%s pushed=%s"
                                  % (backend, [c.rsplit('.', 1)[1] for c in chain], ok, stored, pushed), "replay": {"mode": "pipelines", "backend": backend}})
        finally:
            await rig.close()
    return viols, nontrivial


async def run_same_named(backend, counters):
    """two configured validators with the same function NAME (a stock one and a site's own, in either order): each of
    them is evaluated for every event and each of them can refuse"""
    from .. import sitevals

    viols, nontrivial = [], []
    k1 = ref.key_from_seed("c16-a")
    for chain in (["nostr_relay.validators.is_signed", "nostr_relay.validators.is_not_too_large", "vf.sitevals.is_not_too_large"],
                  ["vf.sitevals.is_not_too_large", "nostr_relay.validators.is_not_too_large", "nostr_relay.validators.is_signed"],
                  ["nostr_relay.validators.is_recent", "vf.sitevals.is_recent", "nostr_relay.validators.is_signed"]):
        rig = R.Rig(backend=backend, config={"analysis_delay": 0, "max_event_size": 100, "oldest_event": 1000}, storage_options={"validators": chain})
        rig.load_config()
        from nostr_relay import validators

        hist.Clock(NOW).install(validators)
        await rig.start()
        try:
            watcher = rig.connect("w")
            await watcher.cmd(["REQ", "w", {"since": 1}])
            conn = rig.connect("s")
            cases = [("fine", ref.make_event(k1, kind=1, created_at=NOW, content="fine"), False),
                     ("stock-refuses/too-large", ref.make_event(k1, kind=1, created_at=NOW, content="x" * 150), "is_not_too_large" in chain[1] + chain[0]),
                     ("site-refuses/content", ref.make_event(k1, kind=1, created_at=NOW, content="SITE-REFUSES"), any("sitevals.is_not_too_large" in c for c in chain)),
                     ("stock-refuses/too-old", ref.make_event(k1, kind=1, created_at=NOW - 5000, content="old"), any(c.endswith("validators.is_recent") for c in chain)),
                     ("site-refuses/kind-7", ref.make_event(k1, kind=7, created_at=NOW, content="+"), any("sitevals.is_recent" in c for c in chain))]
            for lab, raw, must_refuse in cases:
                n0 = rig.rec.n
                del sitevals.CALLS[:]
                await conn.cmd(["EVENT", raw])
                await rig.quiesce()
                oks = R.ok_frames(conn, n0)
                ok = oks[-1][1][2] if oks else None
                stored = raw["id"] in dump.dump(rig)["events"]
                pc = counters.setdefault("pipeline", {})
                pc["same_named_events"] = pc.get("same_named_events", 0) + 1
                nontrivial.append(h(["same-named", backend, tuple(chain), lab]))
                rp = {"mode": "pipelines", "backend": backend, "chain": chain, "label": lab}
                if must_refuse and (ok is True or stored):
                    viols.append({"key": "pipeline/same-named-validators/admitted-despite/%s" % lab.split("/")[0],
                                  "msg": "[%s] chain %s (two validators share a function name): %s event ok=%s stored=%s" % (backend, chain, lab, ok, stored), "replay": rp})
                if not must_refuse and ok is not True:
                    viols.append({"key": "pipeline/same-named-validators/compliant-event-refused", "msg": "[%s] chain %s: a compliant event was refused (%r)" % (backend, chain, oks[-1][1] if oks else None), "replay": rp})
        finally:
            await rig.close()
    return viols, nontrivial


async def run_pipelines(backend, n, counters, seed):
    r = random.Random(seed)
    viols, nontrivial = await run_broken_validator(backend, counters)
    v2, nt2 = await run_same_named(backend, counters)
    viols.extend(v2)
    nontrivial.extend(nt2)
    pc = counters.setdefault("pipeline", {})
    k1, k2, svc = ref.key_from_seed("c16-a"), ref.key_from_seed("c16-b"), ref.key_from_seed("service")
    pipes = [list(p) for p in itertools.permutations(PIPE_VALIDATORS, 2)]
    r.shuffle(pipes)
    pipes = pipes[: n // 2] + [r.sample(PIPE_VALIDATORS, r.randint(3, len(PIPE_VALIDATORS))) for _ in range(n - n // 2)]
    for pipe in pipes:
        signed_first = r.random() < 0.5
        chain = (["nostr_relay.validators.is_signed"] + pipe) if signed_first else (pipe + ["nostr_relay.validators.is_signed"])
        cfgvals = dict(max_event_size=100, oldest_event=1000, valid_kinds=[1, 7, 5, 31494], pubkey_whitelist=[k1.pk], pubkey_blacklist=[k2.pk],
                       require_pow=r.choice([0, 8]), hellthread_limit=3, service_privatekey=svc.sk_hex)
        rig = R.Rig(backend=backend, config=dict(cfgvals, analysis_delay=0), storage_options={"validators": chain})
        rig.load_config()
        from nostr_relay import validators

        hist.Clock(NOW).install(validators)
        calls = []
        originals = {}
        for path in chain:
            name = path.rsplit(".", 1)[1]
            fn = getattr(validators, name)
            if getattr(fn, "_vf", False):
                fn = fn._orig
            originals[name] = fn

            def make(name, fn):
                def wrapper(event, config):
                    calls.append((name, event.id))
                    return fn(event, config)
                wrapper._vf = True
                wrapper._orig = fn
                return wrapper

            setattr(validators, name, make(name, fn))
        await rig.start()
        try:
            watcher = rig.connect("w")
            await watcher.cmd(["REQ", "w", {"since": 1}])
            conn = rig.connect("s")
            cfg = cfg_ns(**{k: v for k, v in cfgvals.items() if k != "service_privatekey"}, service_pubkey=svc.pk)
            evs = boundary_events(k1, k2, svc)
            for lab, raw in evs:
                n0 = rig.rec.n
                await conn.cmd(["EVENT", raw])
                await rig.quiesce()
                oks = R.ok_frames(conn, n0)
                ok = oks[-1][1][2] if oks else None
                reason = oks[-1][1][3] if oks else ""
                rejecting = [p.rsplit(".", 1)[1] for p in pipe if REF[p](raw, cfg, NOW)]
                if ref.authentic(raw)[0] is False and raw["pubkey"] == raw["pubkey"].lower():
                    rejecting = ["is_signed"] + rejecting
                if raw["pubkey"] != raw["pubkey"].lower():
                    # never admissible: not canonical hex; named after the list it would evade when one is configured
                    low = dict(raw, pubkey=raw["pubkey"].lower())
                    rejecting = [p.rsplit(".", 1)[1] for p in pipe if REF[p](low, cfg, NOW)] or ["canonical-lower-case-hex"]
                    pc["respelled_keys"] = pc.get("respelled_keys", 0) + 1
                pc["events"] = pc.get("events", 0) + 1
                rp = {"mode": "pipelines", "backend": backend, "chain": chain, "label": lab, "cfg": {k: v for k, v in cfgvals.items() if k != "service_privatekey"}, "event": raw}
                if rejecting:
                    nontrivial.append(h(["pipe", backend, tuple(pipe), lab]))
                d = dump.dump(rig)
                stored = raw["id"] in d["events"]
                pushed = any(isinstance(f, list) and len(f) > 2 and f[0] == "EVENT" and f[2].get("id") == raw["id"] for _, f in watcher.parsed_frames(n0))
                if rejecting and (ok is True or stored or pushed):
                    viols.append({"key": "pipeline/admitted-despite/%s" % rejecting[0], "msg": "[%s] pipeline %s: event %s must be rejected by %s but ok=%s stored=%s pushed=%s"
                                  % (backend, [p.rsplit('.', 1)[1] for p in chain], lab, rejecting, ok, stored, pushed), "replay": rp})
                if not rejecting and ok is not True:
                    viols.append({"key": "pipeline/refused-valid/%s" % (reason.split(":")[0][:20]), "msg": "[%s] pipeline %s: event %s passes every configured validator but was refused: %r"
                                  % (backend, [p.rsplit('.', 1)[1] for p in chain], lab, reason), "replay": rp})
                if ok is True:
                    seen = {nm for nm, eid in calls if eid == raw["id"]}
                    missing = [p.rsplit(".", 1)[1] for p in chain if p.rsplit(".", 1)[1] not in seen]
                    if missing:
                        viols.append({"key": "pipeline/validator-not-evaluated/%s" % missing[0], "msg": "[%s] pipeline %s: accepted event %s was never shown to %s"
                                      % (backend, [p.rsplit('.', 1)[1] for p in chain], lab, missing), "replay": rp})
        finally:
            await rig.close()
            for name, fn in originals.items():
                setattr(validators, name, fn)
    return viols, nontrivial


# ---------------------------------------------------------------------------------------
# dynamic lists


def list_events(owner, members, kind=3, created_at=NOW, extra=None):
    tags = [["p", m] for m in members] + (extra or [])
    return ref.make_event(owner, kind=kind, created_at=created_at, tags=tags, content="list")


async def run_lists(backend, counters):
    viols, nontrivial = [], []
    lc = counters.setdefault("lists", {})
    owner, reporter, svc = ref.key_from_seed("c16-owner"), ref.key_from_seed("c16-rep"), ref.key_from_seed("service")
    members = [ref.key_from_seed("c16-m%d" % i).pk for i in range(6)]
    wl = ref.key_from_seed("c16-wl").pk
    shapes = [
        ("basic", [list_events(owner, members[:3])], [wl], True),
        ("invalid-p-values", [list_events(owner, members[:2], extra=[["p", "garbage"], ["p", members[2][:63]], ["p", members[3].upper()], ["p"], ["e", members[4]], ["p", members[5] + "00"]])], [], False),
        ("two-lists", [list_events(owner, members[:2]), list_events(reporter, members[2:4], kind=30000, extra=[["d", "l"]])], [wl], True),
        ("empty-result", [ref.make_event(owner, kind=1, created_at=NOW, content="no list")], [wl], False),
        ("no-whitelist", [list_events(owner, members[:4])], [], False),
        ("deny", [list_events(owner, members[:3]), list_events(reporter, [members[0], members[5]], kind=1984)], [wl], True),
    ]
    for name, events, whitelist, use_service in shapes:
        cfg = {"analysis_delay": 0, "pubkey_whitelist": whitelist,
               "dynamic_lists": {"check_interval": 7200, "allow_list_queries": [{"kinds": [3], "authors": [owner.pk]}, {"kinds": [30000], "authors": [reporter.pk]}],
                                 "deny_list_queries": [{"kinds": [1984], "authors": [reporter.pk]}]}}
        if use_service:
            cfg["service_privatekey"] = svc.sk_hex
        rig = R.Rig(backend=backend, config=cfg)
        await rig.start()
        try:
            from nostr_relay import dynamic_lists

            dynamic_lists.ALLOWED_PUBKEYS.clear()
            dynamic_lists.DENIED_PUBKEYS.clear()
            conn = rig.connect("l")
            for e in events:
                await conn.cmd(["EVENT", e])
            await rig.quiesce()
            stored = dump.stored_events(dump.dump(rig))
            builder = dynamic_lists.ListBuilder()
            await builder.run_once()
            lc["builds"] = lc.get("builds", 0) + 1

            def ptags(evs):
                out = set()
                for e in evs:
                    for t in e["tags"]:
                        if len(t) >= 2 and t[0] == "p" and isinstance(t[1], str) and len(t[1]) == 64 and all(c in "0123456789abcdefABCDEF" for c in t[1]):
                            out.add(t[1].lower())
                return out

            allow_src = [e for e in stored.values() if (e["kind"] == 3 and e["pubkey"] == owner.pk) or (e["kind"] == 30000 and e["pubkey"] == reporter.pk)]
            deny_src = [e for e in stored.values() if e["kind"] == 1984 and e["pubkey"] == reporter.pk]
            want_allow = ptags(allow_src)
            static = set(whitelist) | ({svc.pk} if use_service else set())
            got_allow = {b.hex() for b in dynamic_lists.ALLOWED_PUBKEYS}
            got_deny = {b.hex() for b in dynamic_lists.DENIED_PUBKEYS}
            nontrivial.append(h(["lists", backend, name]))
            rp = {"mode": "lists", "backend": backend}
            if want_allow:
                if got_allow != want_allow | static:
                    viols.append({"key": "lists/allow-content/%s" % name, "msg": "[%s] %s: allow list has %d keys, expected %d (missing %s, extra %s)"
                                  % (backend, name, len(got_allow), len(want_allow | static), sorted(x[:8] for x in (want_allow | static) - got_allow), sorted(x[:8] for x in got_allow - (want_allow | static))), "replay": rp})
            elif got_allow - static:
                viols.append({"key": "lists/allow-content/%s" % name, "msg": "[%s] %s: allow list holds keys from nowhere: %s" % (backend, name, sorted(x[:8] for x in got_allow - static)), "replay": rp})
            # the N-th refresh gives the same lists as the first (the store did not change)
            for rep in (2, 3, 4):
                await builder.run_once()
                lc["builds"] = lc.get("builds", 0) + 1
                again = {b.hex() for b in dynamic_lists.ALLOWED_PUBKEYS}
                if again != got_allow:
                    viols.append({"key": "lists/allow-content-changes-on-refresh/%s" % name,
                                  "msg": "[%s] %s: refresh number %d of an unchanged store changed the allow list: lost %s, gained %s (static keys: %s)"
                                         % (backend, name, rep, sorted(x[:8] for x in got_allow - again), sorted(x[:8] for x in again - got_allow), sorted(x[:8] for x in static)), "replay": rp})
                    break
            if got_deny != ptags(deny_src):
                viols.append({"key": "lists/deny-content/%s" % name, "msg": "[%s] %s: deny list %s, expected %s" % (backend, name, sorted(x[:8] for x in got_deny), sorted(x[:8] for x in ptags(deny_src))), "replay": rp})
            # a restart: the lists are built by the builder's own start(), as web.start_mainprocess_tasks does,
            # from what the store already holds - not only by somebody calling run_once()
            if want_allow:
                import time as _t

                dynamic_lists.ALLOWED_PUBKEYS.clear()
                dynamic_lists.DENIED_PUBKEYS.clear()
                b2 = dynamic_lists.ListBuilder()
                await b2.start()
                t0 = _t.monotonic()
                while _t.monotonic() - t0 < 10 and {b.hex() for b in dynamic_lists.ALLOWED_PUBKEYS} != want_allow | static:
                    await asyncio.sleep(0.01)
                lc["started_builders"] = lc.get("started_builders", 0) + 1
                after_start = {b.hex() for b in dynamic_lists.ALLOWED_PUBKEYS}
                alive = b2._task is not None and not b2._task.done()
                if after_start != want_allow | static and alive:
                    viols.append({"key": "lists/not-built-at-start", "msg": "[%s] %s: 10 s after ListBuilder.start() on a store holding the list events the allow list has %d keys (expected %d); "
                                  "the builder is waiting for its next interval (%s s)" % (backend, name, len(after_start), len(want_allow | static), b2.interval), "replay": rp})
                try:
                    await b2.stop()
                except Exception:
                    pass
                got_allow = {b.hex() for b in dynamic_lists.ALLOWED_PUBKEYS}
                got_deny = {b.hex() for b in dynamic_lists.DENIED_PUBKEYS}
            # decisions of the validator agree with the lists
            from nostr_relay.errors import StorageError

            for pk_hex in members + [wl, owner.pk]:
                fake = types.SimpleNamespace(pubkey=pk_hex)
                try:
                    dynamic_lists.is_pubkey_allowed(fake, None)
                    admitted = True
                except StorageError:
                    admitted = False
                should = (not got_allow or pk_hex in got_allow) and pk_hex not in got_deny
                if admitted != should:
                    viols.append({"key": "lists/decision", "msg": "[%s] %s: is_pubkey_allowed(%s) -> %s but lists say %s" % (backend, name, pk_hex[:8], admitted, should), "replay": rp})
        finally:
            await rig.close()
    return viols, nontrivial


async def run_race(backend, refreshes, counters, seed):
    viols, nontrivial = [], []
    rc = counters.setdefault("race", {})
    owner, reporter = ref.key_from_seed("c16-owner"), ref.key_from_seed("c16-rep")
    outsider = ref.key_from_seed("c16-outsider").pk
    denied = ref.key_from_seed("c16-denied").pk
    disjoint = seed % 2 == 1
    if disjoint:
        # successive allow lists share no key at all (and no static whitelist is configured)
        L1 = [ref.key_from_seed("c16-m%d" % i).pk for i in range(3)]
        L2 = [ref.key_from_seed("c16-m%d" % i).pk for i in range(3, 6)]
    else:
        # the denied key is on the allow list too, so that only the deny list keeps it out
        L1 = [ref.key_from_seed("c16-m%d" % i).pk for i in range(3)] + [denied]
        L2 = [ref.key_from_seed("c16-m%d" % i).pk for i in range(2, 6)] + [denied]
    whitelisted = ref.key_from_seed("c16-whitelisted").pk
    # overlapping runs also carry a static whitelist: its keys belong to the enforced list at every instant
    cfg = {"analysis_delay": 0, "pubkey_whitelist": [] if disjoint else [whitelisted],
           "dynamic_lists": {"check_interval": 7200, "allow_list_queries": [{"kinds": [3], "authors": [owner.pk]}], "deny_list_queries": [{"kinds": [10000], "authors": [reporter.pk]}]}}
    rig = R.Rig(backend=backend, config=cfg)
    await rig.start()
    mon = sys.monitoring
    TOOL = mon.DEBUGGER_ID
    try:
        from nostr_relay import dynamic_lists
        from nostr_relay.errors import StorageError

        dynamic_lists.ALLOWED_PUBKEYS.clear()
        dynamic_lists.DENIED_PUBKEYS.clear()
        conn = rig.connect("l")
        await conn.cmd(["EVENT", list_events(owner, L1, created_at=NOW)])
        await conn.cmd(["EVENT", list_events(reporter, [denied], kind=10000, created_at=NOW)])
        await rig.quiesce()
        builder = dynamic_lists.ListBuilder()
        await builder.run_once()
        if not dynamic_lists.ALLOWED_PUBKEYS or not dynamic_lists.DENIED_PUBKEYS:
            raise R.Inconclusive("lists did not build")
        in_refresh = threading.Event()
        stop = threading.Event()
        stats = {"checks": 0, "during": 0, "outsider_admitted": 0, "denied_admitted": 0, "member_refused": 0, "whitelisted_refused": 0}
        lock = threading.Lock()
        member_always = L1[2]  # in L1 and (unless disjoint) in L2

        def checker():
            fo, fd, fm = types.SimpleNamespace(pubkey=outsider), types.SimpleNamespace(pubkey=denied), types.SimpleNamespace(pubkey=member_always)
            fw = types.SimpleNamespace(pubkey=whitelisted)
            while not stop.is_set():
                during = in_refresh.is_set()
                res = []
                for f in (fo, fd, fm, fw):
                    try:
                        dynamic_lists.is_pubkey_allowed(f, None)
                        res.append(True)
                    except StorageError:
                        res.append(False)
                with lock:
                    stats["checks"] += 1
                    stats["during"] += 1 if during else 0
                    stats["outsider_admitted"] += res[0]
                    stats["denied_admitted"] += res[1]
                    stats["member_refused"] += (not res[2])
                    stats["whitelisted_refused"] += (not res[3])

        threads = [threading.Thread(target=checker, daemon=True) for _ in range(3)]
        code = dynamic_lists.ListBuilder.run_once.__code__
        injected = [0]

        def on_line(c, line):
            if injected[0] < 400:
                injected[0] += 1
                time.sleep(0.0005)

        try:
            mon.use_tool_id(TOOL, "vf-yield")
        except ValueError:
            pass
        mon.register_callback(TOOL, mon.events.LINE, on_line)
        mon.set_local_events(TOOL, code, mon.events.LINE)
        for t in threads:
            t.start()
        try:
            for i in range(refreshes):
                members = L2 if i % 2 == 0 else L1
                await conn.cmd(["EVENT", list_events(owner, members, created_at=NOW + 1 + i)])
                await conn.cmd(["EVENT", list_events(reporter, [denied], kind=10000, created_at=NOW + 1 + i)])
                await rig.quiesce()
                injected[0] = 0
                in_refresh.set()
                await builder.run_once()
                in_refresh.clear()
                rc["refreshes"] = rc.get("refreshes", 0) + 1
                await asyncio.sleep(0.002)
        finally:
            stop.set()
            for t in threads:
                t.join(5)
            mon.set_local_events(TOOL, code, 0)
            mon.register_callback(TOOL, mon.events.LINE, None)
            try:
                mon.free_tool_id(TOOL)
            except Exception:
                pass
        rc["checks"] = rc.get("checks", 0) + stats["checks"]
        rc["checks_during_refresh"] = rc.get("checks_during_refresh", 0) + stats["during"]
        rc["yields_injected"] = rc.get("yields_injected", 0) + injected[0]
        if stats["during"]:
            nontrivial.append(h(["race", backend, seed]))
            nontrivial.append(h(["race2", backend, seed]))
        rp = {"mode": "race", "backend": backend, "refreshes": refreshes, "seed": seed}
        if stats["outsider_admitted"]:
            viols.append({"key": "race/allow-list-treated-as-empty", "msg": "[%s] a never-listed pubkey was admitted %d times (of %d checks, %d during refreshes) while an allow list was enforced before and after each refresh"
                          % (backend, stats["outsider_admitted"], stats["checks"], stats["during"]), "replay": rp})
        rc["disjoint_runs" if disjoint else "overlapping_runs"] = rc.get("disjoint_runs" if disjoint else "overlapping_runs", 0) + 1
        if stats["denied_admitted"] and not disjoint:
            viols.append({"key": "race/deny-list-treated-as-empty", "msg": "[%s] a pubkey on the deny list before and after every refresh was admitted %d times (of %d checks)"
                          % (backend, stats["denied_admitted"], stats["checks"]), "replay": rp})
        rc["always_member_refused"] = rc.get("always_member_refused", 0) + stats["member_refused"]
        if not disjoint:
            rc["whitelist_checks"] = rc.get("whitelist_checks", 0) + stats["checks"]
            if stats["whitelisted_refused"]:
                viols.append({"key": "race/whitelisted-key-refused-during-refresh", "msg": "[%s] a key of the static whitelist was refused %d times (of %d checks, %d during refreshes) although the enforced allow list contains the whitelist before and after every refresh"
                              % (backend, stats["whitelisted_refused"], stats["checks"], stats["during"]), "replay": rp})
    finally:
        await rig.close()
    return viols, nontrivial


def run_shard(spec):
    if spec.get("mode") == "e2e":
        from .. import e2e_cases

        return e2e_cases.run_e2e_shard(ID, spec)
    counters = {}
    mode = spec["mode"]
    if mode == "contracts":
        viols, nontrivial = run_contracts(counters)
    elif mode == "pipelines":
        viols, nontrivial = R.run(run_pipelines, spec["backend"], spec["n"], counters, spec["case_seed"])
    elif mode == "lists":
        viols, nontrivial = R.run(run_lists, spec["backend"], counters)
    else:
        viols, nontrivial = R.run(run_race, spec["backend"], spec["refreshes"], counters, spec["case_seed"])
    seen, out = {}, []
    for v in viols:
        seen[v["key"]] = seen.get(v["key"], 0) + 1
        if seen[v["key"]] <= 1:
            out.append(v)
    counters["violations_by_key"] = seen
    ev = counters.get("contract", {}).get("evaluations", 0) + counters.get("pipeline", {}).get("events", 0) + counters.get("lists", {}).get("builds", 0) + counters.get("race", {}).get("checks", 0)
    return {"evaluations": ev, "nontrivial": sorted(set(nontrivial)), "counters": counters, "coverage": {"parts": {mode: 1}}, "violations": out,
            "samples": [{"mode": mode, "backend": spec.get("backend")}], "inconclusive": []}


def replay(rp, spec):
    if rp.get("mode") == "e2e":
        from .. import e2e_cases

        return e2e_cases.run_e2e_shard(ID, rp)
    counters = {}
    mode = rp["mode"]
    if mode == "contracts":
        v, nt = run_contracts(counters)
    elif mode == "pipelines":
        v, nt = R.run(run_pipelines, rp["backend"], 6, counters, 0)
    elif mode == "lists":
        v, nt = R.run(run_lists, rp["backend"], counters)
    else:
        v, nt = R.run(run_race, rp["backend"], rp.get("refreshes", 12), counters, rp.get("seed", 0))
    return {"evaluations": 1, "nontrivial": nt, "counters": counters, "violations": v, "samples": [], "inconclusive": []}
