"""
C17 - garbage collection removes expired and ephemeral events and nothing else.

The real collector object (QueryGarbageCollector / KVGarbageCollector) is run with an
injected clock on stores built through the EVENT path; dumps before/after each pass are
compared with the rule: must go = ephemeral kinds and events whose expiration is a
canonical decimal timestamp < T; must stay = events without expiration tag, with a
canonical expiration >= T, or whose expiration value is not a number at all; everything
else (numbers as JSON numbers, '05', ' 5', '1e9', mixed tags) is free.  Removed events must
leave no tags rows / index keys behind; ephemeral events must have been pushed live.
"""
import json
import random
import re

from .. import rig as R, ref, gen, dump, hist, qcore
from ..orch import h

ID = "C17"
TECHNIQUE = 'runtime monitoring - garbage-collector oracle over dumps before/after each pass with an injected clock (must go / must stay / free classes of expiration values), orphan rows / index keys, passes on a busy connection pool, the real periodic collector with a failing pass; end-to-end shard: the real 2 s periodic collector of a multi-worker server (it runs in one elected worker) against ephemeral / expired / expiring / non-collectable events stored through EVERY worker process, then an orderly restart that must lose nothing'
LEVEL = "exploration"
RULE = (
    "cases = (backend, store of 15-40 events with kinds {0, 1, 3, 4, 5, 7, 10002, 19999, 20000, 25000, 29999, 30000} and expiration values "
    "{T-1, T, T+1, far future, '5', '0', '9'*k, millisecond timestamps, '', 'abc', '-1', ' 5', '05', '1e9', JSON int, JSON "
    "float, two tags, bare tag}, then collector passes at T in {10^9-1, 10^9, now, 2^31-1} in increasing order, two of "
    "three SQL passes while other work holds pooled connections); plus the real periodic collector (own timer, 30 ms) with "
    "one failing pass (database locked / reader table full) followed by healthy ones. "
    "Non-trivial = a pass over a store holding at least one must-go and one must-stay event. Distinct = distinct "
    "(backend, T, multiset of (kind class, expiration class) in the store)."
)
ASSUMPTIONS = [
    "end-to-end shards: a real gunicorn/uvicorn server process tree started from the tree under test (vf/e2e_launch.py: the repository's run_with_gunicorn / run_with_uvicorn; the SQL schema is made with the repository's metadata.create_all because its alembic env.py does not run with the installed SQLAlchemy; the notifier's fixed TCP port 6000 is replaced by a free port), spoken to over loopback TCP with the websockets client; real time, real sleeps",
    "clock injected by rebinding storage.db.time / storage.kv.time; collector passes driven by run_once()",
    "an expiration given as a JSON number, or as a string of ASCII digits with leading zeros, is free (may or may not be honoured); "
    "a string with any other character (sign, blank, separator, exponent, fraction, text, empty) is not a well-formed timestamp: the event must stay",
    "LMDB backend over /verif/shim; SQL = SQLite",
]
MIN_NONTRIVIAL = {"quick": 100, "thorough": 1000}
REQUIRED_COUNTERS = ["e2e.e2e_collector_judgements", "e2e.e2e_restart_survivors_checked", "clause.must_go", "clause.must_stay", "clause.orphans", "clause.ephemeral_live", "clause.passes_on_busy_pool", "clause.passes_after_fault", "clause.mass_due"]
SHARD_TIMEOUT = {"quick": 500, "thorough": 3000}
NOW = gen.T0
PASSES = [10 ** 9 - 1, 10 ** 9, NOW, 2 ** 31 - 1]
CANON = re.compile(r"\A(0|[1-9][0-9]*)\Z")


def plan(tier, seed):
    return _plan(tier, seed) + e2e_plan(tier, seed)


def e2e_plan(tier, seed):
    """shards on a REAL server process tree (vf/e2e.py)"""
    out = [{"mode": "e2e", "e2e": "c17", "backend": "sql", "workers": 2, "seed": seed}, {"mode": "e2e", "e2e": "c17", "backend": "lmdb", "workers": 2, "seed": seed}]
    if tier == "thorough":
        out += [{"mode": "e2e", "e2e": "c17", "backend": b, "workers": w, "seed": seed + w} for b in ("sql", "lmdb") for w in (1, 3)]
    return out


def _plan(tier, seed):
    n, stores = (4, 6) if tier == "quick" else (32, 80)
    return [{"backend": b, "case_seed": seed * 7919 + i, "stores": stores} for b in ("sql", "lmdb") for i in range(n)]


def exp_values(r, T):
    return r.choice([
        str(T - 1), str(T), str(T + 1), str(T + 10 ** 6), "5", "0", "1", "999999999", "1000000000", "1000000001", "99999999999",
        str(T * 1000), str((T - 50) * 1000), "", "abc", "-1", " 5", "05", "1e9", "1.5", "+5", "५", str(T - 1) + " ", "0x10",
        "-5", "+" + str(T - 1), " " + str(T - 1), str(T - 1) + "\n", "1_000", "1_0", "\t7", "٣", "5\x00", "٠",
        T - 1, T + 1, 5, float(T - 1), None,
        # values longer than what the LMDB tag index keys verbatim (they are indexed by digest): text, digits, digits + text
        "x" * 300, "9" * 300, str(T - 1) + " " * 300, "é" * 200,
    ])


def exp_vote(v, T):
    if isinstance(v, bool) or v is None:
        return "FREE"
    if isinstance(v, (int, float)):
        return "FREE"
    if isinstance(v, str):
        if CANON.match(v):
            return "GO" if int(v) < T else "STAY"
        if v and all(c in "0123456789" for c in v):
            return "FREE"  # leading zeros
        # anything else is not a well-formed timestamp (sign, blanks, separators, exponent, fraction, other
        # alphabets, text, empty): the event is one of the "other events" a pass must leave alone
        return "STAY"
    return "FREE"


def classify(ev, T):
    """GO / STAY / FREE for one stored event at collection time T"""
    if 20000 <= ev["kind"] < 30000:
        return "GO"
    votes = []
    for t in ev["tags"]:
        if t and t[0] == "expiration":
            if len(t) < 2:
                votes.append("FREE")
            else:
                votes.append(exp_vote(t[1], T))
    if not votes:
        return "STAY"
    if all(v == "GO" for v in votes):
        return "GO"
    if all(v == "STAY" for v in votes):
        return "STAY"
    return "FREE"


def exp_label(ev):
    vals = [t[1] if len(t) > 1 else "<bare>" for t in ev["tags"] if t and t[0] == "expiration"]
    return json.dumps(vals, default=repr)


def gen_store(r):
    keys = [ref.key_from_seed("c17-%d" % i) for i in range(2)]
    evs = []
    for i in range(r.randint(15, 40)):
        kind = r.choice([1, 1, 1, 19999, 20000, 25000, 29999, 30000, 7, 0, 3, 5, 10002, 4])
        tags = []
        roll = r.random()
        T = r.choice(PASSES)
        if roll < 0.7:
            v = exp_values(r, T)
            tags.append(["expiration", v] if v is not None else ["expiration"])
            if r.random() < 0.1:
                tags.append(["expiration", exp_values(r, T) or "7"])
        if r.random() < 0.3:
            tags.append(["t", "x"])
        if kind == 30000:
            tags.append(["d", "s%d" % i])
        e = ref.make_event(r.choice(keys), kind=kind, created_at=NOW - 100 + i, tags=tags, content="g%d" % i)
        # id as the relay hashes it (floats render differently across JSON libraries)
        from .. import subm

        try:
            e["id"] = subm.rapid_id(e)
            e["sig"] = next(k for k in keys if k.pk == e["pubkey"]).sign(bytes.fromhex(e["id"]))
        except Exception:
            continue
        evs.append(e)
    return evs


async def run_store(backend, events, passes, counters):
    rig = R.Rig(backend=backend, config={"analysis_delay": 0})
    await rig.start()
    viols, nontrivial = [], []
    clause = counters.setdefault("clause", {})

    def bump(c, n=1):
        clause[c] = clause.get(c, 0) + n

    try:
        if backend == "sql":
            from nostr_relay.storage import db as mod

            rig.gc = mod.QueryGarbageCollector(rig.storage)
        else:
            from nostr_relay.storage import kv as mod

            rig.gc = mod.KVGarbageCollector(rig.storage)
        clock = hist.Clock(NOW).install(mod)
        if backend == "sql":
            # some passes run while other work holds pooled database connections (a slow reader, an insert in
            # flight): the collector then works on another connection of the pool than the first one
            import sqlalchemy as sa

            real_gc, npass = rig.gc, [0]

            class BusyPool:
                async def run_once(self):
                    npass[0] += 1
                    held = []
                    try:
                        for _ in range(npass[0] % 3):
                            c = await rig.storage.db.connect()
                            await c.execute(sa.text("select count(*) from events"))
                            held.append(c)
                        if held:
                            bump("passes_on_busy_pool")
                        await real_gc.run_once()
                    finally:
                        for c in held:
                            await c.close()

            rig.gc = BusyPool()
        else:
            bump("passes_on_busy_pool")
        watcher = rig.connect("watch")
        await watcher.cmd(["REQ", "w", {"since": 1}])
        await rig.quiesce()
        steps = [hist.Step("event", raw=e) for e in events] + [hist.Step("gc", arg=T, label="gc@%d" % T) for T in passes]
        submitted = {e["id"]: e for e in events}

        def judge(i, st, prev, cur, logs):
            pe, ce = dump.stored_events(prev), dump.stored_events(cur)
            rp = {"backend": backend, "events": events, "passes": [s.arg for s in steps[: i + 1] if s.op == "gc"]}
            if st.op == "event":
                gone = [e for eid, e in pe.items() if eid not in ce and ref.address(e) is None]
                for v in gone:
                    viols.append({"key": "%s/removed-without-gc" % backend, "msg": "[%s] a submission removed regular event %s" % (backend, v["id"][:12]), "replay": rp})
                return
            T = st.arg
            counters["passes"] = counters.get("passes", 0) + 1
            if st.ok is not True:
                viols.append({"key": "%s/collector-raised" % backend, "msg": "[%s] collect() at %d raised %s" % (backend, T, st.reason), "replay": rp})
            classes = {eid: classify(e, T) for eid, e in pe.items()}
            if "GO" in classes.values() and "STAY" in classes.values():
                nontrivial.append(h([backend, T, sorted((ref.kind_class(e["kind"]), exp_label(e)) for e in pe.values())]))
            for eid, c in classes.items():
                e = pe[eid]
                if c == "GO":
                    bump("must_go")
                    if eid in ce:
                        what = "ephemeral" if 20000 <= e["kind"] < 30000 else "expired"
                        viols.append({"key": "%s/survived/%s/%s" % (backend, what, value_class(e, T)),
                                      "msg": "[%s] pass at T=%d left %s event %s (kind %d, expiration %s) in the store"
                                             % (backend, T, what, eid[:12], e["kind"], exp_label(e)), "replay": rp})
                elif c == "STAY":
                    bump("must_stay")
                    if eid not in ce:
                        viols.append({"key": "%s/removed/%s" % (backend, value_class(e, T)),
                                      "msg": "[%s] pass at T=%d removed event %s (kind %d) whose expiration is %s"
                                             % (backend, T, eid[:12], e["kind"], exp_label(e)), "replay": rp})
            # no traces of removed events
            bump("orphans")
            removed = [eid for eid in pe if eid not in ce]
            if backend == "sql":
                left = {t[0] for t in cur["tags"]} - set(cur["events"].keys())
                if left:
                    viols.append({"key": "sql/orphan-tags-rows", "msg": "[sql] tags rows of removed events remain: %s" % sorted(left)[:3], "replay": rp})
            else:
                exp, problems = dump.expected_lmdb_keys(cur["events"])
                actual = {k for k in cur["keys"] if k != b"\xee"}
                extra = actual - exp
                if extra:
                    viols.append({"key": "lmdb/orphan-index-keys", "msg": "[lmdb] %d index keys without record after the pass, e.g. %r" % (len(extra), sorted(extra)[0][:60]), "replay": rp})

        await hist.drive(rig, steps, judge, clock=clock)
        # ephemeral events must have been delivered live
        live = set()
        for n, f in watcher.parsed_frames():
            if isinstance(f, list) and len(f) == 3 and f[0] == "EVENT" and isinstance(f[2], dict):
                live.add(f[2].get("id"))
        for st in steps:
            if st.op == "event" and 20000 <= st.raw["kind"] < 30000 and st.ok is True:
                bump("ephemeral_live")
                if st.raw["id"] not in live:
                    viols.append({"key": "%s/ephemeral-not-pushed" % backend, "msg": "[%s] accepted ephemeral event %s was not pushed to the live subscriber" % (backend, st.raw["id"][:12]),
                                  "replay": {"backend": backend, "events": events, "passes": passes}})
        # ... and not queryable after a pass
        final = dump.stored_events(dump.dump(rig))
        for eid, e in final.items():
            if 20000 <= e["kind"] < 30000 and passes:
                viols.append({"key": "%s/ephemeral-queryable-after-pass" % backend, "msg": "[%s] ephemeral event %s is still stored after a pass" % (backend, eid[:12]),
                              "replay": {"backend": backend, "events": events, "passes": passes}})
    finally:
        await rig.close()
    return viols, nontrivial


async def run_mass_expiry(backend, counters, seed):
    """more than a thousand events are due at one pass: ONE pass removes them all (and their index entries)"""
    rig = R.Rig(backend=backend, config={"analysis_delay": 0})
    await rig.start()
    viols, nontrivial = [], []
    clause = counters.setdefault("clause", {})
    try:
        if backend == "sql":
            from nostr_relay.storage import db as mod

            gc_ = mod.QueryGarbageCollector(rig.storage)
        else:
            from nostr_relay.storage import kv as mod

            gc_ = mod.KVGarbageCollector(rig.storage)
        clock = hist.Clock(NOW).install(mod)
        key = ref.key_from_seed("c17-mass")
        n = 1000 + (seed % 3) * 150 + 50
        due = [ref.make_event(key, kind=1, created_at=NOW - 5000 + i, tags=[["expiration", str(NOW - 1 - (i % 7))], ["t", "mass"]], content="due %d %d" % (seed, i)) for i in range(n)]
        keep = [ref.make_event(key, kind=1, created_at=NOW - 9000 + i, tags=[["expiration", str(NOW + 1000)], ["t", "mass"]], content="keep %d %d" % (seed, i)) for i in range(10)]
        conn = rig.connect("mass")
        for e in due + keep:
            conn.feed(["EVENT", e])
        await conn.processed(timeout=300)
        await rig.quiesce(timeout=300)
        before = dump.stored_events(dump.dump(rig))
        clock.now = NOW
        await gc_.run_once()
        await rig.quiesce(timeout=300)
        d = dump.dump(rig)
        after = dump.stored_events(d)
        stored_due = [e for e in due if e["id"] in before]
        clause["mass_due"] = clause.get("mass_due", 0) + len(stored_due)
        counters["passes"] = counters.get("passes", 0) + 1
        nontrivial.append(h([backend, "mass", n]))
        rp = {"backend": backend, "mode": "mass", "seed": seed}
        left = [e for e in stored_due if e["id"] in after]
        if left:
            viols.append({"key": "%s/survived/expired/more-than-1000-due" % backend, "msg": "[%s] %d expired events were due at one pass; %d of them are still stored afterwards" % (backend, len(stored_due), len(left)), "replay": rp})
        if any(e["id"] not in after for e in keep if e["id"] in before):
            viols.append({"key": "%s/removed/mass" % backend, "msg": "[%s] the pass removed events that are not due" % backend, "replay": rp})
        if backend == "lmdb" and not left:
            exp, problems = dump.expected_lmdb_keys(d["events"])
            extra = {k for k in d["keys"] if k != b"\xee"} - exp
            if extra:
                viols.append({"key": "lmdb/orphan-index-keys", "msg": "[lmdb] %d index keys without record after the mass pass" % len(extra), "replay": rp})
    finally:
        await rig.close()
    return viols, nontrivial


async def run_periodic(backend, counters, seed):
    """
    The REAL periodic collector (start(), its own timer) with one pass that fails (database locked / reader
    table full): the passes after the fault must still collect what is due.
    """
    import asyncio
    import time as _time

    r = random.Random(seed)
    viols, nontrivial = [], []
    clause = counters.setdefault("clause", {})
    for fail_at in (1, 2):
        rig = R.Rig(backend=backend, config={"analysis_delay": 0})
        await rig.start()
        try:
            if backend == "sql":
                from nostr_relay.storage import db as mod
                import sqlalchemy as sa

                gc = mod.QueryGarbageCollector(rig.storage, collect_interval=0.03)
                fault = sa.exc.OperationalError("DELETE", {}, Exception("database is locked"))
            else:
                from nostr_relay.storage import kv as mod
                import lmdb

                gc = mod.KVGarbageCollector(rig.storage, collect_interval=0.03)
                fault = lmdb.ReadersFullError("mdb_txn_begin: MDB_READERS_FULL")
            clock = hist.Clock(NOW).install(mod)
            key = ref.key_from_seed("c17-periodic")
            keep = [ref.make_event(key, kind=1, created_at=NOW - 50 + i, tags=[["expiration", str(NOW + 10 ** 6)]] if i % 2 else [], content="keep %d %d" % (i, seed)) for i in range(4)]
            due = [ref.make_event(key, kind=1, created_at=NOW - 40 + i, tags=[["expiration", str(NOW + 5 + i)], ["t", "x"]], content="due %d %d" % (i, seed)) for i in range(3)]
            conn = rig.connect("p")
            await qcore.load_store(rig, conn, keep + due)
            before = dump.stored_events(dump.dump(rig))
            passes = [0]
            real_collect = gc.collect

            async def collect(db):
                passes[0] += 1
                if passes[0] == fail_at:
                    raise fault
                return await real_collect(db)

            gc.collect = collect
            rp = {"backend": backend, "mode": "periodic", "seed": seed}
            if fail_at == 2:
                clock.now = NOW  # nothing due yet at the first (healthy) pass
            else:
                clock.now = NOW + 100
            await gc.start()
            t0 = _time.monotonic()
            while passes[0] < fail_at and _time.monotonic() - t0 < 20:
                await asyncio.sleep(0.01)
            clock.now = NOW + 100  # everything in `due` is due now; the fault is over
            t1 = _time.monotonic()
            while passes[0] < fail_at + 3 and _time.monotonic() - t1 < 8 and not (gc._task is not None and gc._task.done()):
                await asyncio.sleep(0.01)
            await rig.quiesce()
            after = dump.stored_events(dump.dump(rig))
            dead = gc._task is not None and gc._task.done()
            if dead:
                try:
                    gc._task.exception()
                except BaseException:
                    pass
            clause["passes_after_fault"] = clause.get("passes_after_fault", 0) + max(0, passes[0] - fail_at)
            counters["passes"] = counters.get("passes", 0) + passes[0]
            left = [e for e in due if e["id"] in after]
            if all(e["id"] in before for e in due):
                nontrivial.append(h([backend, "periodic", fail_at, seed]))
                if left and (dead or passes[0] >= fail_at + 2):
                    viols.append({"key": "%s/survived/expired/after-failed-pass" % backend,
                                  "msg": "[%s] pass %d of the periodic collector failed (%s); afterwards %d expired events stayed stored: %s"
                                         % (backend, fail_at, type(fault).__name__, len(left),
                                            "the collector task had ended, no later pass ran" if dead else "%d later passes ran" % (passes[0] - fail_at)), "replay": rp})
                elif left:
                    counters["periodic_inconclusive"] = counters.get("periodic_inconclusive", 0) + 1
            for e in keep:
                if e["id"] not in after:
                    viols.append({"key": "%s/removed/periodic" % backend, "msg": "[%s] the periodic collector removed an event that is not due" % backend, "replay": rp})
            gc.running = False
            if gc._task is not None and not gc._task.done():
                gc._task.cancel()
        finally:
            await rig.close()
    return viols, nontrivial


def value_class(e, T):
    vals = [t[1] for t in e["tags"] if t and t[0] == "expiration" and len(t) > 1]
    if not vals:
        return "no-expiration"
    v = vals[0]
    if not isinstance(v, str):
        return "json-number"
    if CANON.match(v):
        n, t = len(v), len(str(T))
        return "canonical/%s-digits-than-T" % ("fewer" if n < t else ("more" if n > t else "same"))
    if exp_vote(v, T) == "FREE":
        return "non-canonical"
    try:
        int(v)
        return "malformed-but-int()-parsable"
    except ValueError:
        return "non-numeric"


async def run_many(backend, stores, counters):
    viols, nontrivial = [], []
    for evs in stores:
        v, nt = await run_store(backend, evs, PASSES, counters)
        viols.extend(v)
        nontrivial.extend(nt)
    return viols, nontrivial


def run_shard(spec):
    if spec.get("mode") == "e2e":
        from .. import e2e_cases

        return e2e_cases.run_e2e_shard(ID, spec)
    r = random.Random(spec["case_seed"])
    counters = {}
    stores = [gen_store(r) for _ in range(spec["stores"])]
    viols, nontrivial = R.run(run_many, spec["backend"], stores, counters)
    v2, nt2 = R.run(run_periodic, spec["backend"], counters, spec["case_seed"])
    viols.extend(v2)
    nontrivial.extend(nt2)
    if spec["case_seed"] % 4 == 0:
        v3, nt3 = R.run(run_mass_expiry, spec["backend"], counters, spec["case_seed"])
        viols.extend(v3)
        nontrivial.extend(nt3)
    seen, out = {}, []
    for v in viols:
        seen[v["key"]] = seen.get(v["key"], 0) + 1
        if seen[v["key"]] <= 1:
            out.append(v)
    counters["violations_by_key"] = seen
    sample = [{"kind": e["kind"], "expiration": exp_label(e)} for e in stores[0][:10]]
    return {"evaluations": counters.get("passes", 0), "nontrivial": sorted(set(nontrivial)), "counters": counters,
            "coverage": {"backends": {spec["backend"]: 1}, "T": {str(t): 1 for t in PASSES}}, "violations": out,
            "samples": [{"backend": spec["backend"], "store": sample, "passes": PASSES}], "inconclusive": []}


def replay(rp, spec):
    if rp.get("mode") == "e2e":
        from .. import e2e_cases

        return e2e_cases.run_e2e_shard(ID, rp)
    counters = {}
    if rp.get("mode") == "mass":
        v, nt = R.run(run_mass_expiry, rp["backend"], counters, rp["seed"])
        return {"evaluations": 1, "nontrivial": nt, "counters": counters, "violations": v, "samples": [], "inconclusive": []}
    if rp.get("mode") == "periodic":
        v, nt = R.run(run_periodic, rp["backend"], counters, rp["seed"])
        return {"evaluations": 1, "nontrivial": nt, "counters": counters, "violations": v, "samples": [], "inconclusive": []}
    v, nt = R.run(run_store, rp["backend"], rp["events"], rp.get("passes") or PASSES, counters)
    return {"evaluations": 1, "nontrivial": nt, "counters": counters, "violations": v, "samples": [], "inconclusive": []}
