"""
C18 - rate limits bound admitted messages per window and do not over-block.

Online reference monitor: the real RateLimiter is driven under a virtual clock
(rate_limiter.perf_counter rebound) with arrival sequences of (time step, address,
command); a sliding-window reference, fed with the limiter's OWN admitted history, judges
every decision: admitted although an applicable rule already let n through in its window
(over-admit), refused although no applicable rule has (over-block), generic rules applied
although a rule for that very address exists, refusal under n = -1.  State growth is
measured under sustained sub-limit traffic at lengths L and 4L.  An integration run
through web.start_client / NostrAPI.on_websocket checks one limiter consultation per
validated command and that refused commands have no effect.
"""
import itertools
import json
import random

from .. import env
from ..orch import h

ID = "C18"
TECHNIQUE = 'runtime monitoring - sliding-window reference model against every is_limited decision: exhaustive arrival sequences per rule set, long random sequences, state-growth measurements, integration through web.start_client (consultations, effects of refusals); end-to-end shard: the limiter on the real accept and command path of a running server (real clock; bursts well inside one interval, so only verdicts that timing cannot fake: more than n admitted, fewer than n admitted)'
LEVEL = "exploration"
EXHAUSTIVE = {"quick": True, "thorough": True}
RULE = (
    "cases = (rule set out of 17 - one to three rules per command over scopes global / ip / specific IPv4 / specific IPv6 "
    "address with n in {-1,1,2,3} and intervals s/m -, arrival sequence). ALL sequences of length 3 for every rule set and of length 4 for two of them (quick), of length 4 for all and 5 for four (thorough), "
    "over time steps {0, 1/2, 1, 2} x interval, 2 addresses + the specially-ruled one, 2 commands and a CLEANUP action (what a disconnect triggers) are "
    "enumerated; seeded random sequences of 2000 steps on top; growth runs of L and 4L messages just below the limit. "
    "Non-trivial = a sequence containing at least one refusal or a decision at an exact window boundary. Distinct = "
    "distinct (rule set, decision-relevant prefix)."
)
ASSUMPTIONS = [
    "end-to-end shards: a real gunicorn/uvicorn server process tree started from the tree under test (vf/e2e_launch.py: the repository's run_with_gunicorn / run_with_uvicorn; the SQL schema is made with the repository's metadata.create_all because its alembic env.py does not run with the installed SQLAlchemy; the notifier's fixed TCP port 6000 is replaced by a free port), spoken to over loopback TCP with the websockets client; real time, real sleeps",
    "the virtual clock replaces perf_counter in nostr_relay.rate_limiter; the limiter is otherwise the real object",
    "a window is (t - interval, t]: two messages exactly one interval apart are not in the same window",
]
MIN_NONTRIVIAL = {"quick": 2000, "thorough": 20000}
REQUIRED_COUNTERS = ["e2e.e2e_accept_decisions", "e2e.e2e_command_decisions", "decisions", "refusals", "growth_runs", "growth_runs_exempt", "integration.commands", "integration.refused_closes", "integration.auth_commands", "large_n_runs"]
SHARD_TIMEOUT = {"quick": 500, "thorough": 3000}

A1, A2, AS4, AS6 = "10.0.0.1", "10.0.0.2", "10.9.9.9", "2001:db8::1"
RULESETS = [
    {"global": {"EVENT": "2/s"}},
    {"ip": {"EVENT": "2/s"}},
    {"ip": {"EVENT": "1/s", "REQ": "2/s"}},
    {"global": {"EVENT": "3/s"}, "ip": {"EVENT": "1/s"}},
    {"global": {"EVENT": "2/s"}, "ip": {"EVENT": "2/s", "REQ": "1/s"}},
    {"ip": {"EVENT": "2/s,3/m"}},
    {"global": {"EVENT": "1/s,2/m"}},
    {"ip": {"EVENT": "1/s"}, AS4: {"EVENT": "-1/s"}},
    {"ip": {"EVENT": "1/s"}, AS4: {"EVENT": "3/s"}},
    {"global": {"EVENT": "1/s"}, AS4: {"EVENT": "2/s"}},
    {"ip": {"EVENT": "1/s"}, AS6: {"EVENT": "3/s"}},
    {"global": {"EVENT": "1/s"}, AS6: {"EVENT": "-1/s"}},
    {"ip": {"EVENT": "-1/s", "REQ": "1/s"}},
    {"global": {"REQ": "2/s,3/m"}, "ip": {"REQ": "1/s"}},
    {"global": {"EVENT": "2/s"}, AS4: {"REQ": "3/s"}},
    {"ip": {"EVENT": "1/s"}, AS6: {"CLOSE": "-1/s"}},
    {"ip": {"EVENT": "2/s"}, AS4: {"EVENT": "2/m"}},
]
UNITS = {"s": 1, "m": 60, "h": 3600}


def parse(rs):
    out = {}
    for scope, cmds in rs.items():
        out[scope] = {}
        for cmd, text in cmds.items():
            rules = []
            for part in text.split(","):
                n, u = part.split("/")
                rules.append((UNITS[u], int(n)))
            out[scope][cmd] = rules
    return out


class Clock:
    def __init__(self):
        self.t = 1000.0

    def __call__(self):
        return self.t


def make_limiter(rs, clock):
    env.setup_paths()
    from nostr_relay import rate_limiter

    rate_limiter.perf_counter = clock
    return rate_limiter.RateLimiter(json.loads(json.dumps(rs)))


class Reference:
    def __init__(self, rs):
        self.rules = parse(rs)
        self.admitted = {}

    def applicable(self, addr, cmd):
        """[(scope-key, rules)]"""
        if addr in self.rules and cmd in self.rules[addr]:
            return [(("addr", addr), self.rules[addr][cmd])]
        out = []
        if cmd in self.rules.get("global", {}):
            out.append((("global",), self.rules["global"][cmd]))
        if cmd in self.rules.get("ip", {}):
            out.append((("addr", addr), self.rules["ip"][cmd]))
        return out

    def full(self, addr, cmd, now):
        """rules that already let n messages through inside their window"""
        hits = []
        for scope, rules in self.applicable(addr, cmd):
            ts = self.admitted.get((scope, cmd), [])
            for interval, n in rules:
                if n < 0:
                    continue
                c = sum(1 for t in ts if 0 <= now - t < interval)
                if c >= n:
                    hits.append((scope, interval, n, c))
        return hits

    def record(self, addr, cmd, now):
        for scope, rules in self.applicable(addr, cmd):
            self.admitted.setdefault((scope, cmd), []).append(now)


class ScopeByScope(Reference):
    """the mechanism behind the recorded finding: a scope counts a message as soon as ITS
    rules pass, even when a later scope then refuses it"""

    def decide(self, addr, cmd, now):
        for scope, rules in self.applicable(addr, cmd):
            ts = self.admitted.get((scope, cmd), [])
            for interval, n in rules:
                if n >= 0 and sum(1 for t in ts if 0 <= now - t < interval) >= n:
                    return True
            self.admitted.setdefault((scope, cmd), []).append(now)
        return False


def ruleset_key(i):
    return "rs%d" % i


def judge_sequence(rsi, seq, counters, viols, nontrivial, distinct_prefix=True):
    rs = RULESETS[rsi]
    clock = Clock()
    lim = make_limiter(rs, clock)
    refm = Reference(rs)
    alt = ScopeByScope(rs)
    refused = False
    boundary = False
    for step, (dt, addr, cmd) in enumerate(seq):
        clock.t += dt
        now = clock.t
        if cmd == "CLEANUP":
            # what web.start_client calls whenever any connection ends: must not change decisions
            lim.cleanup()
            counters["cleanups"] = counters.get("cleanups", 0) + 1
            continue
        full = refm.full(addr, cmd, now)
        got = bool(lim.is_limited(addr, [cmd]))
        alt_says = alt.decide(addr, cmd, now)
        counters["decisions"] = counters.get("decisions", 0) + 1
        specific = addr in refm.rules and cmd in refm.rules[addr]
        for scope, rules in refm.applicable(addr, cmd):
            for interval, n in rules:
                if any(abs((now - t) - interval) < 1e-9 for t in refm.admitted.get((scope, cmd), [])):
                    boundary = True
        rp = {"ruleset": rsi, "sequence": [list(x) for x in seq[: step + 1]]}
        if got:
            refused = True
            counters["refusals"] = counters.get("refusals", 0) + 1
            if not full:
                exempt = any(n < 0 for _, rules in refm.applicable(addr, cmd) for _, n in rules)
                generic_full = False
                if specific:
                    # would the generic rules have been full?  -> precedence defect
                    probe = Reference({k: v for k, v in rs.items() if k in ("global", "ip")})
                    probe.admitted = refm.admitted
                    generic_full = bool(probe.full(addr, cmd, now))
                key = "over-block/" + ("exempt-n=-1" if exempt and specific else ("generic-rule-despite-specific/%s" % ("ipv6" if ":" in addr else "ipv4") if specific and generic_full
                                       else ("refused-messages-counted-by-earlier-scope" if alt_says else "no-rule-has-n-admitted")))
                viols.append({"key": key, "msg": "rules %s: %s from %s at t=%.1f refused although no applicable rule has passed n messages in its window (admitted history %s)"
                              % (json.dumps(rs), cmd, addr, now - 1000, {str(k): [round(t - 1000, 2) for t in v] for k, v in refm.admitted.items()}), "replay": rp})
        else:
            if full:
                scope, interval, n, c = full[0]
                viols.append({"key": "over-admit/%s" % ("specific" if specific else scope[0]),
                              "msg": "rules %s: %s from %s at t=%.1f admitted although rule %d/%ds of scope %s had already passed %d in its window"
                                     % (json.dumps(rs), cmd, addr, now - 1000, n, interval, scope, c), "replay": rp})
            refm.record(addr, cmd, now)
    if refused or boundary:
        nontrivial.append(h([rsi, [list(x) for x in seq]]))


def alphabet(rsi):
    rs = parse(RULESETS[rsi])
    intervals = sorted({i for scope in rs.values() for rules in scope.values() for i, _ in rules})
    base = intervals[0]
    steps = [0, base / 2.0, base, 2 * base]
    if len(intervals) > 1:
        steps.append(intervals[-1])
    addrs = [A1, A2] + [a for a in (AS4, AS6) if a in RULESETS[rsi]]
    cmds = sorted({c for scope in rs.values() for c in scope})
    if len(cmds) == 1:
        cmds = cmds + ["CLOSE"]
    return [(dt, a, c) for dt in steps for a in addrs for c in cmds] + [(dt, "-", "CLEANUP") for dt in steps[:3]]


def plan(tier, seed):
    return _plan(tier, seed) + e2e_plan(tier, seed)


def e2e_plan(tier, seed):
    """shards on a REAL server process tree (vf/e2e.py)"""
    return [{"mode": "e2e", "e2e": "c18", "backend": b, "seed": seed} for b in (("sql",) if tier == "quick" else ("sql", "lmdb"))]


def _plan(tier, seed):
    shards = []
    for rsi in range(len(RULESETS)):
        if tier == "quick":
            d, parts = (4, 8) if rsi in (3, 16) else (3, 1)
        else:
            d, parts = (5, 32) if rsi in (3, 7, 14, 16) else (4, 8)
        for p in range(parts):
            shards.append({"mode": "enum", "ruleset": rsi, "depth": d, "part": p, "parts": parts, "case_seed": seed})
    shards.append({"mode": "random", "case_seed": seed, "n": 30 if tier == "quick" else 300})
    shards.append({"mode": "growth", "case_seed": seed})
    shards.append({"mode": "integration", "case_seed": seed})
    return shards


def run_enum(spec, counters, viols, nontrivial):
    rsi = spec["ruleset"]
    alpha = alphabet(rsi)
    # thin the alphabet so that depth-d enumeration stays tractable: keep all time steps,
    # all commands, at most 3 addresses
    n = 0
    for first_i, first in enumerate(alpha):
        if first_i % spec["parts"] != spec["part"]:
            continue
        for rest in itertools.product(alpha, repeat=spec["depth"] - 1):
            seq = (first,) + rest
            judge_sequence(rsi, seq, counters, viols, nontrivial)
            n += 1
            if len(viols) > 200:
                return n
    return n


def run_random(spec, counters, viols, nontrivial):
    r = random.Random(spec["case_seed"])
    for j in range(spec["n"]):
        rsi = r.randrange(len(RULESETS))
        alpha = alphabet(rsi)
        seq = [r.choice(alpha) for _ in range(2000)]
        # sprinkle sub-interval jitter
        seq = [(dt + r.choice([0, 0, 0.01, 0.3]), a, c) for dt, a, c in seq]
        if j % 2:
            # more peers: neighbours of the others in every textual / numeric sense (IPv4-mapped forms that share their
            # first bytes, hosts of one /64, an address that extends another as a string) - each is a peer of its own
            more = ["::ffff:10.0.0.1", "::ffff:192.168.5.5", "2001:db8::2", "2001:db8::1:1", "10.0.0.11", "64:ff9b::a00:1", "64:ff9b::c0a8:505"]
            seq = [(dt, (r.choice(more) if a in (A1, A2) and r.random() < 0.4 else a), c) for dt, a, c in seq]
            counters["neighbour_address_sequences"] = counters.get("neighbour_address_sequences", 0) + 1
        judge_sequence(rsi, seq, counters, viols, nontrivial)
        if len(viols) > 50:
            break


def run_growth(spec, counters, viols, nontrivial):
    for rsi, rs in enumerate(RULESETS):
        rules = parse(rs)
        for scope, cmds in rules.items():
            for cmd, rl in cmds.items():
                maxint, nmax = max(rl)
                if all(n < 0 for _, n in rl):
                    # exempt (n = -1): never refused, yet what is remembered about the address must not grow with
                    # the lifetime of the connection - at most what arrived within the rule's own interval
                    pace = maxint / 10.0
                    sizes = []
                    for L in (400, 1600):
                        clock = Clock()
                        lim = make_limiter(rs, clock)
                        addr = scope if scope not in ("global", "ip") else A1
                        refused = 0
                        for _ in range(L):
                            clock.t += pace
                            refused += bool(lim.is_limited(addr, [cmd]))
                        sizes.append((L, max((len(q) for per in lim.recent_commands.values() for q in per.values()), default=0), refused))
                    counters["growth_runs_exempt"] = counters.get("growth_runs_exempt", 0) + 1
                    nontrivial.append(h(["growth-exempt", rsi, scope, cmd]))
                    if sizes[1][1] > 2 * 10 + 2 and sizes[1][1] > sizes[0][1]:
                        viols.append({"key": "state-growth/exempt", "msg": "rules %s: exempt %s from %s paced at one per %.2fs: retained timestamps %d after %d messages and %d after %d; only %d fall inside the interval"
                                      % (json.dumps(rs), cmd, addr, pace, sizes[0][1], sizes[0][0], sizes[1][1], sizes[1][0], 10), "replay": {"mode": "growth", "ruleset": rsi}})
                    if sizes[0][2] or sizes[1][2]:
                        viols.append({"key": "over-block/exempt-n=-1", "msg": "rules %s: exempt %s from %s was refused %d times" % (json.dumps(rs), cmd, addr, sizes[1][2]), "replay": {"mode": "growth", "ruleset": rsi}})
                    continue
                if nmax < 0 or any(n < 0 for _, n in rl):
                    continue
                # pace: just below the tightest rule
                pace = max(i / float(n) for i, n in rl) * 1.05
                sizes = []
                for L in (400, 1600):
                    clock = Clock()
                    lim = make_limiter(rs, clock)
                    addr = scope if scope not in ("global", "ip") else A1
                    refused = 0
                    for _ in range(L):
                        clock.t += pace
                        refused += bool(lim.is_limited(addr, [cmd]))
                    size = max((len(q) for per in lim.recent_commands.values() for q in per.values()), default=0)
                    sizes.append((L, size, refused))
                counters["growth_runs"] = counters.get("growth_runs", 0) + 1
                B = nmax
                nontrivial.append(h(["growth", rsi, scope, cmd]))
                if sizes[1][1] > 2 * B + 2 and sizes[1][1] > sizes[0][1]:
                    viols.append({"key": "state-growth", "msg": "rules %s: %s paced at one per %.2fs (never refused: %s): retained timestamps %d after %d messages and %d after %d; the rules need at most %d"
                                  % (json.dumps(rs), cmd, pace, [s[2] for s in sizes], sizes[0][1], sizes[0][0], sizes[1][1], sizes[1][0], B),
                                  "replay": {"mode": "growth", "ruleset": rsi}})


def run_large_n(spec, counters, viols, nontrivial):
    """rules whose n is larger than anything the small rule sets use: exactly n are admitted per window"""
    for n in (999, 1000, 1001, 1500, 4000):
        for scope in ("ip", "global"):
            clock = Clock()
            lim = make_limiter({scope: {"EVENT": "%d/h" % n}}, clock)
            admitted = 0
            for i in range(n + 300):
                clock.t += 0.001
                admitted += not lim.is_limited(A1 if i % 2 or scope == "ip" else A2, ["EVENT"])
            counters["large_n_runs"] = counters.get("large_n_runs", 0) + 1
            counters["decisions"] = counters.get("decisions", 0) + n + 300
            nontrivial.append(h(["large-n", n, scope]))
            if admitted != n:
                viols.append({"key": "%s/large-n" % ("over-admit" if admitted > n else "over-block"), "msg": "rule %s EVENT %d/h: %d of %d messages within one hour were admitted"
                              % (scope, n, admitted, n + 300), "replay": {"mode": "growth"}})


def run_auth_integration(spec, counters, viols, nontrivial):
    """AUTH messages are rate limited like every other command - also when authentication is enabled"""
    from .. import rig as R, ref

    async def main():
        rig = R.Rig(backend="sql", config={"analysis_delay": 0, "rate_limits": {"ip": {"AUTH": "2/m", "REQ": "3/m"}},
                                           "authentication": {"enabled": True, "relay_urls": ["ws://localhost:6969"]}})
        rig.load_config()
        clock = Clock()
        from nostr_relay import rate_limiter

        rate_limiter.perf_counter = clock
        await rig.start()
        try:
            lim = rate_limiter.get_rate_limiter(rig.Config)
            calls = []
            orig = lim.is_limited

            def counted(addr, message):
                v = orig(addr, message)
                calls.append((message[0], v))
                return v

            lim.is_limited = counted
            conn = rig.connect("rl-auth", rate_limiter=lim, addr=A1)
            await rig.quiesce()
            ch = next((f[1] for _, f in conn.parsed_frames() if isinstance(f, list) and f and f[0] == "AUTH"), "x")
            key = ref.key_from_seed("c18-auth")
            n0 = rig.rec.n
            for i in range(5):
                clock.t += 0.01
                ev = ref.make_event(key, kind=22242, created_at=1700000000 + i, tags=[["relay", "ws://localhost:6969"], ["challenge", ch]], content="")
                await conn.cmd(["AUTH", ev])
            await rig.quiesce()
            auth_calls = [v for c, v in calls if c == "AUTH"]
            notices = [f for _, f in conn.parsed_frames(n0) if isinstance(f, list) and f and f[0] == "NOTICE" and "rate-limited" in str(f[1])]
            counters.setdefault("integration", {})["auth_commands"] = 5
            nontrivial.append(h(["integration", "auth", len(auth_calls)]))
            if len(auth_calls) != 5:
                viols.append({"key": "integration/auth-not-consulted", "msg": "authentication enabled, rule AUTH 2/m: 5 AUTH messages but %d limiter consultations for AUTH" % len(auth_calls), "replay": {"mode": "integration"}})
            elif sum(1 for v in auth_calls if not v) != 2 or len(notices) != 3:
                viols.append({"key": "integration/auth-limit", "msg": "AUTH 2/m with 5 AUTH messages: limiter admitted %d, %d rate-limited NOTICEs" % (sum(1 for v in auth_calls if not v), len(notices)), "replay": {"mode": "integration"}})
        finally:
            await rig.close()

    R.run(main)


def run_integration(spec, counters, viols, nontrivial):
    """through web.start_client: one consultation per validated command, refusals have no effect"""
    from .. import rig as R, ref, dump

    async def main():
        rig = R.Rig(backend="sql", config={"analysis_delay": 0, "rate_limits": {"ip": {"EVENT": "2/s", "REQ": "2/s"}}})
        rig.load_config()
        clock = Clock()
        from nostr_relay import rate_limiter

        rate_limiter.perf_counter = clock
        await rig.start()
        integ = counters.setdefault("integration", {})
        try:
            lim = rate_limiter.get_rate_limiter(rig.Config)
            assert type(lim).__name__ == "RateLimiter"
            calls = []
            orig = lim.is_limited

            def counted(addr, message):
                r = orig(addr, message)
                calls.append((addr, message[0], r))
                return r

            lim.is_limited = counted
            conn = rig.connect("rl", rate_limiter=lim, addr=A1)
            key = ref.key_from_seed("c18")
            evs = [ref.make_event(key, kind=1, created_at=1700000000 + i, content="rl%d" % i) for i in range(5)]
            frames = []
            sent = 0
            for i, e in enumerate(evs):
                frames.append(await conn.cmd(["EVENT", e]))
                sent += 1
            await conn.cmd("not json")
            await conn.cmd(["BOGUS", 1])
            await conn.cmd(["EVENT"])
            for i in range(4):
                await conn.cmd(["REQ", "s%d" % i, {"kinds": [1]}])
                sent += 1
            await rig.quiesce()
            integ["commands"] = sent
            if len(calls) != sent:
                viols.append({"key": "integration/consultations", "msg": "%d validated commands but %d limiter consultations" % (sent, len(calls)), "replay": {"mode": "integration"}})
            d = dump.dump(rig)
            refused_events = [evs[i]["id"] for i, c in enumerate(calls[:5]) if c[2]]
            integ["refused_events"] = len(refused_events)
            for rid in refused_events:
                if rid in d["events"]:
                    viols.append({"key": "integration/refused-event-stored", "msg": "rate-limited EVENT %s was stored" % rid[:12], "replay": {"mode": "integration"}})
            oks = [f for _, f in conn.parsed_frames() if isinstance(f, list) and f and f[0] == "OK"]
            limited_oks = [f for f in oks if f[2] is False and "rate-limited" in f[3]]
            if len(limited_oks) != len(refused_events):
                viols.append({"key": "integration/refusal-not-reported", "msg": "%d EVENTs refused by the limiter, %d rate-limited OK frames" % (len(refused_events), len(limited_oks)), "replay": {"mode": "integration"}})
            nsubs = len(rig.storage.clients.get(next(iter(rig.storage.clients), None), {})) if rig.storage.clients else 0
            refused_reqs = sum(1 for c in calls[5:] if c[2])
            integ["refused_reqs"] = refused_reqs
            if nsubs != 4 - refused_reqs:
                viols.append({"key": "integration/refused-req-subscribed", "msg": "%d REQs refused, yet %d subscriptions are open" % (refused_reqs, nsubs), "replay": {"mode": "integration"}})
            nontrivial.append(h(["integration", len(refused_events), refused_reqs]))
            # a refused command has NO effect - also a refused CLOSE: its subscription stays open and served
            lim3 = rate_limiter.RateLimiter({"ip": {"CLOSE": "2/m", "REQ": "100/s"}})
            c3 = rig.connect("rl-close", rate_limiter=lim3, addr="10.0.0.3")
            pubc = rig.connect("rl-pub", addr="10.0.0.4")
            for i in range(4):
                await c3.cmd(["REQ", "c%d" % i, {"kinds": [7], "since": 1700001000}])
            await rig.quiesce()
            calls3 = []
            orig3 = lim3.is_limited

            def counted3(addr, message):
                v = orig3(addr, message)
                calls3.append((message[0], message[1] if len(message) > 1 else None, v))
                return v

            lim3.is_limited = counted3
            for i in range(4):
                await c3.cmd(["CLOSE", "c%d" % i])
            await rig.quiesce()
            refused = [sid for cmd, sid, v in calls3 if cmd == "CLOSE" and v]
            admitted = [sid for cmd, sid, v in calls3 if cmd == "CLOSE" and not v]
            integ["refused_closes"] = len(refused)
            open_now = set(rig.subs_of(c3).keys())
            m0 = rig.rec.n
            live = ref.make_event(key, kind=7, created_at=1700002000, content="after the CLOSEs")
            await pubc.cmd(["EVENT", live])
            await rig.quiesce()
            got = {f[1] for _, f in c3.parsed_frames(m0) if isinstance(f, list) and len(f) > 2 and f[0] == "EVENT" and f[2].get("id") == live["id"]}
            nontrivial.append(h(["integration", "refused-close", len(refused)]))
            if len(refused) != 2 or len(admitted) != 2:
                viols.append({"key": "integration/close-limit", "msg": "CLOSE 2/m with four CLOSEs at once: limiter admitted %s refused %s" % (admitted, refused), "replay": {"mode": "integration"}})
            elif got != set(refused) or open_now != set(refused):
                viols.append({"key": "integration/refused-close-had-effect", "msg": "CLOSE of %s was refused by the limiter (NOTICE rate-limited), yet the subscriptions still open are %s and the live event reached %s"
                              % (refused, sorted(open_now), sorted(got)), "replay": {"mode": "integration"}})
            # ACCEPT: the real NostrAPI.on_websocket with a stub websocket
            import falcon
            from nostr_relay import web

            lim2 = rate_limiter.RateLimiter({"ip": {"ACCEPT": "1/s"}})

            class Req:
                remote_addr = A2

                def get_header(self, name):
                    return "http://x"

            class WS:
                def __init__(self):
                    self.accepted = False
                    self.closed = None

                async def accept(self):
                    self.accepted = True

                async def close(self, code=1000):
                    self.closed = code

                async def send_text(self, t):
                    pass

                async def receive_text(self):
                    raise falcon.WebSocketDisconnected()

            api = web.NostrAPI(rig.storage, rate_limiter=lim2)
            results = []
            for dt in (0, 0.2, 1.0, 0.5):
                clock.t += dt
                ws = WS()
                await api.on_websocket(Req(), ws)
                results.append((ws.accepted, ws.closed))
            integ["accepts"] = len(results)
            expected = [True, False, True, False]
            if [r[0] for r in results] != expected:
                viols.append({"key": "integration/accept-limit", "msg": "ACCEPT 1/s with connection attempts at +0,+0.2,+1.0,+0.5s: accepted=%s expected %s" % ([r[0] for r in results], expected),
                              "replay": {"mode": "integration"}})
        finally:
            await rig.close()

    R.run(main)


def run_shard(spec):
    if spec.get("mode") == "e2e":
        from .. import e2e_cases

        return e2e_cases.run_e2e_shard(ID, spec)
    counters, viols, nontrivial = {}, [], []
    if spec["mode"] == "enum":
        n = run_enum(spec, counters, viols, nontrivial)
        counters["sequences"] = n
    elif spec["mode"] == "random":
        run_random(spec, counters, viols, nontrivial)
    elif spec["mode"] == "growth":
        run_growth(spec, counters, viols, nontrivial)
        run_large_n(spec, counters, viols, nontrivial)
    else:
        run_integration(spec, counters, viols, nontrivial)
        run_auth_integration(spec, counters, viols, nontrivial)
    seen, out = {}, []
    for v in viols:
        seen[v["key"]] = seen.get(v["key"], 0) + 1
        if seen[v["key"]] <= 1:
            out.append(v)
    counters["violations_by_key"] = seen
    cov = {"modes": {spec["mode"]: 1}}
    if spec["mode"] == "enum":
        cov["rulesets_enumerated"] = {ruleset_key(spec["ruleset"]): counters.get("sequences", 0)}
    samples = []
    if spec["mode"] == "enum":
        samples = [{"rules": RULESETS[spec["ruleset"]], "alphabet": [list(a) for a in alphabet(spec["ruleset"])][:8], "depth": spec["depth"]}]
    return {"evaluations": counters.get("decisions", 0) + counters.get("growth_runs", 0) + counters.get("integration", {}).get("commands", 0),
            "nontrivial": sorted(set(nontrivial)), "counters": counters, "coverage": cov, "violations": out, "samples": samples, "inconclusive": []}


def replay(rp, spec):
    if rp.get("mode") == "e2e":
        from .. import e2e_cases

        return e2e_cases.run_e2e_shard(ID, rp)
    counters, viols, nontrivial = {}, [], []
    if rp.get("mode") == "growth":
        run_growth({}, counters, viols, nontrivial)
    elif rp.get("mode") == "integration":
        run_integration({}, counters, viols, nontrivial)
    else:
        judge_sequence(rp["ruleset"], [tuple(x) for x in rp["sequence"]], counters, viols, nontrivial)
    return {"evaluations": 1, "nontrivial": nontrivial, "counters": counters, "violations": viols, "samples": [], "inconclusive": []}
