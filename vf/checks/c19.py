"""
C19 - no client input can crash, wedge or leak a connection, or disturb others.

Hostile frames (a grammar of the four commands with every JSON type substituted at every
position of the message, of the event object and of the filter object, plus raw texts that
are not JSON) are fed in batches to the real connection handler.  Monitors: the handler
coroutine must never raise; a connection the relay kept open must still answer a
well-formed probe REQ; a well-behaved neighbour connection must keep receiving live pushes
and probe answers; after the end of a connection the registry holds nothing of it and no
task of it is left; the worker interpreter must survive (faulthandler, subprocess).
"""
import asyncio
import gc
import json
import random

from .. import rig as R, ref, gen, env
from ..orch import h

ID = "C19"
TECHNIQUE = 'runtime monitoring - robustness probes after hostile frames / validly signed hostile events: handler must not raise, same connection and neighbours still served, no registry or task leak; a peer that stops reading; wedged-relay watchdog; bound on the delays the handler asks for after refused commands (recorded virtual sleeps); end-to-end shard on a real server: binary / fragmented / oversized / deeply nested messages, aborted connections with backlog, connect-abort storms, raw TCP garbage, HTTP paths, then probes of other connections, worker pid unchanged, registry dump (SIGUSR1) free of the ended connections subscriptions, server log free of escaped exceptions'
LEVEL = "exploration"
CRASH_IS_VIOLATION = True
RULE = (
    "cases = (backend, config in {plain, rate-limited, auth enabled}, batch of 3-10 hostile frames followed by probes). "
    "Hostile frames: for each of EVENT / REQ / CLOSE / AUTH a valid message in which ONE position (message slot, event "
    "field, tag, tag item, filter key, filter value, list element) is replaced by each of ~25 typed values (null, booleans, "
    "0, -1, 2^70, floats incl. 1e308, empty / 1 kB / 1 MB strings, NUL, empty and nested arrays and objects, nesting "
    "depth 500 / 5000 (thorough 10^5)), two-position mutations sampled, plus ~40 raw texts (truncated JSON, bare "
    "scalars, NaN, lone surrogate escapes, huge numbers, wrong arity). Non-trivial = a batch containing at least one "
    "frame that is not a well-formed command, after which a probe obligation was checked. Distinct = distinct "
    "(backend, config, frame text hash). Plus a hostile PEER rather than a hostile frame: a connection with 8-12 live "
    "subscriptions that stops reading (its send blocks) while 1000-3000 frames become due for it; publishers, another "
    "subscriber, a later connection and the task table are observed."
)
ASSUMPTIONS = [
    "end-to-end shards: a real gunicorn/uvicorn server process tree started from the tree under test (vf/e2e_launch.py: the repository's run_with_gunicorn / run_with_uvicorn; the SQL schema is made with the repository's metadata.create_all because its alembic env.py does not run with the installed SQLAlchemy; the notifier's fixed TCP port 6000 is replaced by a free port), spoken to over loopback TCP with the websockets client; real time, real sleeps",
    "closing the offending connection (ws_close + clean handler exit) is an allowed reaction; raising out of the handler is not",
    "exceptions that stay inside background tasks are counted in the evidence but are only a violation if they stop the connection or its neighbour from being served",
    "LMDB backend over /verif/shim; SQL = SQLite",
]
MIN_NONTRIVIAL = {"quick": 1500, "thorough": 12000}
REQUIRED_COUNTERS = ["e2e.e2e_probes", "e2e.e2e_registry_dumps", "throttle_sleeps_checked", "probe.same_connection", "probe.neighbour_push", "probe.neighbour_req", "probe.neighbour_tag_req", "leak_checks", "frames", "stalled.publishes", "stalled.late_connections"]
SHARD_TIMEOUT = {"quick": 600, "thorough": 3200}
ANSWER_BOUND = 60  # seconds (virtual) a kept-open connection may be made to wait for one answer


def deep(n, leaf=1, obj=False):
    s = ("[" * n + json.dumps(leaf) + "]" * n) if not obj else ('{"a":' * n + json.dumps(leaf) + "}" * n)
    return RawJSON(s)


class RawJSON:
    """a JSON text to be spliced in verbatim (for values too deep for python's encoder)"""

    def __init__(self, text):
        self.text = text


def dumps(o):
    """json.dumps that splices RawJSON values in"""
    marks = []

    def default(x):
        if isinstance(x, RawJSON):
            marks.append(x.text)
            return "@@RAW%d@@" % (len(marks) - 1)
        raise TypeError

    s = json.dumps(o, default=default, ensure_ascii=False, separators=(",", ":"))
    for i, t in enumerate(marks):
        s = s.replace('"@@RAW%d@@"' % i, t)
    return s


def typed_values(tier):
    big = [deep(500), deep(5000), deep(500, obj=True)]
    if tier == "thorough":
        big += [deep(100000), deep(20000, obj=True)]
    return [None, True, False, 0, -1, 1, 2 ** 31, 2 ** 70, -2 ** 70, 1.5, 1e308, -0.0, "", "x", "x" * 1000, "y" * 1000000, "\x00", "é\U0001f600",
            [], [[]], [None], ["a", 1], {}, {"a": 1}, {"id": "x"}, RawJSON("1e999"), RawJSON("-1e999"), RawJSON("123456789012345678901234567890.5")] + big


RAW_TEXTS = ["", " ", "{", "[", "[]", "{}", "nul", "null", "true", "123", "\"str\"", "[1,2", "[1,2]", "[\"EVENT\"]", "[\"EVENT\",{}]", "[\"EVENT\",{},{}]",
             "[\"REQ\"]", "[\"REQ\",\"a\"", "[\"REQ\",\"a\",", "[\"CLOSE\"]", "[\"AUTH\"]", "[\"AUTH\",{}]", "[\"AUTH\",\"x\"]", "NaN", "[NaN]", "[\"REQ\",\"a\",{\"since\":NaN}]",
             "Infinity", "[\"REQ\",\"a\",{\"limit\":Infinity}]", "[\"REQ\",\"\\ud800\",{}]", "[\"EVENT\",{\"content\":\"\\ud800\"}]", "\ufeff[\"REQ\",\"a\",{}]",
             "[\"REQ\",\"a\",{\"kinds\":[1e999]}]", "\x00", "[\"REQ\",\"a\",{}]\x00", "[\"REQ\",\"a\",{}] trailing", "[\"BOGUS\",1]", "[\"event\",{}]", "[[\"EVENT\"],{}]",
             "[\"REQ\",\"a\",{\"ids\":[\"" + "0" * 64 + "\"]}" + ",{}" * 2000 + "]", "[" + "1," * 100000 + "1]", "\"" + "\\u0000" * 10000 + "\"",
             "[\"REQ\",\"a\",{\"kinds\":[" + "1," * 50000 + "1]}]", "[\"REQ\",\"a\",{\"#e\":[" + "\"x\"," * 50000 + "\"x\"]}]"]


def paths(obj, prefix=()):
    """all positions (paths) inside a JSON value"""
    yield prefix
    if isinstance(obj, list):
        for i, v in enumerate(obj):
            yield from paths(v, prefix + (i,))
    elif isinstance(obj, dict):
        for k, v in obj.items():
            yield from paths(v, prefix + (k,))


def replace_at(obj, path, value):
    import copy

    if not path:
        return value
    obj = copy.deepcopy(obj)
    cur = obj
    for p in path[:-1]:
        cur = cur[p]
    cur[path[-1]] = value
    return obj


def base_messages(key, known_id):
    ev = ref.make_event(key, kind=1, created_at=gen.T0, tags=[["e", known_id, "wss://r"], ["p", key.pk], ["t", "x"]], content="hostile-base")
    auth = ref.make_event(key, kind=22242, created_at=gen.T0, tags=[["relay", "ws://localhost:6969"], ["challenge", "c"]], content="")
    flt = {"ids": [known_id], "authors": [key.pk], "kinds": [1, 7], "#e": [known_id], "#p": ["a", "b"], "since": gen.T0 - 10, "until": gen.T0 + 10, "limit": 5,
           "search": "x"}
    return {
        "EVENT": ["EVENT", ev],
        "REQ": ["REQ", "h", flt, {"kinds": [1]}],
        "CLOSE": ["CLOSE", "h"],
        "AUTH": ["AUTH", auth],
    }


def hostile_frames(r, key, known_id, tier, count):
    base = base_messages(key, known_id)
    vals = typed_values(tier)
    allpos = []
    for name, msg in base.items():
        for p in paths(msg):
            if p:
                allpos.append((name, p))
    frames = []
    # every (position, value) once, in random order, cut to `count`
    combos = [(name, p, vi) for (name, p) in allpos for vi in range(len(vals))]
    r.shuffle(combos)
    for name, p, vi in combos[: int(count * 0.8)]:
        m = replace_at(base[name], list(p), vals[vi])
        if r.random() < 0.15:
            name2, p2 = r.choice(allpos)
            if name2 == name and p2[: len(p)] != p and p[: len(p2)] != p2:
                try:
                    m = replace_at(m, list(p2), r.choice(vals))
                except Exception:
                    pass
        frames.append(("%s%s:=%s" % (name, list(p), label(vals[vi])), dumps(m)))
    for t in RAW_TEXTS:
        frames.append(("raw:%s" % t[:30], t))
    # dict key mutations / extra keys / arity
    for name, msg in base.items():
        frames.append((name + "+extra", dumps(msg + [{"x": 1}])))
        frames.append((name + "-short", dumps(msg[:1])))
        if isinstance(msg[1], dict):
            for k in list(msg[1].keys()):
                m = json.loads(json.dumps(msg))
                del m[1][k]
                frames.append(("%s-del-%s" % (name, k), dumps(m)))
            m = json.loads(json.dumps(msg))
            m[1]["extra"] = 1
            frames.append((name + "+key", dumps(m)))
    # correctly signed events with hostile payloads (they get past signature checks and
    # reach storage, indexes and the live matching of other connections' subscriptions)
    from .. import subm

    hostile_tags = [[["p", ["nested"]]], [["p", 5]], [["e", None]], [["p", {"a": 1}]], [["t", 1.5]], [["p", True]], [["e", []]], [["p", "a"], ["p", ["a"]]],
                    [["e", "x" * 5000]], [["p", "\x00"]], [["d"]], [["p"]], [["expiration", "abc"]], [["expiration", []]], [["delegation", "x", "y", "z"]],
                    [["e", "zz"]], [["p", "a", ["third"]]], [["e", 2 ** 63]], [["e", -1]],
                    # values that extend a value other clients ask for, across the index's own separator
                    [["t", "q\x00zz"]], [["t", "q\x00"]], [["t", "q\x00\xff\xff"]], [["t", "q\x00e\x00"]], [["t", "q" * 300]], [["t", ""]], [["p", "a\x00z"]]]
    for i, tags in enumerate(hostile_tags):
        for kind in (1, 5, 30000):
            ev = ref.make_event(key, kind=kind, created_at=gen.T0 + 50 + i, tags=tags, content="signed-hostile %d" % i)
            try:
                ev["id"] = subm.rapid_id(ev)
                ev["sig"] = key.sign(bytes.fromhex(ev["id"]))
            except Exception:
                continue
            frames.append(("signed:kind%d:tags=%s" % (kind, json.dumps(tags)[:40]), dumps(["EVENT", ev])))
    for content in ("\x00", "x" * 200000, "\ud7ff\ue000", "\u2028\u2029"):
        ev = ref.make_event(key, kind=1, created_at=gen.T0 + 90, content=content)
        frames.append(("signed:content=%r" % content[:8], dumps(["EVENT", ev])))
    r.shuffle(frames)
    return frames


def label(v):
    if isinstance(v, RawJSON):
        return "raw(%s..%d)" % (v.text[:6], len(v.text))
    s = json.dumps(v)
    return s if len(s) < 24 else "%s..(%d)" % (s[:12], len(s))


async def run_case(backend, cfgname, frames, counters, seed):
    cfg = {"analysis_delay": 0, "subscription_limit": 4, "message_timeout": 1800}
    if cfgname == "rate-limited":
        cfg["rate_limits"] = {"ip": {"EVENT": "1000/s", "REQ": "1000/s"}, "global": {"CLOSE": "100000/s"}}
    if cfgname == "auth":
        cfg["authentication"] = {"enabled": True, "relay_urls": ["ws://localhost:6969"], "actions": {"save": "a", "query": "a"}}
    rig = R.Rig(backend=backend, config=cfg)
    await rig.start()
    viols, nontrivial, samples = [], [], []
    probe = counters.setdefault("probe", {})
    r = random.Random(seed)

    def bump(d, k):
        d[k] = d.get(k, 0) + 1

    try:
        limiter = None
        if cfgname == "rate-limited":
            from nostr_relay import rate_limiter

            limiter = rate_limiter.get_rate_limiter(rig.Config)
        key = ref.key_from_seed("c19")
        pub = rig.connect("pub")
        known = ref.make_event(key, kind=1, created_at=gen.T0 - 5, content="known")
        await pub.cmd(["EVENT", known])
        tagged = ref.make_event(key, kind=1, created_at=gen.T0 - 4, tags=[["t", "q"], ["p", "a"]], content="tagged")
        await pub.cmd(["EVENT", tagged])
        neigh = rig.connect("neighbour", rate_limiter=limiter)
        await neigh.cmd(["REQ", "n", {"kinds": [1], "since": gen.T0 + 1000}])
        # a second subscription whose tag conditions make live matching look INTO hostile events
        await neigh.cmd(["REQ", "n2", {"#p": ["a", "b"]}, {"#e": ["x", "zz"], "kinds": [1, 5]}, {"#t": ["q"]}, {"#d": [""]}])
        await rig.quiesce()
        victim = rig.connect("v0", rate_limiter=limiter)
        nlive = 0
        i = 0
        batch_no = 0
        while i < len(frames):
            batch = frames[i: i + r.randint(3, 10)]
            i += len(batch)
            batch_no += 1
            if victim.exited:
                victim = rig.connect("v%d" % batch_no, rate_limiter=limiter)
            sent = []
            env.LOGTAP.take()
            for lab, text in batch:
                if victim.exited:
                    break
                counters["frames"] = counters.get("frames", 0) + 1
                victim.feed(text)
                sent.append((lab, text))
                try:
                    await victim.processed(timeout=60)
                except R.Inconclusive:
                    viols.append({"key": "wedged-on-frame", "msg": "[%s/%s] the handler did not come back for the next frame within 60 s after %s" % (backend, cfgname, lab),
                                  "replay": {"backend": backend, "cfg": cfgname, "frames": [t if len(t) < 5000 else t[:200] + "...(%d)" % len(t) for _, t in sent], "labels": [l for l, _ in sent]}})
                    break
            rp = {"backend": backend, "cfg": cfgname, "labels": [l for l, _ in sent], "frames": [t for _, t in sent if len(t) < 20000]}
            for lab, text in sent:
                nontrivial.append(h([backend, cfgname, text if len(text) < 2000 else lab + str(len(text))]))
            if victim.exit_exc is not None:
                viols.append({"key": "handler-raised/%s" % type(victim.exit_exc).__name__, "msg": "[%s/%s] start_client raised %r after frames %s"
                              % (backend, cfgname, victim.exit_exc, [l for l, _ in sent][-3:]), "replay": rp})
            await rig.quiesce()
            # same connection still answers?
            if not victim.exited:
                bump(probe, "same_connection")
                n0 = rig.rec.n
                await victim.cmd(["REQ", "probe", {"ids": [known["id"]]}])
                await rig.quiesce()
                got = [f for n, f in victim.parsed_frames(n0) if isinstance(f, list)]
                ev_ok = any(f[0] == "EVENT" and f[1] == "probe" and f[2].get("id") == known["id"] for f in got if len(f) > 2)
                eose_ok = any(f[0] == "EOSE" and f[1] == "probe" for f in got if len(f) > 1)
                refused = any(f[0] == "NOTICE" for f in got)
                if refused and any("too many subscriptions" in str(f[1]) for f in got if f[0] == "NOTICE"):
                    # hostile REQs legitimately filled the subscription table: free it and retry once
                    for s in list(rig.subs_of(victim).keys()):
                        await victim.cmd(["CLOSE", s])
                    n0 = rig.rec.n
                    await victim.cmd(["REQ", "probe", {"ids": [known["id"]]}])
                    await rig.quiesce()
                    got = [f for n, f in victim.parsed_frames(n0) if isinstance(f, list)]
                    ev_ok = any(f[0] == "EVENT" and f[1] == "probe" and f[2].get("id") == known["id"] for f in got if len(f) > 2)
                    eose_ok = any(f[0] == "EOSE" and f[1] == "probe" for f in got if len(f) > 1)
                    refused = any(f[0] == "NOTICE" for f in got)
                auth_refusal = cfgname == "auth" and refused
                if not victim.exited and not (ev_ok and eose_ok) and not auth_refusal:
                    viols.append({"key": "kept-open-but-unresponsive", "msg": "[%s/%s] after %s the connection is open but a probe REQ got %s"
                                  % (backend, cfgname, [l for l, _ in sent][-3:], [f[:2] for f in got][:4]), "replay": rp})
                if not victim.exited:
                    await victim.cmd(["CLOSE", "probe"])
            # neighbour still served?
            bump(probe, "neighbour_push")
            nlive += 1
            live = ref.make_event(key, kind=1, created_at=gen.T0 + 2000 + nlive + batch_no * 100, content="live%d-%d" % (batch_no, nlive))
            m0 = rig.rec.n
            await pub.cmd(["EVENT", live])
            await rig.quiesce()
            pub_ok = [f for _, f in R.ok_frames(pub, m0)]
            if cfgname != "auth" and (not pub_ok or pub_ok[-1][2] is not True):
                viols.append({"key": "other-connection-refused", "msg": "[%s/%s] after %s a valid EVENT from another connection was answered %s"
                              % (backend, cfgname, [l for l, _ in sent][-3:], pub_ok[-1][2:] if pub_ok else None), "replay": rp})
            if neigh.exited or not any(isinstance(f, list) and len(f) > 2 and f[0] == "EVENT" and f[1] == "n" and f[2].get("id") == live["id"] for n, f in neigh.parsed_frames(m0)):
                viols.append({"key": "neighbour-lost-push", "msg": "[%s/%s] after %s the neighbour connection (exited=%s) did not get a live push"
                              % (backend, cfgname, [l for l, _ in sent][-3:], neigh.exited), "replay": rp})
                if neigh.exited:
                    neigh = rig.connect("neighbour%d" % batch_no, rate_limiter=limiter)
                    await neigh.cmd(["REQ", "n", {"kinds": [1], "since": gen.T0 + 1000}])
            if not neigh.exited:
                # an ordinary tag query of somebody else, for values that hostile events may have extended
                bump(probe, "neighbour_tag_req")
                m0 = rig.rec.n
                await neigh.cmd(["REQ", "nq", {"#t": ["q"]}, {"#p": ["a"], "limit": 3}])
                t0 = asyncio.get_running_loop().time()
                while asyncio.get_running_loop().time() - t0 < 20:
                    got = [f for n, f in neigh.parsed_frames(m0) if isinstance(f, list)]
                    if any(f[0] == "EOSE" and f[1] == "nq" for f in got if len(f) > 1) or neigh.exited:
                        break
                    await asyncio.sleep(0.01)
                if not any(f[0] == "EOSE" and f[1] == "nq" for f in got if len(f) > 1):
                    rig.abandon = True
                    viols.append({"key": "neighbour-tag-query-unanswered", "msg": "[%s/%s] after %s an ordinary tag REQ of another connection got no EOSE within 20 s" % (backend, cfgname, [l for l, _ in sent][-3:]), "replay": rp})
                    return viols, nontrivial, samples
                if not any(f[0] == "EVENT" and f[1] == "nq" and f[2].get("id") == tagged["id"] for f in got if len(f) > 2):
                    viols.append({"key": "neighbour-tag-query-incomplete", "msg": "[%s/%s] after %s the tag REQ of another connection no longer returns the stored event tagged t=q" % (backend, cfgname, [l for l, _ in sent][-3:]), "replay": rp})
                await neigh.cmd(["CLOSE", "nq"])
            if batch_no % 5 == 0 and not neigh.exited:
                bump(probe, "neighbour_req")
                m0 = rig.rec.n
                await neigh.cmd(["REQ", "np", {"ids": [known["id"]]}])
                await rig.quiesce()
                got = [f for n, f in neigh.parsed_frames(m0) if isinstance(f, list)]
                if not any(f[0] == "EOSE" and f[1] == "np" for f in got if len(f) > 1):
                    viols.append({"key": "neighbour-lost-answer", "msg": "[%s/%s] neighbour probe REQ unanswered after %s" % (backend, cfgname, [l for l, _ in sent][-3:]), "replay": rp})
                await neigh.cmd(["CLOSE", "np"])
            if len(samples) < 2 and batch_no % 7 == 3:
                samples.append({"backend": backend, "config": cfgname, "batch": [l for l, _ in sent], "victim_closed_by_relay": victim.exited, "close_code": victim.closed_code})
            if victim.exited:
                counters["connections_closed_by_relay"] = counters.get("connections_closed_by_relay", 0) + 1
        # ---- leaks after the end of every connection ------------------------------------------------
        for c in list(rig.conns.values()):
            if not c.exited:
                c.disconnect()
        for c in list(rig.conns.values()):
            if c.task:
                try:
                    await asyncio.wait_for(asyncio.shield(c.task), 10)
                except Exception:
                    pass
        await rig.quiesce()
        gc.collect()
        await asyncio.sleep(0)
        counters["leak_checks"] = counters.get("leak_checks", 0) + 1
        left = len(rig.storage.clients)
        if left:
            viols.append({"key": "registry-leak", "msg": "[%s/%s] storage.clients still holds %d entries after every connection ended" % (backend, cfgname, left),
                          "replay": {"backend": backend, "cfg": cfgname, "labels": [l for l, _ in frames][:50]}})
        busy = rig.busy_tasks()
        stray = [t for t in asyncio.all_tasks() if not t.done() and (t.get_name().startswith("conn-"))]
        if busy or stray:
            viols.append({"key": "task-leak", "msg": "[%s/%s] tasks still alive after every connection ended: %s %s" % (backend, cfgname, busy[:3], [t.get_name() for t in stray][:3]),
                          "replay": {"backend": backend, "cfg": cfgname, "labels": [l for l, _ in frames][:50]}})
        # ---- the delay the relay imposes on a connection after refused commands stays bounded -------
        # (bounded progress for "never stops answering later well-formed commands on a connection it kept
        # open": the rig records the sleeps the connection handler asks for instead of waiting them out;
        # no single one may exceed ANSWER_BOUND seconds, the configuration asks for none of its own here)
        from nostr_relay import web as _web

        slept = getattr(_web.asyncio, "slept", None)
        if slept is not None:
            counters["throttle_sleeps_checked"] = counters.get("throttle_sleeps_checked", 0) + len(slept)
            counters["throttle_longest_sleep"] = max(counters.get("throttle_longest_sleep", 0), max(slept or [0]))
            if slept and max(slept) > ANSWER_BOUND:
                viols.append({"key": "throttle/unbounded-delay", "msg": "[%s/%s] after %d refused commands the handler delays each further command of a kept-open connection by %.0f s (longest single delay asked for; bound %d s)"
                              % (backend, cfgname, sum(1 for x in slept if x), max(slept), ANSWER_BOUND),
                              "replay": {"backend": backend, "cfg": cfgname, "labels": [l for l, _ in frames][:50], "frames": [t for _, t in frames[:50] if len(t) < 20000]}})
            del slept[:]
        counters["task_exceptions_observed"] = counters.get("task_exceptions_observed", 0) + len(rig.loop_errors)
        if rig.loop_errors:
            counters.setdefault("task_exception_kinds", [])
            for e in rig.loop_errors[:5]:
                if e["exception"][:60] not in counters["task_exception_kinds"]:
                    counters["task_exception_kinds"].append(e["exception"][:60])
    finally:
        await rig.close()
    return viols, nontrivial, samples


async def run_stalled_reader(backend, counters, seed, nsubs=10, nevents=130):
    """
    One connection stops READING (its ws_send blocks, as a websocket send does once the peer's TCP window is
    full) while more than a thousand frames become due for it.  Nobody else may notice: publishers keep getting
    their OK, other subscribers their pushes, new connections are served, and when the stalled peer goes away
    its tasks end.
    """
    rig = R.Rig(backend=backend, config={"analysis_delay": 0, "subscription_limit": nsubs + 2})
    await rig.start()
    viols, nontrivial = [], []
    st = counters.setdefault("stalled", {})
    rp = {"mode": "stalled", "backend": backend, "seed": seed}
    try:
        key = ref.key_from_seed("c19-stall")
        slow = rig.connect("slow")
        slow.send_gate = asyncio.Event()
        other = rig.connect("other")
        await other.cmd(["REQ", "o", {"kinds": [1], "since": gen.T0}])
        for i in range(nsubs):
            await slow.cmd(["REQ", "s%d" % i, {"kinds": [1], "since": gen.T0}])
        pub = rig.connect("pub")
        wedged = None
        for i in range(nevents):
            ev = ref.make_event(key, kind=1, created_at=gen.T0 + 10 + i, content="stall %d %d" % (seed, i))
            n0 = rig.rec.n
            pub.feed(["EVENT", ev])
            try:
                await pub.processed(timeout=15)
            except R.Inconclusive:
                wedged = i
                break
            oks = R.ok_frames(pub, n0)
            st["publishes"] = st.get("publishes", 0) + 1
            if not oks or oks[-1][1][2] is not True:
                viols.append({"key": "stalled-reader/other-connection-refused", "msg": "[%s] event %d of a publisher was answered %s while another connection was not reading" % (backend, i, oks[-1][1][2:] if oks else None), "replay": rp})
                break
        due = nsubs * (wedged if wedged is not None else nevents)
        st["frames_due_for_stalled_peer"] = st.get("frames_due_for_stalled_peer", 0) + due
        nontrivial.append(h([backend, "stalled", nsubs, nevents, seed]))
        if wedged is not None:
            viols.append({"key": "stalled-reader/publisher-wedged", "msg": "[%s] with one connection not reading (%d frames due for it) the publisher got no answer to its event %d within 15 s"
                          % (backend, due, wedged), "replay": rp})
        else:
            # the other subscriber saw everything (LMDB: pushes follow the writer)
            t0 = asyncio.get_running_loop().time()
            want = nevents
            while asyncio.get_running_loop().time() - t0 < 20:
                got = sum(1 for _, f in other.parsed_frames() if isinstance(f, list) and len(f) > 2 and f[0] == "EVENT" and f[1] == "o")
                if got >= want:
                    break
                await asyncio.sleep(0.02)
            if got < want:
                viols.append({"key": "stalled-reader/neighbour-lost-push", "msg": "[%s] another subscriber received %d of %d live events while one connection was not reading" % (backend, got, want), "replay": rp})
        # the stalled peer goes away
        slow.disconnect()
        try:
            await asyncio.wait_for(asyncio.shield(slow.task), 15)
        except Exception:
            viols.append({"key": "stalled-reader/handler-never-ends", "msg": "[%s] the handler of the stalled connection did not end within 15 s of its disconnect" % backend, "replay": rp})
        late = rig.connect("late")
        ev = ref.make_event(key, kind=1, created_at=gen.T0 + 5000, content="after %d" % seed)
        n0 = rig.rec.n
        late.feed(["EVENT", ev])
        late.feed(["REQ", "l", {"ids": [ev["id"]]}])
        try:
            await late.processed(timeout=15)
            t0 = asyncio.get_running_loop().time()
            while asyncio.get_running_loop().time() - t0 < 15:
                fr = [f for _, f in late.parsed_frames(n0) if isinstance(f, list)]
                if any(f[0] == "EOSE" for f in fr):
                    break
                await asyncio.sleep(0.02)
            oks = R.ok_frames(late, n0)
            st["late_connections"] = st.get("late_connections", 0) + 1
            if not oks or oks[-1][1][2] is not True or not any(f[0] == "EOSE" for f in fr):
                viols.append({"key": "stalled-reader/relay-wedged-afterwards", "msg": "[%s] after the stalled connection ended a new connection got OK=%s and %s for EVENT+REQ"
                              % (backend, oks[-1][1][2:] if oks else None, [f[0] for f in fr][:4]), "replay": rp})
        except R.Inconclusive:
            viols.append({"key": "stalled-reader/relay-wedged-afterwards", "msg": "[%s] after the stalled connection ended a new connection was not served within 15 s" % backend, "replay": rp})
        for c in list(rig.conns.values()):
            if not c.exited:
                c.disconnect()
        for c in list(rig.conns.values()):
            if c.task:
                try:
                    await asyncio.wait_for(asyncio.shield(c.task), 10)
                except Exception:
                    pass
        await asyncio.sleep(0.05)
        busy = rig.busy_tasks()
        stray = [t for t in asyncio.all_tasks() if not t.done() and (t.get_name().startswith("conn-"))]
        pending_notify = [t for t in getattr(rig.storage, "_notify_sub_tasks", []) if not t.done()]
        if busy or stray or pending_notify:
            viols.append({"key": "stalled-reader/task-leak", "msg": "[%s] tasks still alive after every connection ended: %s %s pending notify tasks: %d"
                          % (backend, busy[:3], [t.get_name() for t in stray][:3], len(pending_notify)), "replay": rp})
    finally:
        await rig.close()
    return viols, nontrivial


def plan(tier, seed):
    return _plan(tier, seed) + e2e_plan(tier, seed)


def e2e_plan(tier, seed):
    """shards on a REAL server process tree (vf/e2e.py)"""
    out = []
    for i in range(1 if tier == "quick" else 4):
        out += [{"mode": "e2e", "e2e": "hostile", "backend": b, "seed": seed * 7919 + i} for b in ("sql", "lmdb")]
    return out


def _plan(tier, seed):
    out = []
    count = 450 if tier == "quick" else 6000
    for backend in ("sql", "lmdb"):
        for cfg in ("plain", "rate-limited", "auth"):
            for i in range(2 if tier == "quick" else 10):
                out.append({"backend": backend, "cfg": cfg, "case_seed": seed * 7919 + i, "count": count})
        out.append({"backend": backend, "cfg": "stalled-reader", "mode": "stalled", "case_seed": seed * 7919, "n": 1 if tier == "quick" else 8})
    return out


def run_shard(spec):
    if spec.get("mode") == "e2e":
        from .. import e2e_cases

        return e2e_cases.run_e2e_shard(ID, spec)
    r = random.Random(spec["case_seed"])
    counters = {}
    if spec.get("mode") == "stalled":
        viols, nontrivial = [], []
        for j in range(spec["n"]):
            v, nt = R.run(run_stalled_reader, spec["backend"], counters, spec["case_seed"] + j, nsubs=r.choice([8, 10, 12]), nevents=r.choice([130, 150, 260]))
            viols.extend(v)
            nontrivial.extend(nt)
        seen, out = {}, []
        for v in viols:
            seen[v["key"]] = seen.get(v["key"], 0) + 1
            if seen[v["key"]] <= 1:
                out.append(v)
        counters["violations_by_key"] = seen
        return {"evaluations": counters.get("stalled", {}).get("publishes", 0), "nontrivial": sorted(set(nontrivial)), "counters": counters,
                "coverage": {"backends": {spec["backend"]: 1}, "configs": {"stalled-reader": 1}}, "violations": out, "samples": [], "inconclusive": []}
    key = ref.key_from_seed("c19")
    known = ref.make_event(key, kind=1, created_at=gen.T0 - 5, content="known")
    tier = spec.get("tier", "quick")
    frames = hostile_frames(r, key, known["id"], tier, spec["count"])
    try:
        viols, nontrivial, samples = R.run(run_case, spec["backend"], spec["cfg"], frames, counters, spec["case_seed"])
    except R.Inconclusive as e:
        # the harness' generous (60 s) watchdog fired. Only when relay tasks are demonstrably
        # stuck (named in the message) is this the property's refutation; otherwise inconclusive
        if "busy=[]" in str(e) or "busy=" not in str(e):
            return {"evaluations": counters.get("frames", 0), "nontrivial": [], "counters": counters, "coverage": {}, "violations": [], "samples": [],
                    "inconclusive": ["watchdog: %s" % e]}
        viols, nontrivial, samples = [{"key": "relay-wedged", "msg": "[%s/%s] the relay did not become quiescent again: %s" % (spec["backend"], spec["cfg"], e),
                                       "replay": {"backend": spec["backend"], "cfg": spec["cfg"], "labels": [l for l, _ in frames][:80], "frames": []}}], [], []
    seen, out = {}, []
    for v in viols:
        seen[v["key"]] = seen.get(v["key"], 0) + 1
        if seen[v["key"]] <= 1:
            out.append(v)
    counters["violations_by_key"] = seen
    return {"evaluations": counters.get("frames", 0), "nontrivial": sorted(set(nontrivial)), "counters": counters,
            "coverage": {"backends": {spec["backend"]: 1}, "configs": {spec["cfg"]: 1}}, "violations": out, "samples": samples[:2], "inconclusive": []}


def replay(rp, spec):
    if rp.get("mode") == "e2e":
        from .. import e2e_cases

        return e2e_cases.run_e2e_shard(ID, rp)
    counters = {}
    if rp.get("mode") == "stalled":
        v, nt = R.run(run_stalled_reader, rp["backend"], counters, rp["seed"])
        return {"evaluations": 1, "nontrivial": nt, "counters": counters, "violations": v, "samples": [], "inconclusive": []}
    frames = list(zip(rp.get("labels", []), rp.get("frames", [])))
    v, nt, sm = R.run(run_case, rp["backend"], rp["cfg"], frames, counters, 0)
    return {"evaluations": len(frames), "nontrivial": nt, "counters": counters, "violations": v, "samples": [], "inconclusive": []}
