"""
C20 - cross-worker notification delivers each event id intact, once, to other workers.

The real NotifyServer and 2-5 real NotifyClients (one per simulated worker: its own
DBStorage over one shared SQLite file, its own subscriber connection served by the real
start_client) talk through a harness TCP proxy that re-chunks the byte stream between
server and each client by a seeded plan.  Exactly-once / no-loss checker over unique
32-byte ids: producer log (events accepted per origin worker) against the consumer logs
(ids handed to storage.get_event, pushes received by each worker's subscriber).
"""
import asyncio
import json
import random
import socket

from .. import rig as R, ref, gen, dump, env
from ..orch import h

ID = "C20"
TECHNIQUE = 'runtime monitoring - exactly-once / no-loss checker over unique ids between real NotifyServer and NotifyClients through a re-chunking TCP proxy (all split positions, coalescing, dribble, resets in both directions), stretched commits, resubmissions, start-up matrix of configurations; end-to-end shard: real gunicorn worker PROCESSES (2-3) on SQLite and on LMDB, connections placed on workers by /proc observation, exactly-once judgement of every (accepted event, subscriber) pair across workers, resubmissions to another worker'
LEVEL = "exploration"
RULE = (
    "cases = (number of workers 2-5, 60-400 announced ids with random origin, burst or paced, chunk plan per link in "
    "each direction: aligned 32 | fixed size k for every k in 1..63 (all of them in thorough, a seeded dozen in quick) | "
    "random sizes 1-100 | coalesce 2-8 ids | per-byte dribble; delays; optionally one peer reset mid-id or mid-stream, in the "
    "server->worker or the worker->server direction (a worker dying while it announces), as end of stream or as a RESET; kinds "
    "regular / ephemeral / parameterized; a tenth of the events resubmitted to a random worker afterwards). Plus the matrix of "
    "configurations (gunicorn.workers x purple section x run_notifier) that must start the notifier. "
    "Non-trivial = a case in which at least one link delivered a chunk that is not a multiple of 32 bytes, or a peer was "
    "reset, and ids were announced afterwards. Distinct = distinct (workers, plan per link, reset)."
)
ASSUMPTIONS = [
    "end-to-end shards: a real gunicorn/uvicorn server process tree started from the tree under test (vf/e2e_launch.py: the repository's run_with_gunicorn / run_with_uvicorn; the SQL schema is made with the repository's metadata.create_all because its alembic env.py does not run with the installed SQLAlchemy; the notifier's fixed TCP port 6000 is replaced by a free port), spoken to over loopback TCP with the websockets client; real time, real sleeps",
    "all workers live in one process/loop but talk over real loopback TCP sockets through the proxy; the notifier's 2 s connect delay is virtualised",
    "workers share one SQLite file like gunicorn workers do; LMDB is not used here (one environment cannot be opened twice in a process)",
    "after a peer was reset only the surviving workers are judged, and only for ids announced after the reset completed",
]
MIN_NONTRIVIAL = {"quick": 8, "thorough": 40}
REQUIRED_COUNTERS = ["e2e.e2e_pairs_checked", "e2e.e2e_cross_worker_pairs", "e2e.e2e_resubmission_pairs", "e2e.e2e_pairs_after_restart", "ids_announced", "deliveries_checked", "pushes_checked", "misaligned_chunks", "resubmissions", "deployment_configs", "crowded_workers"]
SHARD_TIMEOUT = {"quick": 600, "thorough": 3200}


def plan(tier, seed):
    return _plan(tier, seed) + e2e_plan(tier, seed)


def e2e_plan(tier, seed):
    """shards on a REAL server process tree (vf/e2e.py)"""
    out = []
    for i in range(1 if tier == "quick" else 6):
        out.append({"mode": "e2e", "e2e": "c20", "backend": "sql", "workers": 3 if i % 2 == 0 else 2, "seed": seed * 7919 + i, "nevents": 40 if tier == "quick" else 120, "restart": i % 2 == 0})
        out.append({"mode": "e2e", "e2e": "c20", "backend": "lmdb", "workers": 2 if i % 2 == 0 else 3, "seed": seed * 7919 + i, "nevents": 40 if tier == "quick" else 120})
    return out


def _plan(tier, seed):
    r = random.Random(seed)
    sizes = list(range(1, 64))
    if tier == "quick":
        sizes = r.sample(sizes, 10) + [31, 33]
    plans = [("fixed", k) for k in sizes] + [("aligned", 32), ("random", 0), ("coalesce", 0), ("dribble", 1)]
    out = []
    per = 4 if tier == "quick" else 6
    for i in range(0, len(plans), per):
        out.append({"plans": plans[i:i + per], "case_seed": seed * 7919 + i, "ids": 80 if tier == "quick" else 300})
    out.append({"plans": [("reset", 40), ("reset-mid-id", 50)], "case_seed": seed * 7919 + 999, "ids": 120})
    out.append({"plans": [("reset-mid-id-up", 60), ("reset-rst", 40)], "case_seed": seed * 7919 + 998, "ids": 120})
    out.append({"mode": "deployment", "case_seed": seed, "plans": []})
    return out


def free_port():
    s = socket.socket()
    s.bind(("127.0.0.1", 0))
    p = s.getsockname()[1]
    s.close()
    return p


class Link:
    """proxy between one NotifyClient and the NotifyServer, re-chunking both directions"""

    def __init__(self, listen_port, server_port, plan, r, counters):
        self.listen_port, self.server_port, self.plan, self.r = listen_port, server_port, plan, r
        self.counters = counters
        self.pending = 0
        self.bytes_down = 0
        self.misaligned = 0
        self.writers = []
        self.reset_at = None
        self.reset_at_up = None  # cut the worker->server direction after this many bytes (the worker dies mid-id)
        self.bytes_up = 0
        self.was_reset = False
        self.server = None

    async def start(self):
        self.server = await asyncio.start_server(self.handle, "127.0.0.1", self.listen_port)

    def sizes(self):
        kind, k = self.plan
        r = self.r
        while True:
            if kind in ("fixed", "dribble"):
                yield k
            elif kind == "aligned" or kind.startswith("reset"):
                yield 32
            elif kind == "random":
                yield r.randint(1, 100)
            elif kind == "coalesce":
                yield 32 * r.randint(2, 8)

    async def pump(self, reader, writer, down):
        sizes = self.sizes()
        buf = b""
        try:
            while True:
                data = await reader.read(4096)
                if not data:
                    break
                self.pending += len(data)
                buf += data
                # coalescing plans wait a little for more bytes
                if self.plan[0] == "coalesce":
                    await asyncio.sleep(0.002)
                    continue_reading = True
                    while continue_reading:
                        try:
                            more = await asyncio.wait_for(reader.read(4096), 0.001)
                            if more:
                                self.pending += len(more)
                                buf += more
                            else:
                                continue_reading = False
                        except asyncio.TimeoutError:
                            continue_reading = False
                while buf:
                    n = next(sizes)
                    if self.plan[0] == "coalesce" and len(buf) < n and len(buf) % 32 == 0:
                        n = len(buf)
                    chunk, buf = buf[:n], buf[n:]
                    limit, sofar = (self.reset_at, self.bytes_down) if down else (self.reset_at_up, self.bytes_up)
                    if limit is not None and sofar + len(chunk) >= limit and not self.was_reset:
                        cut = max(0, limit - sofar)
                        if cut:
                            writer.write(chunk[:cut])
                            await writer.drain()
                        self.was_reset = True
                        for w in self.writers:
                            try:
                                if self.plan[0].endswith("-rst"):
                                    # a killed process with unread data in its socket: the peer sees a RESET, not an end of stream
                                    import struct

                                    w.get_extra_info("socket").setsockopt(socket.SOL_SOCKET, socket.SO_LINGER, struct.pack("ii", 1, 0))
                                w.transport.abort()
                            except Exception:
                                pass
                        self.pending = 0
                        return
                    writer.write(chunk)
                    await writer.drain()
                    if down:
                        self.bytes_down += len(chunk)
                        if len(chunk) % 32:
                            self.misaligned += 1
                    else:
                        self.bytes_up += len(chunk)
                    self.pending -= len(chunk)
                    if self.plan[0] in ("fixed", "dribble", "random"):
                        await asyncio.sleep(0)
                        if self.r.random() < 0.05:
                            await asyncio.sleep(0.001)
        except (ConnectionError, asyncio.CancelledError, OSError):
            pass
        finally:
            try:
                writer.close()
            except Exception:
                pass

    async def handle(self, creader, cwriter):
        try:
            sreader, swriter = await asyncio.open_connection("127.0.0.1", self.server_port)
        except OSError:
            cwriter.close()
            return
        self.writers += [cwriter, swriter]
        await asyncio.gather(self.pump(creader, swriter, False), self.pump(sreader, cwriter, True))

    async def close(self):
        if self.server:
            self.server.close()
        for w in self.writers:
            try:
                w.close()
            except Exception:
                pass


async def run_case(nworkers, plan_, nids, counters, seed):
    r = random.Random(seed)
    rig = R.Rig(backend="sql", config={"analysis_delay": 0})
    rig.load_config()
    from nostr_relay import notifier

    if not isinstance(notifier.asyncio, R._AsyncioProxy):
        notifier.asyncio = R._AsyncioProxy(asyncio)
    await rig.start()
    viols, nontrivial = [], []
    links, storages, subs = [], [rig.storage], []
    server = None
    restore = []
    try:
        sport = free_port()
        server = notifier.NotifyServer(port=sport)
        server.start()
        await asyncio.sleep(0.05)
        for w in range(1, nworkers):
            storages.append(await rig.make_storage(create_schema=False))
        if seed % 2 == 0:
            # slow commits (a busy disk): the commit is already a suspension point of the accepting worker - it is
            # stretched by a few loop turns / milliseconds; what a worker announces must be there when the others look
            import aiosqlite

            rr = random.Random(seed + 5)
            orig_commit = aiosqlite.Connection.commit

            async def slow_commit(self_):
                d = rr.choice([0, 0, 0.002, 0.01])
                if d:
                    counters["slow_commits"] = counters.get("slow_commits", 0) + 1
                    await asyncio.sleep(d)
                return await orig_commit(self_)

            aiosqlite.Connection.commit = slow_commit
            restore.append(lambda: setattr(aiosqlite.Connection, "commit", orig_commit))
        reset_worker = None
        early_ids = set()
        logs = []
        for w, st in enumerate(storages):
            lp = free_port()
            kind = plan_ if (w % 2 == 1 or plan_[0].startswith("reset")) else ("aligned", 32)
            if plan_[0].startswith("reset"):
                kind = plan_ if w == 1 else ("aligned", 32)
            link = Link(lp, sport, kind, random.Random(seed * 10 + w), counters)
            if plan_[0].startswith("reset") and w == 1:
                if plan_[0] == "reset-mid-id-up":
                    link.reset_at_up = 32 * 4 + 13
                else:
                    link.reset_at = 32 * 20 + (13 if plan_[0] == "reset-mid-id" else 0)
                reset_worker = w
            await link.start()
            links.append(link)
            log = {"get_event": [], "notify_all": []}
            logs.append(log)
            orig_get = st.get_event
            orig_notify = st.notify_all_connected

            def make(orig_get, orig_notify, log):
                async def get_event(eid):
                    log["get_event"].append(eid)
                    return await orig_get(eid)

                async def notify_all(ev):
                    log["notify_all"].append(ev.id)
                    return await orig_notify(ev)

                return get_event, notify_all

            st.get_event, st.notify_all_connected = make(orig_get, orig_notify, log)
            st.notifier = notifier.NotifyClient(st, port=lp)
            # an event accepted before the notifier client is connected (the real client waits
            # 2 s before connecting): announcing it fails - no writer yet; that failure must stay
            # without consequences for later events
            early = ref.make_event(ref.key_from_seed("c20"), kind=1, created_at=gen.T0 - 100 - w, content="early-%d-%d" % (seed, w))
            early_ids.add(early["id"])
            try:
                await st.add_event(early)
                for _ in range(5):
                    await asyncio.sleep(0)
                counters["early_events"] = counters.get("early_events", 0) + 1
            except Exception as e:
                viols.append({"key": "early-event-raised", "msg": "add_event raised %r for an event accepted before the notifier connected" % (e,),
                              "replay": {"workers": nworkers, "plan": list(plan_), "ids": nids, "seed": seed}})
            st.notifier.start()
            c = rig.connect("sub%d" % w, storage=st)
            await c.cmd(["REQ", "s", {"kinds": [1, 20001, 29999, 10002, 30023], "since": gen.T0 + 1}])
            subs.append(c)
        await asyncio.sleep(0.1)
        await rig.quiesce()
        for st in storages:
            if st.notifier.writer is None:
                raise R.Inconclusive("a NotifyClient did not connect")
        key = ref.key_from_seed("c20")
        churn_task = None
        if seed % 3 == 0 and not plan_[0].startswith("reset"):
            # a busy receiving worker: hundreds of open subscriptions on worker 0 and visitors that come and go
            # (subscribe, close, disconnect) while ids arrive from the other workers
            crowd = [rig.connect("crowd%d" % i, storage=storages[0]) for i in range(10)]
            for c in crowd:
                for j in range(30):
                    c.feed(["REQ", "s%d" % j, {"kinds": [1, 30023], "since": gen.T0 + 10 ** 8}])
            for c in crowd:
                await c.processed(timeout=120)
            counters["crowded_workers"] = counters.get("crowded_workers", 0) + 1

            async def churn():
                i = 0
                try:
                    while True:
                        i += 1
                        v = rig.connect("visitor%d" % i, storage=storages[0])
                        v.feed(["REQ", "v", {"kinds": [7]}])
                        await asyncio.sleep(0)
                        v.feed(["CLOSE", "v"])
                        await asyncio.sleep(0)
                        v.disconnect()
                        counters["visitors"] = counters.get("visitors", 0) + 1
                        await asyncio.sleep(0.004)
                        if i >= 250:
                            break
                except asyncio.CancelledError:
                    pass

            churn_task = asyncio.get_running_loop().create_task(churn(), name="harness-churn")
        pubs = [rig.connect("pub%d" % w, storage=st) for w, st in enumerate(storages)]
        produced = []  # (id, origin, after_reset)
        sent_events = {}
        burst = r.random() < 0.5
        for i in range(nids):
            origin = r.randrange(nworkers)
            if reset_worker is not None and origin == reset_worker and links[reset_worker].was_reset:
                origin = 0
            kind = r.choice([1, 1, 1, 1, 20001, 29999, 30023, 30023])  # regular, ephemeral (the SQL store keeps them until collected), parameterized with a fresh d each (nothing is superseded before the receivers look it up)
            ev = ref.make_event(key, kind=kind, created_at=gen.T0 + 10 + i, tags=[["d", "n%d" % i]] if kind == 30023 else [], content="n%d-%d" % (seed, i))
            counters.setdefault("kinds_announced", {})
            counters["kinds_announced"][str(kind)] = counters["kinds_announced"].get(str(kind), 0) + 1
            after = reset_worker is not None and links[reset_worker].was_reset
            n0 = rig.rec.n
            await pubs[origin].cmd(["EVENT", ev])
            oks = R.ok_frames(pubs[origin], n0)
            if not oks or oks[-1][1][2] is not True:
                viols.append({"key": "announcing-worker-refused-event", "msg": "worker %d answered %s to a valid EVENT (after earlier notifier trouble?)" % (origin, oks[-1][1][2:] if oks else None),
                              "replay": {"workers": nworkers, "plan": list(plan_), "ids": nids, "seed": seed}})
            produced.append((ev["id"], origin, after, kind))
            sent_events[ev["id"]] = ev
            if not burst or i % 17 == 0:
                await asyncio.sleep(0.001)
        if churn_task is not None:
            churn_task.cancel()
            try:
                await churn_task
            except BaseException:
                pass
        # resubmissions: a stored event sent again (to the same or to another worker) is a duplicate
        # everywhere - nobody is told about it a second time
        for eid_, origin_, after_, kind_ in r.sample(produced, min(len(produced), max(4, len(produced) // 10))):
            if kind_ != 1 or (reset_worker is not None):
                continue
            ev_ = sent_events[eid_]
            target = r.randrange(nworkers)
            await pubs[target].cmd(["EVENT", ev_])
            counters["resubmissions"] = counters.get("resubmissions", 0) + 1
        # drain
        drained = False
        last_seen, stable_since = -1, None
        loop_ = asyncio.get_running_loop()
        for _ in range(3000):
            await asyncio.sleep(0.01)
            if all(l.pending == 0 for l in links):
                try:
                    await rig.quiesce(timeout=5, settle=5)
                except R.Inconclusive:
                    continue
                # the notify clients read from their own socket buffers: they are done when the number of ids they
                # have looked up has not moved for two seconds of an otherwise idle relay
                seen_now = sum(len(lg["get_event"]) + len(lg["notify_all"]) for lg in logs)
                if seen_now != last_seen:
                    last_seen, stable_since = seen_now, loop_.time()
                elif loop_.time() - stable_since >= 2.0 and all(l.pending == 0 for l in links):
                    drained = True
                    break
        if not drained:
            # judging a system that is still working would turn lateness into loss
            raise R.Inconclusive("links / relay tasks did not drain (pending %s, busy %s)" % ([l.pending for l in links], rig.busy_tasks()[:3]))
        await asyncio.sleep(0.05)
        for w_, st_ in enumerate(storages):
            t_ = getattr(st_.notifier, "_task", None)
            if t_ is not None and t_.done() and w_ != reset_worker:
                counters["notify_clients_ended"] = counters.get("notify_clients_ended", 0) + 1
                try:
                    counters["notify_client_end_reason"] = repr(t_.exception())[:200]
                except BaseException as e_:
                    counters["notify_client_end_reason"] = repr(e_)[:200]
        counters["ids_announced"] = counters.get("ids_announced", 0) + len(produced)
        counters["misaligned_chunks"] = counters.get("misaligned_chunks", 0) + sum(l.misaligned for l in links)
        if any(l.misaligned for l in links) or reset_worker is not None:
            nontrivial.append(h([nworkers, plan_, seed]))
        rp = {"workers": nworkers, "plan": list(plan_), "ids": nids, "seed": seed}
        pid = {p[0] for p in produced}
        for w in range(nworkers):
            if w == reset_worker:
                continue
            got = logs[w]["get_event"]
            counts = {}
            for g in got:
                counts[g] = counts.get(g, 0) + 1
            garbage = [g for g in got if g not in pid and g not in early_ids]
            if garbage:
                viols.append({"key": "corrupted-id/%s" % plan_[0], "msg": "worker %d (plan %s) looked up %d ids that were never announced, e.g. %r (len %d)"
                              % (w, links[w].plan, len(garbage), garbage[0][:70], len(garbage[0])), "replay": rp})
            pushes = {}
            for n, f in subs[w].parsed_frames():
                if isinstance(f, list) and len(f) > 2 and f[0] == "EVENT" and f[1] == "s":
                    pushes[f[2]["id"]] = pushes.get(f[2]["id"], 0) + 1
            for eid, origin, after, kind in produced:
                if reset_worker is not None and not after:
                    continue  # ids in flight around the reset are not judged
                counters["deliveries_checked"] = counters.get("deliveries_checked", 0) + 1
                c = counts.get(eid, 0)
                if origin == w:
                    if c:
                        viols.append({"key": "echoed-to-origin", "msg": "worker %d got its own announcement of %s back %d time(s)" % (w, eid[:10], c), "replay": rp})
                elif c != 1:
                    viols.append({"key": "%s/%s%s" % ("lost-id" if c == 0 else "duplicated-id", "after-peer-reset" if reset_worker is not None else plan_[0], kclass(kind)),
                                  "msg": "worker %d (plan %s) got the id %s announced by worker %d %d times" % (w, links[w].plan, eid[:10], origin, c), "replay": rp})
                counters["pushes_checked"] = counters.get("pushes_checked", 0) + 1
                p = pushes.get(eid, 0)
                if p != 1:
                    viols.append({"key": "subscriber-push/%s/%s%s" % ("missed" if p == 0 else "duplicate", "after-peer-reset" if reset_worker is not None else plan_[0], kclass(kind)),
                                  "msg": "subscriber on worker %d got event %s (origin %d) %d times" % (w, eid[:10], origin, p), "replay": rp})
    finally:
        for fn in restore:
            fn()
        for l in links:
            await l.close()
        for st in storages[1:]:
            try:
                if st.notifier and st.notifier._task:
                    st.notifier._task.cancel()
                await st.close()
            except Exception:
                pass
        if rig.storage.notifier and rig.storage.notifier._task:
            rig.storage.notifier._task.cancel()
        if server and server._task:
            server._task.cancel()
        await rig.close()
    return viols, nontrivial


async def run_deployment(counters):
    """which configurations start the cross-worker notifier at all: more than one gunicorn worker, or
    run_notifier, must - whatever other server sections the configuration file also carries"""
    viols, nontrivial = [], []
    for gw in (None, 1, 2, 4):
        for purple in (None, {}, {"workers": 1}, {"workers": 3}, {"host": "127.0.0.1"}):
            for rn in (None, False, True):
                cfg = {"analysis_delay": 0}
                if gw is not None:
                    cfg["gunicorn"] = {"workers": gw}
                if purple is not None:
                    cfg["purple"] = purple
                if rn is not None:
                    cfg["run_notifier"] = rn
                rig = R.Rig(backend="sql", config=cfg)
                rig.load_config()
                from nostr_relay import notifier

                if not isinstance(notifier.asyncio, R._AsyncioProxy):
                    notifier.asyncio = R._AsyncioProxy(asyncio)
                await rig.start()
                try:
                    must = bool((gw or 1) > 1 or rn)
                    has = rig.storage.notifier is not None
                    counters["deployment_configs"] = counters.get("deployment_configs", 0) + 1
                    if must:
                        nontrivial.append(h(["deployment", gw, purple, rn]))
                    if must and not has:
                        viols.append({"key": "notifier-not-started/%s" % ("purple-section-present" if purple is not None else "plain"),
                                      "msg": "configuration gunicorn.workers=%r purple=%r run_notifier=%r: the storage started no notifier client, so nothing an accepting worker stores reaches the others"
                                             % (gw, purple, rn), "replay": {"mode": "deployment"}})
                finally:
                    if rig.storage.notifier is not None and getattr(rig.storage.notifier, "_task", None):
                        rig.storage.notifier._task.cancel()
                    await rig.close()
    return viols, nontrivial


def kclass(kind):
    return "" if kind == 1 else ("/ephemeral-kind" if 20000 <= kind < 30000 else "/replaceable-kind")


def run_shard(spec):
    if spec.get("mode") == "e2e":
        from .. import e2e_cases

        return e2e_cases.run_e2e_shard(ID, spec)
    counters = {}
    viols, nontrivial, samples = [], [], []
    r = random.Random(spec["case_seed"])
    if spec.get("mode") == "deployment":
        viols, nontrivial = R.run(run_deployment, counters)
        return {"evaluations": counters.get("deployment_configs", 0), "nontrivial": sorted(set(nontrivial)), "counters": counters, "coverage": {"plans": {"deployment-matrix": 1}},
                "violations": viols[:3], "samples": [], "inconclusive": []}
    for i, pl in enumerate(spec["plans"]):
        nworkers = r.randint(2, 5) if not pl[0].startswith("reset") else 3
        try:
            v, nt = R.run(run_case, nworkers, tuple(pl), spec["ids"], counters, spec["case_seed"] + i)
        except R.Inconclusive as e:
            return {"evaluations": 0, "nontrivial": [], "counters": counters, "violations": [], "samples": [], "inconclusive": [str(e)]}
        viols.extend(v)
        nontrivial.extend(nt)
        samples.append({"workers": nworkers, "plan": pl, "ids": spec["ids"]})
    seen, out = {}, []
    for v in viols:
        seen[v["key"]] = seen.get(v["key"], 0) + 1
        if seen[v["key"]] <= 1:
            out.append(v)
    counters["violations_by_key"] = seen
    return {"evaluations": counters.get("deliveries_checked", 0), "nontrivial": sorted(set(nontrivial)), "counters": counters,
            "coverage": {"plans": {"%s-%s" % tuple(p): 1 for p in spec["plans"]}}, "violations": out, "samples": samples[:2], "inconclusive": []}


def replay(rp, spec):
    if rp.get("mode") == "e2e":
        from .. import e2e_cases

        return e2e_cases.run_e2e_shard(ID, rp)
    counters = {}
    if rp.get("mode") == "deployment":
        v, nt = R.run(run_deployment, counters)
        return {"evaluations": 1, "nontrivial": nt, "counters": counters, "violations": v, "samples": [], "inconclusive": []}
    v, nt = R.run(run_case, rp["workers"], tuple(rp["plan"]), rp["ids"], counters, rp["seed"])
    return {"evaluations": 1, "nontrivial": nt, "counters": counters, "violations": v, "samples": [], "inconclusive": []}
