"""
Child process of the crash enumeration (C07): replays a history prefix on a persistent
store, arms a failpoint (kill or error) at mutation ordinal k of the next event, submits
it (and, for the error action, the rest of the history), then exits normally.
usage: python -m vf.crashchild <spec.json>
spec: {backend, scratch, prefix: [events], event: ev, rest: [events], ordinal, action, record}
Prints one JSON line with what happened when it survives.
"""
import asyncio
import json
import os
import sys


def main():
    with open(sys.argv[1]) as fp:
        spec = json.load(fp)
    from vf import rig as R, faults, env

    async def run():
        rig = R.Rig(backend=spec["backend"], scratch_dir=spec["scratch"], config={"analysis_delay": 0})
        rig.load_config()
        if spec["backend"] == "lmdb":
            plan = faults.install_lmdb()
        await rig.start()
        if spec["backend"] == "sql":
            plan = faults.install_sql(rig.storage)
        plan.reset()
        conn = rig.connect("c")
        out = {"oks": [], "fired": 0, "blocked": False, "fired_list": []}
        for ev in spec["prefix"]:
            await conn.cmd(["EVENT", ev])
        await rig.quiesce()
        if spec.get("multi"):
            # several faults in ONE process: [(index into rest, ordinal)], rest = remaining history
            faults_at = {i: k for i, k in spec["multi"]}
            try:
                for i, ev in enumerate(spec.get("rest", [])):
                    if conn.exited:
                        conn = rig.connect()
                    if i in faults_at:
                        plan.arm(faults_at[i], "error")
                    await conn.cmd(["EVENT", ev], timeout=20)
                    await rig.quiesce(timeout=20)
                    if i in faults_at:
                        out["fired_list"].append([i, plan.fired])
                        plan.disarm()
            except R.Inconclusive as e:
                out["blocked"] = "multi: %s" % e
            out["fired"] = sum(f for _, f in out["fired_list"])
        else:
            if spec.get("record"):
                plan.record_only()
            else:
                plan.arm(spec["ordinal"], spec["action"])
            n0 = rig.rec.n
            events = spec.get("events") or [spec["event"]]
            try:
                # a window of events is fed back-to-back (no waiting for the writer in between)
                for ev in events:
                    conn.feed(["EVENT", ev])
                await conn.processed(timeout=20)
                await rig.quiesce(timeout=20)
            except R.Inconclusive as e:
                out["blocked"] = "event: %s" % e
            out["fired"] = plan.fired
            out["trace"] = list(plan.trace)
            plan.disarm()
            oks = R.ok_frames(conn, n0)
            out["oks"] = [f[2:4] for _, f in oks]
            if not out["blocked"]:
                try:
                    for ev in spec.get("rest", []):
                        if conn.exited:
                            conn = rig.connect()
                        await conn.cmd(["EVENT", ev], timeout=20)
                    await rig.quiesce(timeout=20)
                except R.Inconclusive as e:
                    out["blocked"] = "rest: %s" % e
        out["logs"] = [l for l in env.LOGTAP.take() if l.get("exc")][:3]
        await rig.close()
        return out

    out = R.run(run)
    sys.stdout.write(json.dumps(out, default=repr) + "\n")
    sys.stdout.flush()
    os._exit(0)


if __name__ == "__main__":
    main()
