"""
Store dumpers: canonical, comparable snapshots of what a backend holds, taken through
harness-owned connections (never through the relay's query code).
"""
import json
import os
import sqlite3


def sql_path(rig_or_path):
    if isinstance(rig_or_path, str):
        return rig_or_path
    return os.path.join(rig_or_path.scratch, "nostr.sqlite3")


def dump_sql(path):
    """{'events': {id_hex: event dict}, 'tags': sorted [(id_hex,name,value)], 'raw': ...}"""
    con = sqlite3.connect("file:%s?mode=ro" % path, uri=True, timeout=30)
    try:
        con.execute("SELECT count(*) FROM sqlite_master").fetchone()
    except sqlite3.OperationalError as e:
        # a WAL database whose last writer was killed needs recovery on the next open, and a read-only connection
        # may not do that ("attempt to write a readonly database"): any ordinary reader would - so does this one
        con.close()
        if "readonly" not in str(e):
            raise
        con = sqlite3.connect(path, timeout=30)
    try:
        events = {}
        for row in con.execute(
            "SELECT id, created_at, kind, pubkey, tags, sig, content, typeof(created_at), typeof(kind), typeof(content) FROM events"
        ):
            rid = row[0].hex() if isinstance(row[0], (bytes, memoryview)) else repr(row[0])
            tags = row[4]
            try:
                tags = json.loads(tags) if isinstance(tags, (str, bytes)) else tags
            except Exception:
                tags = {"__unparsable__": repr(tags)}
            events[rid] = {
                "id": rid,
                "created_at": row[1],
                "kind": row[2],
                "pubkey": row[3].hex() if isinstance(row[3], (bytes, memoryview)) else repr(row[3]),
                "tags": tags,
                "sig": row[5].hex() if isinstance(row[5], (bytes, memoryview)) else repr(row[5]),
                "content": row[6],
                "_types": [row[7], row[8], row[9]],
            }
        tags = []
        for rid, name, value in con.execute("SELECT id, name, value FROM tags"):
            tags.append((rid.hex() if isinstance(rid, (bytes, memoryview)) else repr(rid), name, value))
        tags.sort(key=repr)
        auth = sorted(con.execute("SELECT pubkey, roles FROM auth").fetchall())
        ident = sorted(con.execute("SELECT identifier, pubkey FROM identity").fetchall(), key=repr)
    finally:
        con.close()
    return {"events": events, "tags": tags, "auth": auth, "identity": ident}


def sql_canonical(d):
    """hashable/comparable rendering of a SQL dump (events + tags only)"""
    evs = sorted(
        (k, json.dumps({x: y for x, y in v.items()}, sort_keys=True, ensure_ascii=True)) for k, v in d["events"].items()
    )
    return json.dumps([evs, [list(t) for t in d["tags"]]], sort_keys=True)


def dump_lmdb(env_or_path, close=None):
    """
    {'keys': {key bytes: value bytes}, 'events': {id_hex: decoded dict}} taken in one read
    snapshot (MVCC: only committed states are ever visible).
    """
    import lmdb
    import msgpack

    opened = False
    if isinstance(env_or_path, str):
        env = lmdb.open(env_or_path, readonly=True, lock=True, create=False, map_size=64 * 1024 * 1024)
        opened = True
    else:
        env = env_or_path
    keys = {}
    try:
        with env.begin() as txn:
            cur = txn.cursor()
            for k, v in cur.iternext():
                keys[bytes(k)] = bytes(v)
            cur.close()
    finally:
        if opened:
            env.close()
    events = {}
    bad = []
    for k, v in keys.items():
        if k[:1] == b"\x00":
            try:
                row = msgpack.unpackb(v, use_list=True)
                events[k[1:].hex()] = {
                    "id": row[1].hex(),
                    "created_at": row[2],
                    "kind": row[3],
                    "pubkey": row[4].hex(),
                    "content": row[5],
                    "tags": row[6],
                    "sig": row[7].hex(),
                }
            except Exception as e:
                bad.append((k.hex(), repr(e)))
    return {"keys": keys, "events": events, "bad": bad}


def lmdb_canonical(d):
    return json.dumps(sorted((k.hex(), v.hex()) for k, v in d["keys"].items()))


def strip(ev):
    return {k: v for k, v in ev.items() if not k.startswith("_")}


def dump(rig):
    if rig.backend == "sql":
        return dump_sql(sql_path(rig))
    return dump_lmdb(rig.storage.db)


def canonical(rig, d):
    return sql_canonical(d) if rig.backend == "sql" else lmdb_canonical(d)


def stored_events(d):
    """id -> plain event dict (7 fields)"""
    return {k: strip(v) for k, v in d["events"].items()}


# ---- expected LMDB key set re-derived from primary records (C10) ---------------------------


def expected_lmdb_keys(events):
    """
    Re-derive, from decoded primary records, every secondary key the documented layout
    requires.  Own rendering of the layout (not kv.py's convert()).
    Returns (set of keys, list of problems for records that cannot be rendered).
    """
    out = set()
    problems = []
    for idhex, ev in events.items():
        try:
            eid = bytes.fromhex(ev["id"])
            ts = int(ev["created_at"]).to_bytes(4, "big")
            suffix = b"\x00" + ts + b"\x00" + eid
            pk = bytes.fromhex(ev["pubkey"])
            kind = int(ev["kind"]).to_bytes(4, "big")
            out.add(b"\x00" + eid)
            out.add(b"\x01" + ts + suffix)
            out.add(b"\x02" + kind + suffix)
            out.add(b"\x03" + pk + suffix)
            out.add(b"\x04" + pk + b"\x00" + kind + suffix)
            for t in ev["tags"]:
                if isinstance(t, (list, tuple)) and len(t) >= 2 and isinstance(t[0], str):
                    if len(t[0]) == 1 or t[0] in ("expiration", "delegation"):
                        tv = tag_text(t[1]).encode("utf-8", "surrogatepass")
                        if len(tv) > 256:
                            # values too long for a key are indexed by their digest (documented in the layout)
                            import hashlib

                            tv = b"\x00sha256\x00" + hashlib.sha256(tv).digest()
                        out.add(b"\x09" + t[0].encode("utf-8", "surrogatepass") + b"\x00" + tv + suffix)
        except Exception as e:
            problems.append((idhex, repr(e)))
    return out, problems


def tag_text(v):
    """text under which a tag value is indexed: the string itself; non-strings as str()"""
    if isinstance(v, str):
        return v
    if isinstance(v, list):
        # after the msgpack round trip lists come back as tuples in kv.py (use_list=False);
        # the index entry was written from the *list* form
        return str(v)
    return str(v)
