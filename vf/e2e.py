"""
End-to-end rig: a REAL relay server (gunicorn master + forked uvicorn workers, or one uvicorn
process) started from the tree under test, spoken to over real loopback TCP with the
`websockets` client and plain HTTP.  Complements vf/rig.py (virtual connections inside one
process): what only exists with real processes - preloaded state inherited through fork(),
the multiprocessing.Event that elects the main worker, the notifier between OS processes,
uvicorn's websocket framing, orderly shutdown on SIGTERM, a SIGKILL from outside at an
arbitrary instant - is reachable only here.

Observation points: every frame a client receives (boundary log per connection, one global
sequence counter), HTTP responses, the process table (/proc: workers alive, their pids, the
established connections each one holds), the server's own log file.
"""
import asyncio
import json
import os
import re
import signal
import socket
import subprocess
import sys
import time
import urllib.request
import urllib.error

from . import env

PY = os.environ.get("VERIF_PYTHON", "/venv/bin/python")


def free_port():
    s = socket.socket()
    s.bind(("127.0.0.1", 0))
    p = s.getsockname()[1]
    s.close()
    return p


def children_of(pid):
    out = []
    for d in os.listdir("/proc"):
        if not d.isdigit():
            continue
        try:
            with open("/proc/%s/stat" % d) as fp:
                st = fp.read()
            ppid = int(st.rsplit(")", 1)[1].split()[1])
        except (OSError, ValueError, IndexError):
            continue
        if ppid == pid:
            out.append(int(d))
    return sorted(out)


def established_by_pid(port, pids):
    """{pid: number of ESTABLISHED tcp connections whose local port is `port`}"""
    inodes = set()
    try:
        with open("/proc/net/tcp") as fp:
            next(fp)
            for line in fp:
                f = line.split()
                lport = int(f[1].rsplit(":", 1)[1], 16)
                if lport == port and f[3] == "01":
                    inodes.add(f[9])
    except OSError:
        return {}
    res = {}
    for pid in pids:
        n = 0
        try:
            for fd in os.listdir("/proc/%d/fd" % pid):
                try:
                    t = os.readlink("/proc/%d/fd/%s" % (pid, fd))
                except OSError:
                    continue
                m = re.match(r"socket:\[(\d+)\]", t)
                if m and m.group(1) in inodes:
                    n += 1
        except OSError:
            pass
        res[pid] = n
    return res


def listener_pid(port, pids):
    """which of `pids` holds the LISTENING tcp socket on `port` (e.g. the worker that runs the notify server)"""
    inodes = set()
    try:
        with open("/proc/net/tcp") as fp:
            next(fp)
            for line in fp:
                f = line.split()
                if int(f[1].rsplit(":", 1)[1], 16) == port and f[3] == "0A":
                    inodes.add(f[9])
    except OSError:
        return None
    for pid in pids:
        try:
            for fd in os.listdir("/proc/%d/fd" % pid):
                try:
                    t = os.readlink("/proc/%d/fd/%s" % (pid, fd))
                except OSError:
                    continue
                m = re.match(r"socket:\[(\d+)\]", t)
                if m and m.group(1) in inodes:
                    return pid
        except OSError:
            pass
    return None


class E2EError(RuntimeError):
    """the rig itself could not do its part (server did not start, ...): inconclusive, never a verdict"""


class Server:
    def __init__(self, backend="sql", workers=1, overrides=None, mode="gunicorn", storage_opts=None,
                 scratch=None):
        self.backend = backend
        self.workers = workers
        self.mode = mode
        self.dir = scratch or env.scratch("vf-e2e-")
        self.port = free_port()
        self.nport = free_port()
        self.proc = None
        self.logpath = os.path.join(self.dir, "server.log")
        self.generation = 0
        cfg = json.loads(json.dumps(env.BASE_CONFIG))
        cfg["gunicorn"] = {"bind": "127.0.0.1:%d" % self.port, "workers": workers, "loglevel": "warning",
                           "graceful_timeout": 5, "timeout": 120}
        if mode == "uvicorn":
            # run_with_uvicorn hands every key of this section to uvicorn.Config
            cfg["gunicorn"] = {"bind": "127.0.0.1:%d" % self.port, "loglevel": "warning"}
        cfg["logging"] = {
            "version": 1,
            "disable_existing_loggers": False,
            "formatters": {"s": {"format": "%(process)d %(name)s %(levelname)s %(message)s"}},
            "handlers": {"c": {"class": "logging.StreamHandler", "formatter": "s", "stream": "ext://sys.stderr"}},
            "root": {"level": "WARNING", "handlers": ["c"]},
        }
        if backend == "sql":
            st = {"sqlalchemy.url": "sqlite+aiosqlite:///%s" % os.path.join(self.dir, "nostr.sqlite3")}
        else:
            st = {"class": "nostr_relay.storage.kv.LMDBStorage", "path": os.path.join(self.dir, "lmdb"),
                  "map_size": 1 << 28, "pool_size": 4}
        st["validators"] = ["nostr_relay.validators.is_signed"]
        st.update(storage_opts or {})
        cfg["storage"] = st
        cfg["authentication"] = {"enabled": False}
        for k, v in (overrides or {}).items():
            cfg[k] = v
        self.cfg = cfg
        import yaml

        self.conf = os.path.join(self.dir, "config.yaml")
        with open(self.conf, "w") as fp:
            yaml.safe_dump(cfg, fp)

    @property
    def url(self):
        return "ws://127.0.0.1:%d/" % self.port

    def _env(self):
        e = dict(os.environ)
        e["PYTHONPATH"] = env.VERIF + os.pathsep + env.REPO + os.pathsep + e.get("PYTHONPATH", "")
        e["VERIF_REPO"] = env.REPO
        e["PYTHONDONTWRITEBYTECODE"] = "1"
        e["PYTHONWARNINGS"] = "ignore"
        return e

    def set_roles(self, roles):
        """{pubkey: roles} stored through the repository's own storage API, in a process of its own"""
        p = subprocess.run([PY, "-m", "vf.e2e_launch", self.conf, "roles", json.dumps(roles)], cwd=self.dir,
                           env=self._env(), stdout=subprocess.PIPE, stderr=subprocess.STDOUT, timeout=120)
        if p.returncode != 0:
            raise E2EError("set_roles failed: %s" % p.stdout.decode("utf-8", "replace")[-800:])

    def seed(self, events):
        """events stored through the repository's own storage API, in a process of its own"""
        path = os.path.join(self.dir, "seed.json")
        with open(path, "w") as fp:
            json.dump(events, fp)
        p = subprocess.run([PY, "-m", "vf.e2e_launch", self.conf, "seed", path], cwd=self.dir,
                           env=self._env(), stdout=subprocess.PIPE, stderr=subprocess.STDOUT, timeout=120)
        if p.returncode != 0:
            raise E2EError("seed failed: %s" % p.stdout.decode("utf-8", "replace")[-800:])

    def start(self, wait=40.0):
        e = self._env()
        self.generation += 1
        self.log_fp = open(self.logpath, "ab")
        self.log_fp.write(("=== generation %d\n" % self.generation).encode())
        self.log_fp.flush()
        self.proc = subprocess.Popen(
            [PY, "-m", "vf.e2e_launch", self.conf, self.mode, str(self.nport)],
            cwd=self.dir, env=e, stdout=self.log_fp, stderr=subprocess.STDOUT, start_new_session=True,
        )
        t0 = time.time()
        while time.time() - t0 < wait:
            if self.proc.poll() is not None:
                raise E2EError("server exited rc=%s: %s" % (self.proc.returncode, self.log_tail()))
            try:
                s = socket.create_connection(("127.0.0.1", self.port), timeout=0.5)
                s.close()
                # all workers forked?
                if self.mode != "gunicorn" or len(self.worker_pids()) >= self.workers:
                    return self
            except OSError:
                pass
            time.sleep(0.1)
        raise E2EError("server did not come up: %s" % self.log_tail())

    def worker_pids(self):
        if self.proc is None:
            return []
        if self.mode != "gunicorn":
            return [self.proc.pid]
        return children_of(self.proc.pid)

    def conns_per_worker(self):
        return established_by_pid(self.port, self.worker_pids())

    def alive(self):
        return self.proc is not None and self.proc.poll() is None

    def log_text(self):
        try:
            with open(self.logpath, "rb") as fp:
                return fp.read().decode("utf-8", "replace")
        except OSError:
            return ""

    def log_tail(self, n=1500):
        return self.log_text()[-n:]

    def stop(self, wait=20.0):
        """orderly: SIGTERM to the master (gunicorn stops its workers gracefully)"""
        if self.proc is None:
            return None
        if self.proc.poll() is None:
            try:
                os.kill(self.proc.pid, signal.SIGTERM)
            except OSError:
                pass
            try:
                self.proc.wait(timeout=wait)
            except subprocess.TimeoutExpired:
                self.kill()
        rc = self.proc.returncode
        self._reap()
        return rc

    def kill(self):
        """SIGKILL to the whole process group (master and every worker) at once"""
        if self.proc is None:
            return
        try:
            os.killpg(self.proc.pid, signal.SIGKILL)
        except OSError:
            pass
        try:
            self.proc.wait(timeout=10)
        except subprocess.TimeoutExpired:
            pass
        self._reap()

    def _reap(self):
        try:
            os.killpg(self.proc.pid, signal.SIGKILL)
        except OSError:
            pass
        try:
            self.log_fp.close()
        except Exception:
            pass
        self.proc = None

    # --- plain HTTP -----------------------------------------------------------------------
    def http_get(self, path, headers=None, timeout=10.0):
        req = urllib.request.Request("http://127.0.0.1:%d%s" % (self.port, path), headers=headers or {})
        try:
            with urllib.request.urlopen(req, timeout=timeout) as r:
                return r.status, dict(r.headers), r.read()
        except urllib.error.HTTPError as e:
            return e.code, dict(e.headers), e.read()


class Seq:
    n = 0

    @classmethod
    def next(cls):
        cls.n += 1
        return cls.n


class Client:
    """one real websocket connection; every received frame is logged with a global sequence number"""

    def __init__(self, server, name, origin=None, max_size=None, compression="deflate"):
        self.server = server
        self.name = name
        self.frames = []  # (seq, text-or-bytes)
        self.ws = None
        self.closed = None
        self._reader = None
        self.origin = origin
        self.max_size = max_size
        self.compression = compression
        self.wake = asyncio.Event()

    async def connect(self, timeout=15.0):
        from websockets.asyncio.client import connect

        kw = {}
        if self.origin is not None:
            kw["origin"] = self.origin
        self.ws = await asyncio.wait_for(
            connect(self.server.url, max_size=self.max_size, compression=self.compression, open_timeout=timeout,
                    ping_interval=None, close_timeout=2, **kw), timeout + 1)
        self._reader = asyncio.create_task(self._read())
        return self

    async def _read(self):
        import websockets

        try:
            async for msg in self.ws:
                self.frames.append((Seq.next(), msg))
                self.wake.set()
        except websockets.exceptions.ConnectionClosed:
            pass
        except Exception as e:  # transport errors: the connection is over
            self.closed = ("error", repr(e))
        finally:
            if self.closed is None:
                self.closed = (getattr(self.ws, "close_code", None), getattr(self.ws, "close_reason", None))
            self.wake.set()

    async def send(self, obj):
        text = obj if isinstance(obj, (str, bytes)) else json.dumps(obj, ensure_ascii=False, separators=(",", ":"))
        await self.ws.send(text)
        return Seq.next()

    def texts(self, since=0):
        return [t for n, t in self.frames if n > since]

    def parsed(self, since=0):
        out = []
        for n, t in self.frames:
            if n > since:
                try:
                    out.append((n, json.loads(t)))
                except Exception:
                    out.append((n, None))
        return out

    async def wait_for(self, pred, timeout=20.0, since=0):
        """wait until pred(list of parsed frames after `since`) is truthy; returns it or None"""
        t0 = time.time()
        while True:
            r = pred([m for _, m in self.parsed(since)])
            if r:
                return r
            if self.closed is not None:
                return None
            left = timeout - (time.time() - t0)
            if left <= 0:
                return None
            self.wake.clear()
            try:
                await asyncio.wait_for(self.wake.wait(), min(left, 0.5))
            except asyncio.TimeoutError:
                pass

    async def close(self):
        try:
            await asyncio.wait_for(self.ws.close(), 5)
        except Exception:
            pass
        if self._reader:
            try:
                await asyncio.wait_for(self._reader, 5)
            except Exception:
                self._reader.cancel()

    def abort(self):
        """drop the TCP connection without a closing handshake"""
        try:
            self.ws.transport.abort()
        except Exception:
            pass


async def settle(clients, quiet=0.6, timeout=30.0):
    """wait until no client has received a frame for `quiet` seconds"""
    t0 = time.time()
    last = Seq.n
    t_last = time.time()
    while time.time() - t0 < timeout:
        await asyncio.sleep(0.1)
        if Seq.n != last:
            last = Seq.n
            t_last = time.time()
        elif time.time() - t_last >= quiet:
            return True
    return False


def log_notes(text):
    """counted in the evidence, not a verdict: exceptions that ended a background task of the relay without
    reaching a client (the properties speak of the connection handler, of answers and of other connections)"""
    out = {}
    for p in (r"Task exception was never retrieved", r"Task was destroyed but it is pending", r"Traceback \(most recent call last\)"):
        n = len(re.findall(p, text))
        if n:
            out[p[:36]] = n
    return out


def log_problems(text):
    """lines of the server log that show an exception ESCAPING a handler or a dying worker.
    (`log.exception("client loop")` of the relay is the handler doing its job and is not listed.)"""
    pats = [
        r"Exception in ASGI application",
        r"WORKER TIMEOUT",
        r"Worker \(pid:\d+\) (exited|was sent)",
        r"Worker exiting",
        r"Fatal Python error",
        r"Segmentation fault",
        r"unhandled exception during asyncio.run",
    ]
    out = []
    for line in text.splitlines():
        for p in pats:
            if re.search(p, line):
                out.append(line[:300])
                break
    return out
