"""
End-to-end cases on a REAL server process tree (vf/e2e.py).  Each `*_case` coroutine returns
(violations, nontrivial, inconclusive) and adds to `counters`; the checks C04 C06 C07 C13 C15
C19 C20 schedule them as shards of mode "e2e".

What these cases reach that the in-process rig cannot: worker processes forked from a
preloaded application (state inherited through fork, the multiprocessing.Event that elects
the main worker), the notifier between OS processes on both backends (LMDB can be opened
once per process only), uvicorn's websocket framing (binary / fragmented / oversized
messages, aborted TCP connections), real HTTP, orderly shutdown on SIGTERM and a SIGKILL of
the whole process group from outside at an arbitrary instant.
"""
import asyncio
import json
import os
import random
import re
import signal
import socket
import time

from . import e2e, ref, gen, subm, env
from .orch import h

T0 = gen.T0


def bump(d, k, n=1):
    d[k] = d.get(k, 0) + n


async def connect_placed(srv, name, **kw):
    """connect one client and find out which worker process accepted it (by the change of the
    per-process count of established connections on the server port)"""
    before = srv.conns_per_worker()
    c = await e2e.Client(srv, name, **kw).connect()
    c.worker = None
    for _ in range(40):
        after = srv.conns_per_worker()
        up = [p for p in after if after[p] == before.get(p, 0) + 1]
        if len(up) == 1 and sum(after.values()) == sum(before.values()) + 1:
            c.worker = up[0]
            break
        await asyncio.sleep(0.05)
    return c


async def spread(srv, prefix, per_worker, cap, setup=None):
    """connect clients one after another until every worker holds at least `per_worker` of them"""
    out = []
    while len(out) < cap:
        c = await connect_placed(srv, "%s%d" % (prefix, len(out)))
        if setup:
            await setup(c)
        out.append(c)
        have = {}
        for x in out:
            have[x.worker] = have.get(x.worker, 0) + 1
        if all(have.get(p, 0) >= per_worker for p in srv.worker_pids()):
            break
    return out


def kclass(kind):
    return "regular" if kind in (1, 7) else ("ephemeral" if 20000 <= kind < 30000 else "replaceable")


def event_frames(c, sub_id=None):
    out = []
    for n, m in c.parsed():
        if isinstance(m, list) and m and m[0] == "EVENT" and len(m) >= 3 and (sub_id is None or m[1] == sub_id):
            out.append((n, m))
    return out


def ok_frames(c):
    return [(n, m) for n, m in c.parsed() if isinstance(m, list) and m and m[0] == "OK"]


# ---------------------------------------------------------------------------------------------------
# C20: every accepted event reaches the matching subscribers of EVERY worker process, once
# ---------------------------------------------------------------------------------------------------
FILTER_POOL = [
    [{"kinds": [1]}],
    [{"kinds": [1, 30000]}],
    [{"#t": ["x"]}],
    [{"kinds": [20001]}],
    [{"kinds": [7]}, {"kinds": [30000], "#d": ["a"]}],
    [{"kinds": [1, 7, 20001, 30000, 10002]}],
]


async def c20_case(backend, workers, seed, counters, nevents=40, only_ephemeral=False, restart=False):
    r = random.Random(seed)
    viols, nontrivial, inconcl = [], [], []
    srv = e2e.Server(backend=backend, workers=workers)
    t_start = time.time()
    srv.start()
    clients = []
    rp = {"mode": "e2e", "backend": backend, "workers": workers, "seed": seed, "nevents": nevents}
    try:
        keys = [ref.key_from_seed("e2e-c20-%d" % i) for i in range(3)]
        FP = FILTER_POOL + [[{"authors": [keys[0].pk]}]]

        async def sub_setup(c):
            c.filters = FP[len(clients) % len(FP)]
            clients.append(c)
            await c.send(["REQ", "s", *c.filters])
            if not await c.wait_for(lambda fr: any(isinstance(m, list) and m[:1] == ["EOSE"] for m in fr), timeout=30):
                raise e2e_inconclusive("no EOSE for the subscriber's REQ on an empty store")

        subs = await spread(srv, "sub", 2, 36, sub_setup)
        pubs = await spread(srv, "pub", 1, 16)
        clients.extend(pubs)
        placement = {}
        for c in subs:
            placement[c.worker] = placement.get(c.worker, 0) + 1
        counters["e2e_workers_with_subscribers"] = max(counters.get("e2e_workers_with_subscribers", 0), len([p for p in placement if p]))
        if len([p for p in placement if p is not None]) < 2 or any(c.worker is None for c in subs + pubs):
            inconcl.append("e2e: could not place subscribers on two worker processes (%r)" % placement)
            return viols, nontrivial, inconcl
        # the notify clients connect 2 s after their worker's storage was set up; every worker has served a
        # connection by now, so its set-up is over
        await asyncio.sleep(3.0)
        evs = []
        used_a = False
        for i in range(nevents):
            roll = 0.99 if only_ephemeral else r.random()
            key = r.choice(keys)
            if roll < 0.5:
                kind, tags = 1, ([["t", "x"]] if r.random() < 0.5 else [["t", "y"]])
            elif roll < 0.65:
                kind, tags = 7, []
            elif roll < 0.85:
                # a fresh d each (only one "a"): nothing is superseded before the other workers look it up
                kind, tags = 30000, [["d", "c%d" % i if used_a else "a"]]
                used_a = True
            else:
                kind, tags = 20001, [["t", "x"]]
            evs.append(ref.make_event(key, kind=kind, created_at=T0 + i, tags=tags, content="e2e %d/%d" % (seed, i)))
        # accepted events whose tags a careless receiver might trip over come FIRST: whatever they do to a
        # worker's notify client shows in everything announced afterwards
        for j, tags in enumerate(([["expiration", "soon"]], [["expiration"]], [["expiration", str(T0 * 3)]], [["e", "zz"], ["p"]])):
            evs.insert(j, ref.make_event(keys[0], kind=1, created_at=T0 - 10 + j, tags=tags + [["t", "x"]], content="e2e odd %d/%d" % (seed, j)))
        origin = {}
        half = nevents // 2
        for i, ev in enumerate(evs):
            p = r.choice(pubs)
            origin[ev["id"]] = p
            n0 = await p.send(["EVENT", ev])
            if i < half:  # paced: wait for the acknowledgement
                await p.wait_for(lambda fr: any(isinstance(m, list) and m[:2] == ["OK", ev["id"]] for m in fr), timeout=30, since=n0 - 1)
        await e2e.settle(clients, quiet=1.5, timeout=60)
        accepted = {}
        for p in pubs:
            for _, m in ok_frames(p):
                if len(m) >= 3 and m[2] is True:
                    accepted[m[1]] = accepted.get(m[1], 0) + 1
        def count_all():
            out = {c.name: dict() for c in subs}
            for c in subs:
                for _, m in event_frames(c, "s"):
                    eid = m[2].get("id") if isinstance(m[2], dict) else None
                    out[c.name][eid] = out[c.name].get(eid, 0) + 1
            return out

        counts0 = count_all()
        if any(ref.match_any(ev, c.filters) == "MUST" and not counts0[c.name].get(ev["id"]) for ev in evs if accepted.get(ev["id"]) for c in subs):
            # something seems to be missing: a loaded machine may just be slow - look again after a much longer silence
            await e2e.settle(clients, quiet=5.0, timeout=60)
            counts0 = count_all()
            bump(counters, "e2e_recounts_after_longer_silence")
        for ev in evs:
            if not accepted.get(ev["id"]):
                continue
            for c in subs:
                verdict = ref.match_any(ev, c.filters)
                got = counts0[c.name].get(ev["id"], 0)
                cross = origin[ev["id"]].worker != c.worker
                where = "other-worker" if cross else "same-worker"
                bump(counters, "e2e_pairs_checked")
                if cross:
                    bump(counters, "e2e_cross_worker_pairs")
                if verdict == "MUST":
                    nontrivial.append(h(["e2e", backend, workers, where, kclass(ev["kind"]), c.filters]))
                    if got == 0:
                        viols.append({"key": "e2e/%s/missed/%s/%s" % (backend, where, kclass(ev["kind"])),
                                      "msg": "[e2e %s, %d worker processes] event %s (kind %d) accepted by worker %s never reached subscriber %s on worker %s whose filter %s it matches"
                                             % (backend, workers, ev["id"][:12], ev["kind"], origin[ev["id"]].worker, c.name, c.worker, json.dumps(c.filters)), "replay": rp})
                    elif got > 1:
                        viols.append({"key": "e2e/%s/duplicated/%s/%s" % (backend, where, kclass(ev["kind"])),
                                      "msg": "[e2e %s, %d worker processes] event %s pushed %d times to subscriber %s (worker %s, origin worker %s)"
                                             % (backend, workers, ev["id"][:12], got, c.name, c.worker, origin[ev["id"]].worker), "replay": rp})
                elif verdict == "NO" and got:
                    viols.append({"key": "e2e/%s/pushed-nonmatching/%s" % (backend, where),
                                  "msg": "[e2e %s] event %s pushed to subscriber %s whose filter %s it does not match" % (backend, ev["id"][:12], c.name, json.dumps(c.filters)), "replay": rp})
        # ---- resubmission of stored events to another worker: nothing may be pushed again anywhere
        stored = [ev for ev in evs if accepted.get(ev["id"]) and kclass(ev["kind"]) == "regular"]
        again = r.sample(stored, min(len(stored), max(2, nevents // 10)))
        resub = {}
        for ev in again:
            others = [p for p in pubs if p.worker != origin[ev["id"]].worker] or pubs
            resub[ev["id"]] = r.choice(others)
            await resub[ev["id"]].send(["EVENT", ev])
        await e2e.settle(clients, quiet=1.5, timeout=60)
        for ev in again:
            for c in subs:
                if c.worker == resub[ev["id"]].worker:
                    # what the receiving worker does with a duplicate locally is C05/C06's business
                    continue
                got = sum(1 for _, m in event_frames(c, "s") if isinstance(m[2], dict) and m[2].get("id") == ev["id"])
                bump(counters, "e2e_resubmission_pairs")
                if got > counts0[c.name].get(ev["id"], 0):
                    viols.append({"key": "e2e/%s/resubmission-pushed-again" % backend,
                                  "msg": "[e2e %s, %d worker processes] stored event %s resubmitted to another worker was pushed again to subscriber %s (%d -> %d frames)"
                                         % (backend, workers, ev["id"][:12], c.name, counts0[c.name].get(ev["id"], 0), got), "replay": rp})
        probs = e2e.log_problems(srv.log_text())
        if probs:
            viols.append({"key": "e2e/%s/server-log" % backend, "msg": "[e2e %s] the server's log shows: %s" % (backend, " | ".join(probs[:3])), "replay": rp})
        # ---- an ordinary restart (stop, start at once on the same files): the workers find each other again
        if restart:
            for c in clients:
                await c.close()
            del clients[:]
            srv.stop()
            t_start = time.time()
            srv.start()
            subs = await spread(srv, "rsub", 2, 36, sub_setup)
            pubs = await spread(srv, "rpub", 1, 16)
            clients.extend(pubs)
            await asyncio.sleep(3.0)
            evs2 = [ref.make_event(keys[1], kind=1, created_at=T0 + 5000 + i, tags=[["t", "x"]], content="e2e after restart %d/%d" % (seed, i)) for i in range(8)]
            origin2 = {}
            for ev in evs2:
                origin2[ev["id"]] = r.choice(pubs)
                n0 = await origin2[ev["id"]].send(["EVENT", ev])
                await origin2[ev["id"]].wait_for(lambda fr: any(isinstance(m, list) and m[:2] == ["OK", ev["id"]] for m in fr), timeout=30, since=n0 - 1)
            await e2e.settle(clients, quiet=1.5, timeout=60)
            for ev in evs2:
                for c in subs:
                    if ref.match_any(ev, c.filters) != "MUST":
                        continue
                    got = sum(1 for _, m in event_frames(c, "s") if isinstance(m[2], dict) and m[2].get("id") == ev["id"])
                    cross = origin2[ev["id"]].worker != c.worker
                    bump(counters, "e2e_pairs_after_restart")
                    if got != 1:
                        viols.append({"key": "e2e/%s/%s/%s/after-restart" % (backend, "missed" if got == 0 else "duplicated", "other-worker" if cross else "same-worker"),
                                      "msg": "[e2e %s, %d worker processes] after an orderly stop and an immediate start on the same files, event %s accepted by worker %s was pushed %d times to subscriber %s on worker %s"
                                             % (backend, workers, ev["id"][:12], origin2[ev["id"]].worker, got, c.name, c.worker), "replay": rp})
    except e2e_inconclusive as e:
        inconcl.append("e2e: %s" % e)
    finally:
        for c in clients:
            await c.close()
        srv.stop()
    return viols, nontrivial, inconcl


class e2e_inconclusive(Exception):
    pass


# ---------------------------------------------------------------------------------------------------
# C15: challenges of forked workers are distinct; an answer is useless on another connection/worker
# ---------------------------------------------------------------------------------------------------
async def c15_case(backend, workers, seed, counters):
    viols, nontrivial, inconcl = [], [], []
    p1 = ref.key_from_seed("e2e-c15-p1")
    srv = e2e.Server(backend=backend, workers=workers, overrides={"authentication": {"enabled": True, "actions": {"save": "w", "query": "a"}},
                                                                  "service_privatekey": ref.key_from_seed("service").sk_hex})
    url = "ws://127.0.0.1:%d/" % srv.port
    srv.cfg["authentication"]["relay_urls"] = [url]
    import yaml

    with open(srv.conf, "w") as fp:
        yaml.safe_dump(srv.cfg, fp)
    srv.set_roles({p1.pk: "w"})
    srv.start()
    rp = {"mode": "e2e", "backend": backend, "workers": workers, "seed": seed}
    conns = []
    try:
        async def setup(c):
            if not await c.wait_for(lambda fr: any(isinstance(m, list) and m[:1] == ["AUTH"] for m in fr), timeout=20):
                raise e2e_inconclusive("no AUTH challenge on a fresh connection")

        conns = await spread(srv, "a", 6, 60, setup)
        chal = {}
        for c in conns:
            ch = next(m[1] for _, m in c.parsed() if isinstance(m, list) and m[:1] == ["AUTH"])
            chal[c.name] = ch
            bump(counters, "e2e_challenges")
            if not (isinstance(ch, str) and re.match(r"\A[0-9a-f]{32,}\Z", ch)):
                viols.append({"key": "e2e/challenge-not-128-bit-hex", "msg": "[e2e] challenge %r on the wire is not at least 128 bits of hex" % (ch,), "replay": rp})
        byw = {}
        for c in conns:
            byw.setdefault(c.worker, []).append(chal[c.name])
        counters["e2e_workers_issuing_challenges"] = max(counters.get("e2e_workers_issuing_challenges", 0), len([w for w in byw if w]))
        if len([w for w in byw if w is not None]) < 2:
            inconcl.append("e2e: all connections landed on one worker process")
            return viols, nontrivial, inconcl
        vals = list(chal.values())
        if len(set(vals)) != len(vals):
            dup = next(v for v in vals if vals.count(v) > 1)
            holders = [(c.name, c.worker) for c in conns if chal[c.name] == dup]
            viols.append({"key": "e2e/challenge-repeated-across-connections", "msg": "[e2e %s, %d forked workers] the challenge %s was issued to several connections: %r" % (backend, workers, dup, holders), "replay": rp})
        nontrivial.append(h(["e2e-c15", backend, workers, "distinct"]))
        # an answer made for connection A, presented on B (other worker, same worker), then on A itself
        n = [0]

        async def can_save(c):
            n[0] += 1
            ev = ref.make_event(p1, kind=1, created_at=int(time.time()), tags=[], content="c15 e2e %d %d" % (seed, n[0]))
            n0 = await c.send(["EVENT", ev])
            r = await c.wait_for(lambda fr: [m for m in fr if isinstance(m, list) and m[:1] == ["OK"]], timeout=20, since=n0)
            return bool(r and r[-1][2] is True)

        a = conns[0]
        other = next(c for c in conns if c.worker != a.worker)
        same = next((c for c in conns[1:] if c.worker == a.worker), None)
        answer = ref.make_event(p1, kind=22242, created_at=int(time.time()), tags=[["relay", url], ["challenge", chal[a.name]]], content="")
        for label, b in (("other-worker", other), ("same-worker", same)):
            if b is None:
                continue
            await b.send(["AUTH", answer])
            await asyncio.sleep(0.3)
            bump(counters, "e2e_foreign_answers")
            nontrivial.append(h(["e2e-c15", backend, label]))
            if await can_save(b):
                viols.append({"key": "e2e/answer-accepted-on-another-connection/%s" % label,
                              "msg": "[e2e %s] an AUTH answer made for connection %s (challenge %s) authenticated connection %s (%s)" % (backend, a.name, chal[a.name], b.name, label), "replay": rp})
        await a.send(["AUTH", answer])
        await asyncio.sleep(0.3)
        bump(counters, "e2e_own_answers")
        if not await can_save(a):
            viols.append({"key": "e2e/valid-answer-refused", "msg": "[e2e %s] the valid answer did not authenticate its own connection" % backend, "replay": rp})
    except e2e_inconclusive as e:
        inconcl.append("e2e: %s" % e)
    finally:
        for c in conns:
            await c.close()
        srv.stop()
    return viols, nontrivial, inconcl


# ---------------------------------------------------------------------------------------------------
# wire transcript through the real stack: frames, OK per EVENT, EOSE per REQ, verbatim, HTTP
# ---------------------------------------------------------------------------------------------------
SUB_IDS = ["plain", "", " ", 'q"uote', "back\\slash", "new\nline", "nul\x00", " ", "\U0001f600", "x" * 300, "é", "\x7f\x1f"]


def frame_shape_problem(text):
    if not isinstance(text, str):
        return "binary frame"
    try:
        m = json.loads(text)
    except Exception as e:
        return "not JSON (%s)" % e
    if not isinstance(m, list) or not m:
        return "not a JSON array"
    t = m[0]
    if t == "EVENT":
        ok = len(m) == 3 and isinstance(m[1], str) and isinstance(m[2], dict)
    elif t == "EOSE":
        ok = len(m) == 2 and isinstance(m[1], str)
    elif t == "OK":
        ok = len(m) == 4 and isinstance(m[1], str) and isinstance(m[2], bool) and isinstance(m[3], str)
    elif t == "NOTICE":
        ok = len(m) == 2 and isinstance(m[1], str)
    elif t == "AUTH":
        ok = len(m) == 2 and isinstance(m[1], str)
    else:
        ok = False
    return None if ok else "unknown shape %s" % text[:120]


async def wire_case(backend, seed, counters, props=("C04", "C06", "C13"), nevents=60, server_mode=None):
    import websockets

    r = random.Random(seed)
    viols, nontrivial, inconcl = [], [], []
    compression = r.choice([None, "deflate"])
    mode = r.choice(["gunicorn", "uvicorn", "uvicorn-ws"])
    mode = server_mode or mode
    srv = e2e.Server(backend=backend, workers=1, mode="uvicorn" if mode.startswith("uvicorn") else "gunicorn", overrides={})
    if mode == "uvicorn-ws":
        # uvicorn's `websockets` implementation - the one the repository's monkeypatch (compression factory) applies to
        compression = "deflate"
        srv.cfg["gunicorn"]["ws"] = "websockets"
        import yaml

        with open(srv.conf, "w") as fp:
            yaml.safe_dump(srv.cfg, fp)
    bump(counters.setdefault("e2e_server_modes", {}), mode)
    srv.start()
    rp = {"mode": "e2e", "backend": backend, "seed": seed}
    conns = []

    def V(prop, key, msg):
        if prop in props:
            viols.append({"key": "e2e/%s/%s" % (backend, key), "msg": "[e2e %s %s] %s" % (backend, srv.mode, msg), "replay": rp})

    try:
        u = gen.Universe(seed)
        evs = u.store(nevents, hostile=True, history=False)
        pub = await e2e.Client(srv, "pub", compression=compression).connect()
        watch = await e2e.Client(srv, "watch", compression=compression).connect()
        conns += [pub, watch]
        await watch.send(["REQ", "w", {"kinds": sorted({e["kind"] for e in evs})}])
        await watch.wait_for(lambda fr: any(isinstance(m, list) and m[:1] == ["EOSE"] for m in fr), timeout=30)
        # the relay slows a connection down (real sleeps, doubling) after every refused EVENT, so each
        # EVENT is acknowledged before the next is sent and a connection that was refused once is retired
        accepted = {}
        pubs = [pub]
        nsent = 0

        async def submit(ev, expect_true):
            nonlocal pub, nsent
            nsent += 1
            n0 = await pub.send(["EVENT", ev])
            await pub.wait_for(lambda fr: [m for m in fr if isinstance(m, list) and m[:1] == ["OK"]], timeout=40, since=n0)
            await asyncio.sleep(0.05)
            oks = [m for _, m in ok_frames(pub) if _ > n0]
            bump(counters, "e2e_ok_frames_checked")
            # --- C06: exactly one OK per EVENT message, naming the event
            if len(oks) != 1:
                V("C06", "ok-count", "one EVENT message (%s) was answered by %d OK frames" % (str(ev.get("id"))[:12], len(oks)))
            nontrivial.append(h(["e2e-wire", backend, "ok", oks[0][2] if oks and len(oks[0]) > 2 else None]))
            if oks and len(oks[0]) == 4 and oks[0][2] is True:
                if oks[0][1] != ev["id"]:
                    V("C06", "ok-names-other-event", "OK true for id %r answers the submission of %s" % (oks[0][1], ev["id"][:12]))
                accepted[ev["id"]] = ev
            elif not oks or oks[0][2] is not True:
                pub = await e2e.Client(srv, "pub%d" % len(pubs), compression=compression).connect()
                pubs.append(pub)
                conns.append(pub)

        for ev in evs:
            await submit(ev, True)
            if r.random() < 0.15:  # a duplicate in between
                await submit(ev, False)
            if r.random() < 0.05:  # and a broken one
                await submit(dict(ev, sig=ev["sig"][:-2] + ("00" if ev["sig"][-2:] != "00" else "11")), False)
        await e2e.settle(conns, quiet=0.8, timeout=60)
        bump(counters, "e2e_events_sent", nsent)
        # --- C04: every frame well-formed; live pushes verbatim
        for c in conns:
            for n, t in c.frames:
                bump(counters, "e2e_frames_checked")
                p = frame_shape_problem(t)
                if p:
                    V("C04", "frame-malformed", "frame %r: %s" % (t[:150] if isinstance(t, str) else t[:60], p))
        live = {}
        for n, m in event_frames(watch, "w"):
            live.setdefault(m[2].get("id"), []).append(m[2])
        for eid, ev in accepted.items():
            for got in live.get(eid, []):
                bump(counters, "e2e_verbatim_checked")
                if not subm.deep_equal(got, ev):
                    V("C04", "not-verbatim/live", "event %s pushed live differs from what was accepted: %s vs %s" % (eid[:12], json.dumps(got)[:200], json.dumps(ev)[:200]))
        # --- stored answers under hostile subscription ids: C13 (one EOSE / a NOTICE, never silence), C04 (sub id, verbatim)
        q = await e2e.Client(srv, "q", compression=compression).connect()
        conns.append(q)
        kinds = sorted({e["kind"] for e in accepted.values()})
        for i, sid in enumerate(SUB_IDS):
            flt = r.choice([{"kinds": kinds}, {"ids": [e for e in list(accepted)[:5]]}, {"authors": [u.keys[0].pk]}, {"kinds": kinds, "limit": 3}])
            n0 = await q.send(["REQ", sid, flt])
            fr = await q.wait_for(lambda fr: [m for m in fr if isinstance(m, list) and m[:1] in (["EOSE"], ["NOTICE"])], timeout=30, since=n0)
            bump(counters, "e2e_reqs")
            nontrivial.append(h(["e2e-wire", backend, "req", sid]))
            if not fr:
                V("C13", "silence", "REQ with subscription id %r got neither EOSE nor NOTICE within 30 s" % sid)
                continue
            await asyncio.sleep(0.2)
            mine = [m for _, m in q.parsed(n0)]
            eose = [m for m in mine if isinstance(m, list) and m[:1] == ["EOSE"]]
            if len(eose) > 1:
                V("C13", "eose-repeated", "REQ %r answered by %d EOSE frames" % (sid, len(eose)))
            for m in mine:
                if isinstance(m, list) and m[:1] in (["EOSE"], ["EVENT"]) and len(m) > 1 and m[1] != sid:
                    V("C04", "subid-changed", "subscription id %r came back as %r" % (sid, m[1]))
                if isinstance(m, list) and m[:1] == ["EVENT"] and len(m) == 3 and isinstance(m[2], dict):
                    src = accepted.get(m[2].get("id"))
                    bump(counters, "e2e_verbatim_checked")
                    if src is None:
                        V("C04", "served-unknown-event", "REQ %r returned event %r that was never accepted" % (sid, m[2].get("id")))
                    elif not subm.deep_equal(m[2], src):
                        V("C04", "not-verbatim/stored", "event %s served from storage differs from what was accepted: %s vs %s" % (src["id"][:12], json.dumps(m[2])[:200], json.dumps(src)[:200]))
            n1 = await q.send(["CLOSE", sid])
        # a REQ the relay must refuse: answered by a NOTICE (or an EOSE for an empty filter list), never silence
        for bad in (["REQ", "bad1", {"kinds": "x"}], ["REQ", "bad2", {"ids": [5]}], ["REQ", "bad3"], ["REQ", "bad4", {"since": "yesterday"}], ["REQ", "bad5", {"#e": [["x"]]}]):
            n0 = await q.send(bad)
            fr = await q.wait_for(lambda fr: [m for m in fr if isinstance(m, list) and m[:1] in (["EOSE"], ["NOTICE"])], timeout=20, since=n0)
            bump(counters, "e2e_refused_reqs")
            if not fr and q.closed is None:
                V("C13", "silence/ill-formed-req", "%s got neither NOTICE nor EOSE" % json.dumps(bad))
            if q.closed is not None:
                V("C13", "connection-closed-on-ill-formed-req", "%s closed the connection (%r) instead of a NOTICE" % (json.dumps(bad), q.closed))
                break
        # --- HTTP: /e/<id> verbatim, NIP-11 document
        for eid, ev in list(accepted.items())[:25]:
            st, hd, body = srv.http_get("/e/" + eid)
            bump(counters, "e2e_http_gets")
            if st != 200:
                if kclass(ev["kind"]) == "ephemeral" or st == 404 and any(o["kind"] == ev["kind"] and o["pubkey"] == ev["pubkey"] for o in accepted.values() if o is not ev and kclass(o["kind"]) == "replaceable"):
                    continue
                V("C04", "http-status", "GET /e/%s answered %s for a stored event" % (eid[:12], st))
                continue
            try:
                got = json.loads(body.decode("utf-8"))
            except Exception as e:
                V("C04", "http-not-json", "GET /e/%s body is not JSON: %r" % (eid[:12], body[:100]))
                continue
            if not subm.deep_equal(got, ev):
                V("C04", "not-verbatim/http", "GET /e/%s differs from what was accepted: %s vs %s" % (eid[:12], json.dumps(got)[:200], json.dumps(ev)[:200]))
        st, hd, body = srv.http_get("/", {"Accept": "application/nostr+json"})
        try:
            doc = json.loads(body)
            if st != 200 or not isinstance(doc.get("supported_nips"), list):
                V("C04", "nip11", "relay information document: status %s body %r" % (st, body[:120]))
        except Exception:
            V("C04", "nip11", "relay information document is not JSON: %r" % body[:120])
        probs = e2e.log_problems(srv.log_text())
        if probs:
            V("C04", "server-log", "the server's log shows: %s" % " | ".join(probs[:3]))
            V("C13", "server-log", "the server's log shows: %s" % " | ".join(probs[:3]))
    except websockets.exceptions.ConnectionClosed as e:
        # the CLIENT library ends a connection with 1002 / 1007 when it cannot make sense of what the server wrote
        # (a frame that does not inflate, text that is not UTF-8): that is a frame that does not parse
        sent = getattr(e, "sent", None)
        code = getattr(sent, "code", None)
        if code in (1002, 1007):
            V("C04", "frame-undecodable", "the websocket client had to end a connection with %s (%s): a frame the relay wrote could not be decoded" % (code, getattr(sent, "reason", "")))
        else:
            inconcl.append("e2e wire: a connection ended unexpectedly (%r)" % (e,))
    finally:
        for c in conns:
            await c.close()
        srv.stop()
    if "C04" in props:
        # --- a server of its own with message_timeout 3 s: a connection with an open subscription stays silent until the relay
        # gives up on it; whatever the relay writes before it closes is a frame of a known shape
        srv2 = e2e.Server(backend=backend, workers=1, mode=srv.mode, overrides={"message_timeout": 3})
        srv2.start()
        try:
            idle = await e2e.Client(srv2, "idle", compression=compression if mode != "uvicorn-ws" else None).connect()
            await idle.send(["REQ", "idle-sub", {"kinds": [1], "limit": 2}])
            await idle.send(["REQ", "idle-sub2", {"kinds": [7]}])
            t_idle = time.time()
            while idle.closed is None and time.time() - t_idle < 15:
                await asyncio.sleep(0.25)
            bump(counters, "e2e_idle_timeouts")
            if idle.closed is None:
                inconcl.append("e2e wire: the idle connection was not closed 15 s after message_timeout 3")
            for n, t in idle.frames:
                bump(counters, "e2e_frames_checked")
                pb = frame_shape_problem(t)
                if pb:
                    viols.append({"key": "e2e/%s/frame-malformed/at-timeout" % backend, "msg": "[e2e %s %s] frame %r written to a connection that was timing out: %s" % (backend, srv2.mode, t[:150] if isinstance(t, str) else t[:60], pb), "replay": rp})
            await idle.close()
        finally:
            srv2.stop()
    return viols, nontrivial, inconcl


# ---------------------------------------------------------------------------------------------------
# C06: acknowledged events survive an orderly shutdown (SIGTERM -> graceful stop -> storage.close)
# ---------------------------------------------------------------------------------------------------
async def restart_case(backend, seed, counters, nevents=120, during_burst=False):
    r = random.Random(seed)
    viols, nontrivial, inconcl = [], [], []
    srv = e2e.Server(backend=backend, workers=r.choice([1, 2]))
    srv.start()
    rp = {"mode": "e2e", "backend": backend, "seed": seed, "during_burst": during_burst}
    key = ref.key_from_seed("e2e-c06")
    try:
        pub = await e2e.Client(srv, "pub").connect()
        evs = [ref.make_event(key, kind=r.choice([1, 1, 7, 30000 + i]), created_at=T0 + i, tags=[["t", "v%d" % (i % 7)], ["d", "d%d" % i]], content="restart %d %d" % (seed, i)) for i in range(nevents)]
        for ev in evs:
            await pub.send(["EVENT", ev])
        if during_burst:
            # somewhere inside the burst: after a seeded share of the acknowledgements has arrived
            want = max(5, int(nevents * r.choice([0.05, 0.2, 0.5, 0.8])))
            await pub.wait_for(lambda fr: sum(1 for m in fr if isinstance(m, list) and m[:1] == ["OK"]) >= want, timeout=60)
        else:
            await pub.wait_for(lambda fr: sum(1 for m in fr if isinstance(m, list) and m[:1] == ["OK"]) >= nevents, timeout=120)
        t0 = time.time()
        rc = srv.stop(wait=40)
        await asyncio.sleep(0.2)
        acked = [m[1] for _, m in ok_frames(pub) if len(m) == 4 and m[2] is True]
        await pub.close()
        bump(counters, "e2e_acked_before_shutdown", len(acked))
        if not acked:
            inconcl.append("e2e restart: nothing was acknowledged before the shutdown")
            return viols, nontrivial, inconcl
        srv.start()
        q = await e2e.Client(srv, "q").connect()
        missing = []
        for i in range(0, len(acked), 40):
            chunk = acked[i:i + 40]
            n0 = await q.send(["REQ", "r%d" % i, {"ids": chunk}])
            await q.wait_for(lambda fr: any(isinstance(m, list) and m[:2] == ["EOSE", "r%d" % i] for m in fr), timeout=60, since=n0)
            got = {m[2].get("id") for _, m in event_frames(q, "r%d" % i)}
            missing += [e for e in chunk if e not in got]
            bump(counters, "e2e_restart_lookups", len(chunk))
        await q.close()
        nontrivial.append(h(["e2e-restart", backend, during_burst, len(acked) > 0]))
        if missing:
            viols.append({"key": "e2e/%s/ok-true/lost/after-sigterm%s" % (backend, "/during-burst" if during_burst else ""),
                          "msg": "[e2e %s] %d of %d events acknowledged with OK true before SIGTERM (orderly shutdown, rc %s) are not retrievable after the restart, e.g. %s"
                                 % (backend, len(missing), len(acked), rc, missing[0][:12]), "replay": rp})
    finally:
        srv.stop()
    return viols, nontrivial, inconcl


# ---------------------------------------------------------------------------------------------------
# C07: SIGKILL of the whole server from outside at an arbitrary instant
# ---------------------------------------------------------------------------------------------------
def long_history(seed, rounds=3):
    from .checks import c07

    out = []
    for i in range(rounds):
        out += c07.gen_history(seed * 31 + i) if i == 0 else _rekey(c07.gen_history(seed * 31 + i), i)
    return out


def _rekey(history, salt):
    """the same shapes signed by other keys (so that rounds do not interfere), references remapped"""
    keys = {}
    idmap = {}
    out = []
    for ev in history:
        k = keys.setdefault(ev["pubkey"], ref.key_from_seed("e2e-c07-%s-%d" % (ev["pubkey"][:8], salt)))
        tags = []
        for t in ev["tags"]:
            t = list(t)
            if len(t) > 1 and t[0] == "e" and t[1] in idmap:
                t[1] = idmap[t[1]]
            if len(t) > 1 and t[0] == "p" and t[1] in keys:
                t[1] = keys[t[1]].pk
            tags.append(t)
        ne = ref.make_event(k, kind=ev["kind"], created_at=ev["created_at"], tags=tags, content=ev["content"] + "/%d" % salt)
        idmap[ev["id"]] = ne["id"]
        out.append(ne)
    return out


def kill_shard(backend, seed, trials, counters):
    """reference states from fault-free in-process runs of the code under test, then the real server"""
    from .checks import c07

    history = long_history(seed)
    refs, _ = c07.clean_run(backend, history, record=False)
    return run(kill_case, backend, seed, trials, counters, history, refs, timeout=1500)


async def kill_case(backend, seed, trials, counters, history, refs):
    from .checks import c07

    r = random.Random(seed)
    viols, nontrivial, inconcl = [], [], []
    index = {}
    for j, d in enumerate(refs):
        index.setdefault(d, []).append(j)
    rp = {"mode": "e2e", "backend": backend, "seed": seed, "trials": trials}

    async def feed(srv, events, wait_all):
        c = await e2e.Client(srv, "feed").connect(timeout=30)
        for ev in events:
            await c.send(["EVENT", ev])
        if wait_all:
            await c.wait_for(lambda fr: sum(1 for m in fr if isinstance(m, list) and m[:1] == ["OK"]) >= len(events), timeout=60)
        return c

    # calibration: the same history through the real server without a kill must end in the reference state
    srv = e2e.Server(backend=backend, workers=1)
    srv.start()
    t0 = time.time()
    c = await feed(srv, history, True)
    span = time.time() - t0
    await c.close()
    srv.stop()
    final = c07.dump_files(backend, srv.dir)
    if final != refs[-1]:
        inconcl.append("e2e kill: without any kill the real server's final store differs from the in-process reference (%d events) - states are not comparable" % len(history))
        return viols, nontrivial, inconcl
    bump(counters, "e2e_calibrations")
    for t in range(trials):
        worker_only = t % 2 == 1
        srv = e2e.Server(backend=backend, workers=1)
        srv.start()
        c = await feed(srv, history, False)
        await asyncio.sleep(r.random() * span * 1.1)
        acked_true = sum(1 for _, m in ok_frames(c) if len(m) == 4 and m[2] is True)
        acked = len(ok_frames(c))
        if worker_only:
            # only the worker dies (SIGKILL); the gunicorn master stays and forks a new one
            old = srv.worker_pids()
            for pid in old:
                try:
                    os.kill(pid, signal.SIGKILL)
                except OSError:
                    pass
            t0 = time.time()
            while time.time() - t0 < 30:
                new = srv.worker_pids()
                if new and not set(new) & set(old):
                    break
                await asyncio.sleep(0.05)
            await c.close()
            bump(counters, "e2e_worker_kills")
            await asyncio.sleep(0.5)
        else:
            srv.kill()
            await c.close()
        bump(counters, "e2e_kills")
        where = "worker-kill" if worker_only else "kill"
        try:
            state = c07.dump_files(backend, srv.dir)
        except Exception as e:
            viols.append({"key": "e2e/%s/%s/store-unreadable" % (backend, where), "msg": "[e2e %s] after SIGKILL the store cannot be read: %r" % (backend, e), "replay": rp})
            srv.kill()
            continue
        js = index.get(state)
        if js is None:
            viols.append({"key": "e2e/%s/%s/torn-state" % (backend, where),
                          "msg": "[e2e %s] SIGKILL of the %s %d acknowledgements into a history of %d events left a store that is not the state after any prefix of the history"
                                 % (backend, "worker process" if worker_only else "server", acked, len(history)), "replay": rp})
            srv.kill()
            continue
        j = max(js)
        bump(counters, "e2e_kill_states_matched")
        bump(counters.setdefault("e2e_kill_prefix_hist", {}), str(min(9, 10 * j // max(1, len(history)))))
        if 0 < j < len(history):
            nontrivial.append(h(["e2e-kill", backend, j, worker_only]))
        if backend == "sql" and j < acked:
            viols.append({"key": "e2e/sql/%s/acknowledged-not-committed" % where,
                          "msg": "[e2e sql] %d EVENT messages had been answered when the %s was killed, the store holds the state after only %d" % (acked, "worker" if worker_only else "server", j), "replay": rp})
        # restart on the same files (or: the respawned worker) and apply the rest: the final state must be the reference final state
        if not worker_only:
            srv.start()
        c = await feed(srv, history[j:], True)
        unanswered = len(history[j:]) - len(ok_frames(c))
        await c.close()
        srv.stop()
        final = c07.dump_files(backend, srv.dir)
        bump(counters, "e2e_recoveries")
        if final != refs[-1]:
            viols.append({"key": "e2e/%s/%s/later-events-not-applied-after-%s" % (backend, where, "respawn" if worker_only else "restart"),
                          "msg": "[e2e %s] after a SIGKILL of the %s at prefix %d, feeding the remaining %d events to the %s does not lead to the fault-free final state (%d of them were never answered)"
                                 % (backend, "worker" if worker_only else "server", j, len(history) - j, "respawned worker" if worker_only else "restarted server", unanswered), "replay": rp})
    return viols, nontrivial, inconcl


# ---------------------------------------------------------------------------------------------------
# C19: hostile peers on the real wire
# ---------------------------------------------------------------------------------------------------
DROP_BOUND = 40.0


async def hostile_case(backend, seed, counters):
    r = random.Random(seed)
    viols, nontrivial, inconcl = [], [], []
    srv = e2e.Server(backend=backend, workers=1, overrides={
        "logging": {"version": 1, "disable_existing_loggers": False,
                    "formatters": {"s": {"format": "%(process)d %(name)s %(levelname)s %(message)s"}},
                    "handlers": {"c": {"class": "logging.StreamHandler", "formatter": "s", "stream": "ext://sys.stderr"}},
                    "loggers": {"nostr_relay.stats": {"level": "INFO"}},
                    "root": {"level": "WARNING", "handlers": ["c"]}}})
    srv.start()
    rp = {"mode": "e2e", "backend": backend, "seed": seed}
    pid0 = srv.worker_pids()
    key = ref.key_from_seed("e2e-c19")
    conns = []
    nprobe = [0]

    def V(key_, msg):
        viols.append({"key": "e2e/%s/%s" % (backend, key_), "msg": "[e2e %s] %s" % (backend, msg), "replay": rp})

    try:
        nb = await e2e.Client(srv, "neighbour").connect()
        pb = await e2e.Client(srv, "publisher").connect()
        conns += [nb, pb]
        await nb.send(["REQ", "n", {"kinds": [1], "#t": ["probe"]}])
        await nb.wait_for(lambda fr: any(isinstance(m, list) and m[:1] == ["EOSE"] for m in fr), timeout=30)
        # a store for backlog scenarios
        for i in range(150):
            await pb.send(["EVENT", ref.make_event(key, kind=7, created_at=T0 + i, tags=[["t", "bulk"]], content="bulk %d" % i)])
        await pb.wait_for(lambda fr: sum(1 for m in fr if isinstance(m, list) and m[:1] == ["OK"]) >= 150, timeout=120)

        async def probe(after):
            """well-behaved connections still work: OK for an EVENT, the live push, EOSE for a REQ"""
            nprobe[0] += 1
            ev = ref.make_event(key, kind=1, created_at=T0 + 10 ** 6 + nprobe[0], tags=[["t", "probe"]], content="probe %d %d" % (seed, nprobe[0]))
            n0 = await pb.send(["EVENT", ev])
            ok = await pb.wait_for(lambda fr: [m for m in fr if isinstance(m, list) and m[:2] == ["OK", ev["id"]]], timeout=30, since=n0)
            push = await nb.wait_for(lambda fr: [m for m in fr if isinstance(m, list) and m[:1] == ["EVENT"] and isinstance(m[2], dict) and m[2].get("id") == ev["id"]], timeout=30, since=n0)
            n1 = await nb.send(["REQ", "p%d" % nprobe[0], {"ids": [ev["id"]]}])
            eose = await nb.wait_for(lambda fr: [m for m in fr if isinstance(m, list) and m[:2] == ["EOSE", "p%d" % nprobe[0]]], timeout=30, since=n1)
            await nb.send(["CLOSE", "p%d" % nprobe[0]])
            bump(counters, "e2e_probes")
            if not (ok and ok[0][2] is True):
                V("other-connection-refused/" + after, "after '%s' a valid EVENT on another connection was not accepted (%r)" % (after, ok))
            elif not push:
                V("other-connection-lost-push/" + after, "after '%s' the neighbour's open subscription did not get a matching event" % after)
            if not eose:
                V("other-connection-unanswered/" + after, "after '%s' a REQ on another connection got no EOSE" % after)
            pids = srv.worker_pids()
            if pids != pid0 or not srv.alive():
                V("worker-died/" + after, "after '%s' the worker processes changed from %r to %r" % (after, pid0, pids))
                return False
            return bool(ok and push and eose)

        hostile_n = [0]
        gone_at = [None]

        async def hostile():
            hostile_n[0] += 1
            c = await e2e.Client(srv, "h%d" % hostile_n[0], max_size=None).connect()
            conns.append(c)
            return c

        async def act_binary_json():
            c = await hostile()
            await c.send(json.dumps(["REQ", "HOSTILE-bin", {"kinds": [7], "limit": 5}]).encode())
            await asyncio.sleep(0.3)
            await c.send(b"\xff\xfe\x00\x80 not utf-8")
            await asyncio.sleep(0.2)

        async def act_deep():
            c = await hostile()
            await c.send("[" * 200000)
            await c.send('["REQ","HOSTILE-deep",' + "[" * 100000 + "]" * 100000 + "]")
            await c.send('["EVENT",' + '{"a":' * 50000 + "1" + "}" * 50000 + "]")
            await asyncio.sleep(0.3)

        async def act_oversized():
            c = await hostile()
            try:
                await c.send('["REQ","HOSTILE-big",{"ids":["' + "a" * (17 * 1024 * 1024) + '"]}]')
            except Exception:
                pass
            await asyncio.sleep(0.5)

        async def act_fragmented():
            c = await hostile()
            ev = ref.make_event(key, kind=7, created_at=T0 + 5000 + hostile_n[0], tags=[], content="frag")
            text = json.dumps(["EVENT", ev])
            await c.ws.send([text[i:i + 7] for i in range(0, len(text), 7)])
            await c.send(["REQ", "HOSTILE-frag", {"kinds": [7], "limit": 2}])
            await asyncio.sleep(0.3)

        async def act_abort_backlog():
            for _ in range(6):
                c = await hostile()
                await c.send(["REQ", "HOSTILE-backlog", {"kinds": [7]}, {"kinds": [7], "#t": ["bulk"]}])
                await c.send(["REQ", "HOSTILE-backlog2", {"kinds": [7]}])
                await asyncio.sleep(r.random() * 0.05)
                c.abort()

        async def act_connect_storm():
            for _ in range(60):
                c = await hostile()
                if r.random() < 0.5:
                    await c.send(["REQ", "HOSTILE-storm", {"kinds": [1]}])
                c.abort()

        async def act_raw_tcp():
            for payload in (b"GET / HTTP/1.1\r\nHost: x\r\nUpgrade: websocket\r\nConnection: Upgrade\r\nSec-WebSocket-Key: abc", b"\x00\xff" * 500,
                            b"GET /" + b"a" * 70000 + b" HTTP/1.1\r\n\r\n", b"POST / HTTP/1.1\r\nContent-Length: 1000000\r\n\r\nabc"):
                s = socket.create_connection(("127.0.0.1", srv.port), timeout=5)
                try:
                    s.sendall(payload)
                    await asyncio.sleep(0.1)
                finally:
                    s.close()

        async def act_hostile_payloads():
            c = await hostile()
            for hv in r.sample(gen.HOSTILE, 12):
                await c.send(["REQ", "HOSTILE-" + hv[:40], {"#t": [hv], "kinds": [1]}, {"#" + hv[:1]: [hv]}])
                await c.send(["CLOSE", hv])
                await c.send(["AUTH", hv])
                await c.send([hv, hv])
            await c.send("null")
            await c.send("{}")
            await c.send("[]")
            await c.send('["REQ"]')
            await c.send('["REQ", {"a": 1}, {"kinds": [1]}]')
            await c.send('["CLOSE", null]')
            # refused EVENTs slow their connection down with real sleeps (2 s, 4 s, ...): a connection of their own
            c2 = await hostile()
            await c2.send(["REQ", "HOSTILE-ev", {"kinds": [1]}])
            await c2.send('["EVENT", 5]')
            hv = r.choice(gen.HOSTILE)
            await c2.send(["EVENT", {"id": hv, "pubkey": hv, "sig": hv, "kind": 1, "created_at": 1, "tags": [[hv]], "content": hv}])
            await asyncio.sleep(0.5)

        async def act_refused_then_gone():
            """a peer that stays while the relay slows it down after each refused EVENT, then leaves"""
            c = await hostile()
            c.name = "throttled"
            await c.send(["REQ", "HOSTILE-throttled", {"kinds": [1]}])
            bad = ref.make_event(key, kind=1, created_at=T0, tags=[], content="bad sig")
            bad["sig"] = bad["sig"][:-2] + ("00" if bad["sig"][-2:] != "00" else "11")
            t0 = time.time()
            for i in range(4):  # the relay's own delays: 2 + 4 + 8 (+ 16 running when the peer leaves)
                n0 = await c.send(["EVENT", dict(bad, content="bad %d" % i)])
                if i < 3:
                    await c.wait_for(lambda fr: [m for m in fr if isinstance(m, list) and m[:1] == ["OK"]], timeout=40, since=n0)
            await asyncio.sleep(0.5)
            c.abort()
            gone_at[0] = time.time()

        async def act_http_paths():
            for path in ("/e/zz", "/e/" + "0" * 64, "/e/" + "g" * 64, "/e/%00", "/e/" + "a" * 5000, "/.well-known/nostr.json?name=%27", "/stats/", "/nope", "/e/"):
                try:
                    st, hd, body = srv.http_get(path)
                    bump(counters.setdefault("e2e_http_status", {}), str(st))
                except Exception as e:
                    bump(counters.setdefault("e2e_http_status", {}), type(e).__name__)

        acts = [("binary-frames", act_binary_json), ("deep-nesting", act_deep), ("oversized-message", act_oversized), ("fragmented-message", act_fragmented),
                ("aborted-with-backlog", act_abort_backlog), ("connect-abort-storm", act_connect_storm), ("raw-tcp-garbage", act_raw_tcp),
                ("hostile-payloads", act_hostile_payloads), ("http-paths", act_http_paths)]
        r.shuffle(acts)
        acts.append(("refused-events-then-gone", act_refused_then_gone))
        for name, fn in acts:
            try:
                await asyncio.wait_for(fn(), 120)
            except Exception as e:  # the hostile peer's own connection may die at any point: not a finding
                bump(counters.setdefault("e2e_hostile_peer_errors", {}), type(e).__name__)
            bump(counters.setdefault("e2e_hostile_acts", {}), name)
            nontrivial.append(h(["e2e-hostile", backend, name]))
            if not await probe(name):
                break
        # every hostile connection ends; afterwards none of their subscriptions may be registered
        for c in conns:
            if c.name.startswith("h") or c.name == "throttled":
                await c.close()
        # bounded progress: DROP_BOUND seconds after a connection ended its subscriptions must be gone, whatever
        # delay the relay had imposed on it (the relay's throttle stops growing at 30 s)
        if gone_at[0] is not None:
            await asyncio.sleep(max(1.0, DROP_BOUND - (time.time() - gone_at[0])))
        else:
            await asyncio.sleep(DROP_BOUND)
        mark = len(srv.log_text())
        for pid in srv.worker_pids():
            os.kill(pid, signal.SIGUSR1)
        await asyncio.sleep(1.0)
        dumped = srv.log_text()[mark:]
        bump(counters, "e2e_registry_dumps")
        if "n = " not in dumped:
            inconcl.append("e2e hostile: the subscription registry dump (SIGUSR1) did not show the neighbour's own subscription")
        left = sorted(set(re.findall(r"HOSTILE-[^ =]*", dumped)))
        if left:
            V("subscriptions-outlive-connection", "after every hostile connection ended the worker still holds their subscriptions: %r" % left[:5])
        probs = e2e.log_problems(srv.log_text())
        if probs:
            V("server-log", "the server's log shows: %s" % " | ".join(probs[:3]))
        for k, n in e2e.log_notes(srv.log_text()).items():
            bump(counters.setdefault("e2e_server_log_notes", {}), k, n)
    finally:
        for c in conns:
            await c.close()
        srv.stop()
    return viols, nontrivial, inconcl


def run_e2e_shard(prop, spec):
    """dispatch of a shard {"mode": "e2e", "e2e": <case>, "backend":..., "seed":...}; standard worker result"""
    counters = {}
    env.setup_paths()  # the tree under test and, where the genuine modules are missing, the lmdb / msgpack stand-ins
    case, backend, seed = spec["e2e"], spec.get("backend", "sql"), int(spec.get("seed", 0))
    if case == "c20":
        v, nt, inc = run(c20_case, backend, spec.get("workers", 2), seed, counters, nevents=spec.get("nevents", 40), only_ephemeral=spec.get("only_ephemeral", False),
                         restart=spec.get("restart", False))
        main = "e2e_pairs_checked"
    elif case == "c15":
        v, nt, inc = run(c15_case, backend, spec.get("workers", 3), seed, counters)
        main = "e2e_challenges"
    elif case == "wire":
        v, nt, inc = run(wire_case, backend, seed, counters, props=(prop,), nevents=spec.get("nevents", 60), server_mode=spec.get("server_mode"))
        main = "e2e_frames_checked"
    elif case == "restart":
        v, nt, inc = run(restart_case, backend, seed, counters, nevents=spec.get("nevents", 120), during_burst=spec.get("during_burst", False))
        main = "e2e_restart_lookups"
    elif case == "kill":
        v, nt, inc = kill_shard(backend, seed, spec.get("trials", 3), counters)
        main = "e2e_kills"
    elif case == "hostile":
        v, nt, inc = run(hostile_case, backend, seed, counters)
        main = "e2e_probes"
    elif case == "c14":
        v, nt, inc = run(c14_case, backend, spec.get("workers", 2), seed, counters)
        main = "e2e_role_readbacks"
    elif case == "c17":
        v, nt, inc = run(c17_case, backend, spec.get("workers", 2), seed, counters)
        main = "e2e_collector_judgements"
    elif case == "c13":
        v, nt, inc = run(c13_case, backend, spec.get("workers", 2), seed, counters, cycles=spec.get("cycles", 120))
        main = "e2e_close_cycles"
    elif case == "crossworker":
        v, nt, inc = run(crossworker_case, backend, spec.get("workers", 2), seed, counters)
        main = "e2e_crossworker_resubmissions"
    elif case == "c10":
        v, nt, inc = run(c10_case, spec.get("workers", 3), seed, counters, nevents=spec.get("nevents", 150))
        main = "e2e_records_checked"
    elif case == "c08":
        v, nt, inc = run(c08_case, backend, spec.get("workers", 2), seed, counters)
        main = "e2e_worker_readbacks"
    elif case == "c18":
        v, nt, inc = run(c18_case, backend, seed, counters)
        main = "e2e_accept_decisions"
    elif case == "query":
        v, nt, inc = run(query_case, backend, spec.get("workers", 2), seed, counters, nreqs=spec.get("nreqs", 40))
        main = "e2e_reqs_answered"
    elif case == "c03":
        v, nt, inc = run(c03_case, backend, spec.get("workers", 2), seed, counters)
        main = "e2e_forgeries_submitted"
    elif case == "paused-reader":
        v, nt, inc = run(paused_reader_case, backend, seed, counters, nevents=spec.get("nevents", 160))
        main = "e2e_paused_reader_events"
    elif case == "c16":
        v, nt, inc = run(c16_case, backend, spec.get("workers", 2), seed, counters)
        main = "e2e_allow_list_decisions"
    else:
        raise ValueError(case)
    v = [x for x in v if x.get("prop") in (None, prop) or prop not in ("C01", "C02", "C08", "C09")]
    seen, out = {}, []
    for x in v:
        seen[x["key"]] = seen.get(x["key"], 0) + 1
        if seen[x["key"]] <= 1:
            x = dict(x, replay=dict(spec, mode="e2e"))
            out.append(x)
    return {"evaluations": counters.get(main, 0), "nontrivial": sorted(set(nt)), "counters": {"e2e": dict(counters, violations_by_key=seen)},
            "coverage": {"e2e": {"%s/%s" % (case, backend): 1}}, "violations": out, "samples": [], "inconclusive": inc}


def run(coro_fn, *a, timeout=900, **k):
    async def main():
        return await asyncio.wait_for(coro_fn(*a, **k), timeout)

    try:
        return asyncio.run(main())
    except asyncio.TimeoutError:
        return [], [], ["e2e: watchdog (%d s) fired in %s" % (timeout, coro_fn.__name__)]
    except e2e.E2EError as e:
        return [], [], ["e2e: %s" % str(e)[:400]]


# ---------------------------------------------------------------------------------------------------
# C16: dynamic allow list enforced by EVERY worker process and from the first connection after a (re)start
# ---------------------------------------------------------------------------------------------------
async def c16_case(backend, workers, seed, counters):
    r = random.Random(seed)
    viols, nontrivial, inconcl = [], [], []
    owner, member, outsider = (ref.key_from_seed("e2e-c16-%s" % n) for n in ("owner", "member", "outsider"))
    srv = e2e.Server(backend=backend, workers=workers, overrides={
        "dynamic_lists": {"check_interval": 7200, "allow_list_queries": [{"kinds": [3], "authors": [owner.pk]}]}},
        storage_opts={"validators": ["nostr_relay.validators.is_signed", "nostr_relay.dynamic_lists.is_pubkey_allowed"]})
    rp = {"mode": "e2e", "e2e": "c16", "backend": backend, "workers": workers, "seed": seed}
    now = int(time.time())
    # the list itself is stored before any list exists (nothing is enforced then)
    srv.seed([ref.make_event(owner, kind=3, created_at=now - 100, tags=[["p", member.pk], ["p", owner.pk]], content="")])
    n = [0]
    conns = []

    def V(key_, msg):
        viols.append({"key": "e2e/%s/%s" % (backend, key_), "msg": "[e2e %s, %d worker process(es)] %s" % (backend, workers, msg), "replay": rp})

    async def submit(c, key):
        n[0] += 1
        ev = ref.make_event(key, kind=1, created_at=now, tags=[], content="c16 e2e %d %d" % (seed, n[0]))
        n0 = await c.send(["EVENT", ev])
        fr = await c.wait_for(lambda fr: [m for m in fr if isinstance(m, list) and m[:1] == ["OK"]], timeout=30, since=n0)
        return (fr[-1][2] if fr else None), ev

    async def first_contact(phase):
        """the very first connection a (re)started server serves: the list is in force already"""
        c = await e2e.Client(srv, "first-" + phase).connect(timeout=30)
        conns.append(c)
        ok, ev = await submit(c, outsider)
        bump(counters, "e2e_first_contacts")
        nontrivial.append(h(["e2e-c16", backend, workers, "first-contact", phase]))
        if ok is True:
            V("allow-list/not-in-force-at-first-connection/" + phase, "%s: the first EVENT served, from a pubkey that is not on the stored allow list, was accepted" % phase)
        elif ok is None:
            inconcl.append("e2e c16: no answer to the first EVENT after %s" % phase)

    try:
        srv.start()
        await first_contact("start")
        # every worker process enforces the list
        subs = await spread(srv, "w", 2, 40)
        conns.extend(subs)
        byw = {}
        for c in subs:
            byw.setdefault(c.worker, []).append(c)
        counters["e2e_workers_checked"] = max(counters.get("e2e_workers_checked", 0), len([w for w in byw if w]))
        if workers > 1 and len([w for w in byw if w is not None]) < 2:
            inconcl.append("e2e c16: all connections landed on one worker process")
        for w, cs in byw.items():
            c = cs[0]
            ok_m, _ = await submit(c, member)
            ok_o, ev = await submit(c, outsider)
            bump(counters, "e2e_allow_list_decisions", 2)
            nontrivial.append(h(["e2e-c16", backend, workers, "per-worker"]))
            if ok_o is True:
                V("allow-list/not-enforced-by-a-worker", "worker process %s accepted an EVENT of a pubkey that is not on the allow list (%d p-tagged keys stored)" % (w, 2))
            if ok_m is not True:
                V("allow-list/listed-key-refused", "worker process %s refused an EVENT of a listed pubkey (%r)" % (w, ok_m))
        for c in conns:
            await c.close()
        del conns[:]
        # orderly restart on the same database
        srv.stop()
        srv.start()
        await first_contact("restart")
        # a worker dies and gunicorn forks a new one
        if srv.mode == "gunicorn":
            pids = srv.worker_pids()
            for pid in pids:
                os.kill(pid, signal.SIGKILL)
            t0 = time.time()
            while time.time() - t0 < 30:
                new = srv.worker_pids()
                if len(new) >= workers and not set(new) & set(pids):
                    break
                await asyncio.sleep(0.05)
            await first_contact("worker-respawn")
    finally:
        for c in conns:
            await c.close()
        srv.stop()
    return viols, nontrivial, inconcl


# ---------------------------------------------------------------------------------------------------
# C14: roles and the output validator across worker processes
# ---------------------------------------------------------------------------------------------------
async def c14_case(backend, workers, seed, counters):
    r = random.Random(seed)
    viols, nontrivial, inconcl = [], [], []
    service = ref.key_from_seed("service")
    p1, p2 = ref.key_from_seed("e2e-c14-p1"), ref.key_from_seed("e2e-c14-p2")
    srv = e2e.Server(backend=backend, workers=workers, overrides={
        "authentication": {"enabled": True, "actions": {"save": "w", "query": "a"}},
        "service_privatekey": service.sk_hex, "output_validator": "vf.ov.check"})
    url = "ws://127.0.0.1:%d/" % srv.port
    srv.cfg["authentication"]["relay_urls"] = [url]
    import yaml

    with open(srv.conf, "w") as fp:
        yaml.safe_dump(srv.cfg, fp)
    rp = {"mode": "e2e", "e2e": "c14", "backend": backend, "workers": workers, "seed": seed}
    conns = []
    n = [0]

    def V(key_, msg):
        viols.append({"key": "e2e/%s/%s" % (backend, key_), "msg": "[e2e %s, %d worker processes] %s" % (backend, workers, msg), "replay": rp})

    import websockets

    async def login(c, key):
        ch = next((m[1] for _, m in c.parsed() if isinstance(m, list) and m[:1] == ["AUTH"]), None)
        try:
            await c.send(["AUTH", ref.make_event(key, kind=22242, created_at=int(time.time()), tags=[["relay", url], ["challenge", ch]], content="")])
        except websockets.exceptions.ConnectionClosed:
            return
        await asyncio.sleep(0.3)

    async def can_save(c, key, content=None):
        """True / False as the OK frame says; False also when the relay has closed the connection"""
        n[0] += 1
        ev = ref.make_event(key, kind=1, created_at=int(time.time()), tags=[["t", "c14"]], content=content or "c14 e2e %d %d" % (seed, n[0]))
        try:
            n0 = await c.send(["EVENT", ev])
        except websockets.exceptions.ConnectionClosed:
            bump(counters, "e2e_connections_closed_by_relay")
            return False, ev
        fr = await c.wait_for(lambda fr: [m for m in fr if isinstance(m, list) and m[:1] == ["OK"]], timeout=30, since=n0)
        if not fr and c.closed is not None:
            bump(counters, "e2e_connections_closed_by_relay")
            return False, ev
        return (fr[-1][2] if fr else None), ev

    async def fresh(prefix, per_worker=1, cap=30):
        async def setup(c):
            if not await c.wait_for(lambda fr: any(isinstance(m, list) and m[:1] == ["AUTH"] for m in fr), timeout=20):
                raise e2e_inconclusive("no AUTH challenge on a fresh connection")
        cs = await spread(srv, prefix, per_worker, cap, setup)
        conns.extend(cs)
        return cs

    try:
        srv.set_roles({p1.pk: "w", p2.pk: "w"})
        srv.start()
        # ---- (1) role assignments read back as LAST set, on every worker, however they were made --------
        steps = [("admin-process", "r"), ("admin-process", "w"), ("admin-process", "")]
        if backend == "lmdb":
            # on LMDB an assignment is an event of the relay's service key; it can also arrive through a worker
            steps = [("via-a-worker", "r"), ("via-another-worker", "w"), ("admin-process", "r"), ("via-a-worker", "w"), ("via-another-worker", "r")]
        last_worker = None
        for how, roles in steps:
            cs = await fresh("r%d-" % n[0], 2)
            byw = {}
            for c in cs:
                byw.setdefault(c.worker, []).append(c)
            if workers > 1 and len([w for w in byw if w is not None]) < 2:
                inconcl.append("e2e c14: all connections landed on one worker process")
                break
            # everybody logs in BEFORE the change (a worker that remembers what it saw is warmed up), half of them again after it
            for c in cs[::2]:
                await login(c, p1)
            await asyncio.sleep(1.2)  # assignments are ordered by their (whole second) timestamps
            if how == "admin-process":
                srv.set_roles({p1.pk: roles})
            else:
                ws = [w for w in byw if w != last_worker] if how == "via-another-worker" else list(byw)
                w = r.choice(ws or list(byw))
                last_worker = w
                n[0] += 1
                role_ev = ref.make_event(service, kind=31494, created_at=int(time.time()), tags=[["t", "auth"], ["d", "auth:%s" % p1.pk], ["p", p1.pk]], content=roles)
                carrier = byw[w][-1]
                await login(carrier, service)
                n0 = await carrier.send(["EVENT", role_ev])
                await carrier.wait_for(lambda fr: [m for m in fr if isinstance(m, list) and m[:1] == ["OK"]], timeout=30, since=n0)
            await asyncio.sleep(1.0)
            for c in cs:
                if backend == "lmdb" and how != "admin-process" and c is byw[last_worker][-1]:
                    continue
                await login(c, p1)
                ok, ev = await can_save(c, p1)
                bump(counters, "e2e_role_readbacks")
                nontrivial.append(h(["e2e-c14", backend, how, roles, c.worker == last_worker]))
                want = "w" in roles
                if ok is None:
                    inconcl.append("e2e c14: no OK for an EVENT after AUTH")
                elif bool(ok) != want:
                    V("roles/readback-differs-between-workers/%s" % how,
                      "roles of a key were set to %r (%s); a connection on worker %s that authenticated afterwards %s save (OK=%s)"
                      % (roles, how, c.worker, "may" if ok else "may not", ok))
            for c in cs:
                await c.close()
        # ---- (2) the output validator also guards pushes that come from another worker -------------------
        await asyncio.sleep(1.2)
        srv.set_roles({p1.pk: "w"})
        subs = await fresh("s", 2)
        for c in subs:
            await c.send(["REQ", "s", {"kinds": [1], "#t": ["c14"]}])
            await c.wait_for(lambda fr: any(isinstance(m, list) and m[:1] == ["EOSE"] for m in fr), timeout=30)
        pubs = await fresh("p", 1, 16)
        await asyncio.sleep(3.0)
        sent = []
        for c in pubs:
            await login(c, p1)
            for content in ("visible %d" % n[0], "deny-output %d" % n[0], "visible again %d" % n[0]):
                ok, ev = await can_save(c, p1, content + " w%s" % c.worker)
                if ok is True:
                    sent.append((ev, c))
        await e2e.settle(conns, quiet=1.5, timeout=60)
        for ev, pc in sent:
            denied = "deny-output" in ev["content"]
            for c in subs:
                got = sum(1 for _, m in event_frames(c, "s") if isinstance(m[2], dict) and m[2].get("id") == ev["id"])
                cross = pc.worker != c.worker
                bump(counters, "e2e_output_validator_pairs")
                if cross:
                    bump(counters, "e2e_output_validator_cross_worker_pairs")
                nontrivial.append(h(["e2e-c14", backend, "ov", denied, cross]))
                if denied and got:
                    V("sent-without-output-validator/live/%s" % ("other-worker" if cross else "same-worker"),
                      "an event the configured output validator refuses was pushed to a subscriber on worker %s (published on worker %s)" % (c.worker, pc.worker))
                if not denied and got != 1:
                    V("output-validator/approved-event-%s/%s" % ("lost" if got == 0 else "duplicated", "other-worker" if cross else "same-worker"),
                      "an event the output validator approves was pushed %d times to a subscriber on worker %s (published on worker %s)" % (got, c.worker, pc.worker))
    except e2e_inconclusive as e:
        inconcl.append("e2e: %s" % e)
    finally:
        for c in conns:
            await c.close()
        srv.stop()
    return viols, nontrivial, inconcl


# ---------------------------------------------------------------------------------------------------
# C17: the periodic collector of a multi-worker server, and what an orderly restart leaves alone
# ---------------------------------------------------------------------------------------------------
async def c17_case(backend, workers, seed, counters):
    r = random.Random(seed)
    viols, nontrivial, inconcl = [], [], []
    srv = e2e.Server(backend=backend, workers=workers, overrides={"garbage_collector": {"collect_interval": 2}})
    rp = {"mode": "e2e", "e2e": "c17", "backend": backend, "workers": workers, "seed": seed}
    key = ref.key_from_seed("e2e-c17")
    conns = []

    def V(key_, msg):
        viols.append({"key": "e2e/%s/%s" % (backend, key_), "msg": "[e2e %s, %d worker process(es)] %s" % (backend, workers, msg), "replay": rp})

    async def stored_ids(c, ids):
        n0 = await c.send(["REQ", "q%d" % Seq_n(), {"ids": ids}])
        sid = json.loads(c_last_sent[0])[1]
        await c.wait_for(lambda fr: any(isinstance(m, list) and m[:2] == ["EOSE", sid] for m in fr), timeout=30, since=n0)
        return {m[2].get("id") for _, m in event_frames(c, sid)}

    c_last_sent = [None]
    seqn = [0]

    def Seq_n():
        seqn[0] += 1
        return seqn[0]

    try:
        srv.start()
        pubs = await spread(srv, "p", 1, 24)
        conns.extend(pubs)
        byw = {}
        for c in pubs:
            byw.setdefault(c.worker, c)
        if workers > 1 and len(byw) < 2:
            inconcl.append("e2e c17: all connections landed on one worker process")
        for c in pubs:
            orig_send = c.send

            async def send(obj, _o=orig_send):
                c_last_sent[0] = json.dumps(obj)
                return await _o(obj)
            c.send = send
        # the collector runs in ONE elected worker (the one that also hosts the notify server); events stored through the
        # OTHER workers come first, each worker's round is judged before the next one stores anything, and the first
        # round starts after a pass over the empty store
        main_pid = e2e.listener_pid(srv.nport, srv.worker_pids()) if workers > 1 else None
        counters["e2e_main_worker_identified"] = counters.get("e2e_main_worker_identified", 0) + (1 if main_pid else 0)
        order = sorted(byw.items(), key=lambda kv: kv[0] == main_pid)
        await asyncio.sleep(3.0)
        plan_ = []
        q = pubs[0]
        for wi, (w, c) in enumerate(order):
            now = int(time.time())
            round_ = []
            for label, kind, tags, must_go in (
                ("ephemeral", 20001, [], True), ("ephemeral-top", 29999, [], True), ("expired", 1, [["expiration", str(now - 50)]], True),
                ("expires-later", 1, [["expiration", str(now + 3600)]], False), ("plain", 1, [], False), ("kind-30000", 30000, [["d", "w%s" % w]], False),
                ("kind-19999", 19999, [], False), ("malformed-expiration", 1, [["expiration", "soon"]], False), ("expires-soon", 1, [["expiration", str(now + 3)]], True),
            ):
                if wi == 0 and label == "expires-later":
                    continue  # nothing that expires later is stored before the first round was judged
                # a key per worker: the replaceable kinds of one worker must not supersede those of another
                ev = ref.make_event(ref.key_from_seed("e2e-c17-w%d" % wi), kind=kind, created_at=now - 10, tags=tags,
                                    content="c17 e2e %s w%s %d" % (label, w, seed))
                n0 = await c.send(["EVENT", ev])
                fr = await c.wait_for(lambda fr: [m for m in fr if isinstance(m, list) and m[:2] == ["OK", ev["id"]]], timeout=30, since=n0 - 1)
                if fr and fr[-1][2] is True:
                    round_.append((label, ev, must_go, w))
            # several passes of the 2 s collector
            await asyncio.sleep(8.0)
            if backend == "lmdb":
                round_ = [p for p in round_ if not p[0].startswith("ephemeral")]  # never stored there
            got = await stored_ids(q, [ev["id"] for _, ev, _, _ in round_])
            for _retry in range(3):
                if not any(must_go and ev["id"] in got for _, ev, must_go, _ in round_):
                    break
                # a loaded machine may run the 2 s collector late: look again before calling it a survivor
                await asyncio.sleep(4.0)
                got = await stored_ids(q, [ev["id"] for _, ev, _, _ in round_])
                bump(counters, "e2e_collector_rechecks")
            for label, ev, must_go, w in round_:
                bump(counters, "e2e_collector_judgements")
                role = "the-collecting-worker" if w == main_pid else ("another-worker" if main_pid else "a-worker")
                nontrivial.append(h(["e2e-c17", backend, label, role]))
                if must_go and ev["id"] in got:
                    V("survived/%s/stored-through-%s" % (label, role),
                      "%s event stored through worker %s is still returned after several collector passes (interval 2 s, 20 s waited in all; the collector runs in worker %s)" % (label, w, main_pid))
                if not must_go and ev["id"] not in got:
                    V("removed/%s" % label, "%s event stored through worker %s is gone after collector passes" % (label, w))
            plan_.extend(round_)
        # an orderly restart collects nothing by itself and loses nothing
        keep = [(label, ev) for label, ev, must_go, w in plan_ if not must_go]
        for c in conns:
            await c.close()
        del conns[:]
        srv.stop()
        srv.start()
        q = await e2e.Client(srv, "q2").connect()
        conns.append(q)
        orig_send = q.send

        async def send2(obj, _o=orig_send):
            c_last_sent[0] = json.dumps(obj)
            return await _o(obj)
        q.send = send2
        got = await stored_ids(q, [ev["id"] for _, ev in keep])
        for label, ev in keep:
            bump(counters, "e2e_restart_survivors_checked")
            if ev["id"] not in got:
                V("removed-by-restart/%s" % label, "%s event (not collectable) is gone after an orderly shutdown and restart" % label)
    finally:
        for c in conns:
            await c.close()
        srv.stop()
    return viols, nontrivial, inconcl


# ---------------------------------------------------------------------------------------------------
# C13: CLOSE / replacement end delivery also for events that come from another worker, and on a
# connection the relay is slowing down
# ---------------------------------------------------------------------------------------------------
async def c13_case(backend, workers, seed, counters, cycles=120):
    r = random.Random(seed)
    viols, nontrivial, inconcl = [], [], []
    srv = e2e.Server(backend=backend, workers=workers, overrides={"subscription_limit": 64})
    rp = {"mode": "e2e", "e2e": "c13", "backend": backend, "workers": workers, "seed": seed}
    key = ref.key_from_seed("e2e-c13")
    conns = []

    def V(key_, msg):
        viols.append({"key": "e2e/%s/%s" % (backend, key_), "msg": "[e2e %s, %d worker process(es)] %s" % (backend, workers, msg), "replay": rp})

    def late_events(c, sid, marker_pred):
        """EVENT frames for `sid` that arrive AFTER the frame proving that the command following CLOSE/replacement was
        processed (one connection's commands are handled in order)"""
        seen_marker = False
        late = []
        for n, m in c.parsed():
            if not isinstance(m, list):
                continue
            if not seen_marker and marker_pred(m):
                seen_marker = True
            elif seen_marker and m[:2] == ["EVENT", sid]:
                late.append(m)
        return seen_marker, late

    try:
        srv.start()
        peers = await spread(srv, "c", 1, 24)
        conns.extend(peers)
        byw = {}
        for c in peers:
            byw.setdefault(c.worker, c)
        listener = peers[0]
        others = [c for w, c in byw.items() if w != listener.worker]
        if workers > 1 and not others:
            inconcl.append("e2e c13: all connections landed on one worker process")
            return viols, nontrivial, inconcl
        publisher = others[0] if others else peers[-1]
        await asyncio.sleep(3.0)
        # ---- (1) a stream of events accepted by ANOTHER worker while the listener opens and closes subscriptions
        stop = asyncio.Event()
        npub = [0]

        async def stream():
            while not stop.is_set():
                npub[0] += 1
                ev = ref.make_event(key, kind=1, created_at=T0 + npub[0], tags=[["t", "flow"]], content="c13 e2e %d %d" % (seed, npub[0]))
                await publisher.send(["EVENT", ev])
                await asyncio.sleep(0.004)

        st = asyncio.create_task(stream())
        try:
            for i in range(cycles):
                sid = "s%d" % i
                await listener.send(["REQ", sid, {"kinds": [1], "#t": ["flow"], "limit": 3}])
                await asyncio.sleep(r.choice([0.0, 0.005, 0.02, 0.05]))
                if i % 3 == 2:
                    # replacement by a filter that matches nothing of the stream, then the marker
                    await listener.send(["REQ", sid, {"kinds": [7], "#t": ["nothing"]}])
                else:
                    await listener.send(["CLOSE", sid])
                # the marker: its EOSE proves that everything sent before it was processed (one connection's commands are handled in order)
                await listener.send(["REQ", "m%d" % i, {"kinds": [9999], "limit": 0}])
                if i >= 24:
                    await listener.send(["CLOSE", "m%d" % (i - 24)])  # long answered by now
                if i % 3 == 2:
                    await listener.send(["CLOSE", sid])
                await asyncio.sleep(r.choice([0.0, 0.01, 0.03]))
        finally:
            stop.set()
            await st
        await e2e.settle(conns, quiet=1.0, timeout=60)
        # attribute: frames are in arrival order; the i-th NOTICE closes cycle i
        frames = [m for _, m in listener.parsed() if isinstance(m, list)]
        notices = 0
        closed_ids = set()
        live_total = 0
        for m in frames:
            if m[:1] == ["EOSE"] and str(m[1]).startswith("m"):
                closed_ids.add("s" + m[1][1:])
                notices += 1
            elif m[:1] == ["EVENT"]:
                live_total += 1
                if m[1] in closed_ids:
                    bump(counters, "e2e_late_frames")
                    V("event-after-%s/from-another-worker" % ("replaced" if int(m[1][1:]) % 3 == 2 else "closed"),
                      "an EVENT frame for subscription %s arrived after the EOSE of the marker REQ that proves its %s had been processed (events were being accepted by worker %s, the listener is on worker %s)"
                      % (m[1], "replacement" if int(m[1][1:]) % 3 == 2 else "CLOSE", publisher.worker, listener.worker))
                    break
        bump(counters, "e2e_close_cycles", notices)
        bump(counters, "e2e_frames_during_cycles", live_total)
        bump(counters, "e2e_events_streamed", npub[0])
        nontrivial.append(h(["e2e-c13", backend, workers, "cycles", live_total > 0]))
        if notices < cycles * 0.8:
            # (a marker closed before its own query got its turn owes no EOSE: those cycles are simply not judged)
            inconcl.append("e2e c13: %d of %d marker EOSEs seen" % (notices, cycles))
        # ---- (2) a connection the relay slows down (real 2 s sleeps after a refused EVENT): CLOSE still ends delivery
        t = await e2e.Client(srv, "throttled").connect()
        conns.append(t)
        bad = ref.make_event(key, kind=1, created_at=T0, tags=[], content="bad sig")
        bad["sig"] = bad["sig"][:-2] + ("00" if bad["sig"][-2:] != "00" else "11")
        n0 = await t.send(["EVENT", bad])
        await t.wait_for(lambda fr: [m for m in fr if isinstance(m, list) and m[:1] == ["OK"]], timeout=30, since=n0)
        await t.send(["REQ", "slow", {"kinds": [1], "#t": ["flow"], "limit": 5}])
        await asyncio.sleep(0.7)
        await t.send(["CLOSE", "slow"])
        # the marker here is a REQ the relay REFUSES: its NOTICE is written by the connection handler itself (not by the
        # sender task, whose queue the CLOSE has just purged), after the CLOSE before it was processed
        await t.send(["REQ", "mark", {"#e": [["unhashable"]]}])
        await t.wait_for(lambda fr: [m for m in fr if isinstance(m, list) and m[:1] == ["NOTICE"]], timeout=30)
        await asyncio.sleep(6.0)
        seen, late = late_events(t, "slow", lambda m: m[:1] == ["NOTICE"])
        bump(counters, "e2e_throttled_close_checks")
        nontrivial.append(h(["e2e-c13", backend, "throttled"]))
        if not seen:
            inconcl.append("e2e c13: the throttled connection got no NOTICE for the refused marker REQ")
        elif late:
            V("event-after-closed/throttled-connection", "on a connection the relay was slowing down, %d EVENT frame(s) for a closed subscription arrived after the NOTICE (for a refused REQ sent behind the CLOSE) that proves the CLOSE had been processed" % len(late))
    finally:
        for c in conns:
            await c.close()
        srv.stop()
    return viols, nontrivial, inconcl


# ---------------------------------------------------------------------------------------------------
# C06: what one worker removed is not "a duplicate" for another worker
# ---------------------------------------------------------------------------------------------------
async def crossworker_case(backend, workers, seed, counters):
    r = random.Random(seed)
    viols, nontrivial, inconcl = [], [], []
    srv = e2e.Server(backend=backend, workers=workers, overrides={"garbage_collector": {"collect_interval": 2}})
    rp = {"mode": "e2e", "e2e": "crossworker", "backend": backend, "workers": workers, "seed": seed}
    key = ref.key_from_seed("e2e-c06x")
    conns = []

    def V(key_, msg):
        viols.append({"key": "e2e/%s/%s" % (backend, key_), "msg": "[e2e %s, %d worker processes] %s" % (backend, workers, msg), "replay": rp})

    async def submit(c, ev):
        n0 = await c.send(["EVENT", ev])
        fr = await c.wait_for(lambda fr: [m for m in fr if isinstance(m, list) and m[:1] == ["OK"]], timeout=30, since=n0)
        return fr[-1] if fr else None

    async def stored(c, eid):
        sid = "q%d" % Seq_n()
        n0 = await c.send(["REQ", sid, {"ids": [eid]}])
        await c.wait_for(lambda fr: any(isinstance(m, list) and m[:2] == ["EOSE", sid] for m in fr), timeout=30, since=n0)
        return any(True for _ in event_frames(c, sid))

    seqn = [0]

    def Seq_n():
        seqn[0] += 1
        return seqn[0]

    try:
        srv.start()
        peers = await spread(srv, "c", 1, 24)
        conns.extend(peers)
        byw = {}
        for c in peers:
            byw.setdefault(c.worker, c)
        if len(byw) < 2:
            inconcl.append("e2e crossworker: all connections landed on one worker process")
            return viols, nontrivial, inconcl
        (w1, c1), (w2, c2) = list(byw.items())[:2]
        now = int(time.time())
        scen = []
        # stored through W1, removed through W2 (author's deletion / a newer version), offered to W1 again
        x = ref.make_event(key, kind=1, created_at=now - 100, tags=[["t", "x"]], content="crossworker deleted %d" % seed)
        scen.append(("deleted-through-another-worker", x, ref.make_event(key, kind=5, created_at=now - 50, tags=[["e", x["id"]]], content="del")))
        y = ref.make_event(key, kind=10002, created_at=now - 100, tags=[["r", "wss://a"]], content="crossworker superseded %d" % seed)
        scen.append(("superseded-through-another-worker", y, ref.make_event(key, kind=10002, created_at=now - 50, tags=[["r", "wss://b"]], content="newer")))
        for label, first, remover in scen:
            a = await submit(c1, first)
            b = await submit(c2, remover)
            await asyncio.sleep(0.5)
            if not (a and a[2] is True and b and b[2] is True):
                inconcl.append("e2e crossworker: set-up submissions of %s were not accepted (%r, %r)" % (label, a, b))
                continue
            gone = not await stored(c1, first["id"])
            again = await submit(c1, first)
            await asyncio.sleep(0.5)
            back = await stored(c2, first["id"])
            bump(counters, "e2e_crossworker_resubmissions")
            nontrivial.append(h(["e2e-crossworker", backend, label]))
            if label.startswith("deleted") and gone:
                # a deleted event may be offered again (the relay keeps no tombstones): it is either stored again or refused
                # with a reason - but never "a duplicate" of something that is in no store
                if again and again[2] is False and str(again[3]).startswith("duplicate") and not back:
                    V("refused-as-duplicate-but-not-stored/" + label, "event %s stored through worker %s and deleted by its author through worker %s was refused by worker %s as %r although no worker returns it"
                      % (first["id"][:12], w1, w2, w1, again[3]))
                if again and again[2] is True and not back:
                    V("ok-true/not-retrievable/" + label, "event %s resubmitted to worker %s was acknowledged but is not returned by worker %s" % (first["id"][:12], w1, w2))
            if label.startswith("superseded") and gone:
                # an older version of a replaceable address: OK true (already superseded) or a refusal with a reason are both fine,
                # "duplicate" is not - nothing with this id is stored
                if again and again[2] is False and str(again[3]).startswith("duplicate"):
                    V("refused-as-duplicate-but-not-stored/" + label, "the superseded version %s (removed through worker %s) was refused by worker %s as %r although it is in no store"
                      % (first["id"][:12], w2, w1, again[3]))
    finally:
        for c in conns:
            await c.close()
        srv.stop()
    return viols, nontrivial, inconcl


# ---------------------------------------------------------------------------------------------------
# C10: the LMDB keyspace after several worker PROCESSES wrote to one environment at the same time
# ---------------------------------------------------------------------------------------------------
async def c10_case(workers, seed, counters, nevents=150):
    from .checks import c10
    from . import dump

    r = random.Random(seed)
    viols, nontrivial, inconcl = [], [], []
    srv = e2e.Server(backend="lmdb", workers=workers, overrides={"garbage_collector": {"collect_interval": 2}})
    rp = {"mode": "e2e", "e2e": "c10", "backend": "lmdb", "workers": workers, "seed": seed}
    keys = [ref.key_from_seed("e2e-c10-%d" % i) for i in range(3)]
    conns = []
    try:
        srv.start()
        pubs = await spread(srv, "p", 1, 24)
        conns.extend(pubs)
        byw = {}
        for c in pubs:
            byw.setdefault(c.worker, c)
        if len(byw) < min(2, workers):
            inconcl.append("e2e c10: all connections landed on one worker process")
        writers = list(byw.values())
        now = int(time.time())
        sent = []
        # the SAME addresses are updated through different workers at the same time, events are deleted by their
        # authors through another worker than the one that stored them, some expire while the collector runs
        for i in range(nevents):
            k = r.choice(keys)
            roll = r.random()
            if roll < 0.35:
                ev = ref.make_event(k, kind=r.choice([10002, 0, 3]), created_at=now - 500 + i, tags=[["r", "wss://%d" % i], ["t", "x"]], content="c10 repl %d" % i)
            elif roll < 0.6:
                ev = ref.make_event(k, kind=30000, created_at=now - 500 + i, tags=[["d", r.choice(["a", "ab", ""])], ["t", r.choice(["a", "ab"])], ["t", "a"], ["p", keys[0].pk]], content="c10 param %d" % i)
            elif roll < 0.75 and sent:
                tgt = r.choice(sent)
                ev = ref.make_event(next(x for x in keys if x.pk == tgt["pubkey"]), kind=5, created_at=now - 400 + i, tags=[["e", tgt["id"]], ["e", r.choice(sent)["id"]]], content="c10 del %d" % i)
            elif roll < 0.85:
                ev = ref.make_event(k, kind=1, created_at=now - 500 + i, tags=[["expiration", str(now + r.choice([-5, 2, 4, 3600]))], ["t", "q" * r.choice([1, 300])]], content="c10 exp %d" % i)
            else:
                ev = ref.make_event(k, kind=1, created_at=now - 500 + i, tags=[["t", r.choice(["a", "a\x00b", "é"])], ["e", "00" * 32], ["t", "a"]], content="c10 reg %d" % i)
            sent.append(ev)
            await r.choice(writers).send(["EVENT", ev])
            if i % 25 == 24:
                await asyncio.sleep(0.3)
        await e2e.settle(conns, quiet=1.5, timeout=90)
        await asyncio.sleep(5.0)  # collector passes and the writer threads of every process
        for c in conns:
            await c.close()
        del conns[:]
        srv.stop()
        # start once more on the files (whatever start-up does to an environment that already holds events), stop again
        srv.start()
        await asyncio.sleep(1.0)
        srv.stop()
        bump(counters, "e2e_restarts_before_walk")
        d = dump.dump_lmdb(os.path.join(srv.dir, "lmdb"))
        problems = c10.check_keyspace(d)
        bump(counters, "e2e_keyspaces_walked")
        counters["e2e_writer_processes"] = max(counters.get("e2e_writer_processes", 0), len(byw))
        bump(counters, "e2e_records_checked", len(d["events"]))
        bump(counters, "e2e_keys_checked", len(d["keys"]))
        nontrivial.append(h(["e2e-c10", workers, len(byw)]))
        for kind, msg in problems[:5]:
            viols.append({"key": "e2e/lmdb/%s/%d-writer-processes" % (kind, len(byw)),
                          "msg": "[e2e lmdb, %d worker processes writing to one environment] after %d events (replacements of the same addresses, deletions and expirations through different workers): %s"
                                 % (workers, nevents, msg), "replay": rp})
    finally:
        for c in conns:
            await c.close()
        srv.stop()
    return viols, nontrivial, inconcl


# ---------------------------------------------------------------------------------------------------
# C08 / C09: what one worker deleted or superseded is served by no worker any more (REQ and HTTP)
# ---------------------------------------------------------------------------------------------------
async def c08_case(backend, workers, seed, counters):
    r = random.Random(seed)
    viols, nontrivial, inconcl = [], [], []
    srv = e2e.Server(backend=backend, workers=workers)
    rp = {"mode": "e2e", "e2e": "c08", "backend": backend, "workers": workers, "seed": seed}
    alice, bob = ref.key_from_seed("e2e-c08-alice"), ref.key_from_seed("e2e-c08-bob")
    conns = []
    seqn = [0]

    def V(key_, msg):
        viols.append({"key": "e2e/%s/%s" % (backend, key_), "msg": "[e2e %s, %d worker processes] %s" % (backend, workers, msg), "replay": rp,
                      "prop": "C09" if key_.startswith("superseded") else "C08"})

    async def submit(c, ev):
        n0 = await c.send(["EVENT", ev])
        fr = await c.wait_for(lambda fr: [m for m in fr if isinstance(m, list) and m[:1] == ["OK"]], timeout=30, since=n0)
        return bool(fr and fr[-1][2] is True)

    async def served(c, ids):
        seqn[0] += 1
        sid = "q%d" % seqn[0]
        n0 = await c.send(["REQ", sid, {"ids": ids}])
        await c.wait_for(lambda fr: any(isinstance(m, list) and m[:2] == ["EOSE", sid] for m in fr), timeout=30, since=n0)
        await c.send(["CLOSE", sid])
        return {m[2].get("id") for _, m in event_frames(c, sid)}

    def http_all(eid, n=8):
        """GET /e/<id> several times (the kernel spreads the requests over the workers): set of status codes"""
        out = set()
        for _ in range(n):
            try:
                out.add(srv.http_get("/e/" + eid)[0])
            except Exception as e:
                out.add(type(e).__name__)
        return out

    try:
        srv.start()
        peers = await spread(srv, "c", 1, 24)
        conns.extend(peers)
        byw = {}
        for c in peers:
            byw.setdefault(c.worker, c)
        if len(byw) < 2 and workers > 1:
            inconcl.append("e2e c08: all connections landed on one worker process")
        ws = list(byw.values())
        now = int(time.time())
        mine = [ref.make_event(alice, kind=1, created_at=now - 100 + i, tags=[["t", "x"]], content="alice %d %d" % (seed, i)) for i in range(4)]
        theirs = [ref.make_event(bob, kind=1, created_at=now - 100 + i, tags=[["t", "x"]], content="bob %d %d" % (seed, i)) for i in range(3)]
        old_v = ref.make_event(alice, kind=10002, created_at=now - 90, tags=[["r", "wss://old"]], content="old version")
        for i, ev in enumerate(mine + theirs + [old_v]):
            await submit(ws[i % len(ws)], ev)
        # everybody has looked at everything before (whatever a worker may remember, it has seen it)
        for c in ws:
            await served(c, [e["id"] for e in mine + theirs + [old_v]])
        for ev in mine + theirs + [old_v]:
            http_all(ev["id"], 4)
        # alice deletes two of her own and tries one of bob's, through ONE worker; a newer version supersedes old_v through another
        deletion = ref.make_event(alice, kind=5, created_at=now - 10, tags=[["e", mine[0]["id"]], ["e", mine[1]["id"]], ["e", theirs[0]["id"]]], content="del")
        new_v = ref.make_event(alice, kind=10002, created_at=now - 20, tags=[["r", "wss://new"]], content="new version")
        ok_d = await submit(ws[0], deletion)
        ok_n = await submit(ws[-1], new_v)
        await asyncio.sleep(1.5)
        if not (ok_d and ok_n):
            inconcl.append("e2e c08: the deletion / the newer version was not accepted")
            return viols, nontrivial, inconcl
        gone = [mine[0], mine[1], old_v]
        stay = mine[2:] + theirs + [new_v, deletion]

        async def judge():
            del viols[:]
            for w, c in byw.items():
                got = await served(c, [e["id"] for e in gone + stay])
                bump(counters, "e2e_worker_readbacks")
                nontrivial.append(h(["e2e-c08", backend, c is ws[0]]))
                for e in gone:
                    if e["id"] in got:
                        V(("deleted-still-served/req" if e["kind"] == 1 else "superseded-still-served/req") + ("/other-worker" if c is not ws[0] else "/same-worker"),
                          "worker %s still returns %s although %s through another connection" % (w, "alice's deleted event" if e["kind"] == 1 else "the superseded version", "her deletion was accepted" if e["kind"] == 1 else "a newer version was accepted"))
                for e in stay:
                    if e["id"] not in got:
                        V("foreign-or-unreferenced-removed/req", "worker %s no longer returns event %s (kind %d of %s) that no accepted deletion of its author references" % (w, e["id"][:12], e["kind"], "bob" if e["pubkey"] == bob.pk else "alice"))
            for e in gone:
                st = http_all(e["id"])
                bump(counters, "e2e_http_readbacks")
                if 200 in st:
                    V("deleted-still-served/http" if e["kind"] == 1 else "superseded-still-served/http", "GET /e/%s answered %r after the %s (requests are spread over the worker processes)" % (e["id"][:12], sorted(map(str, st)), "author's deletion" if e["kind"] == 1 else "newer version"))
            for e in stay:
                st = http_all(e["id"], 4)
                if st != {200}:
                    V("foreign-or-unreferenced-removed/http", "GET /e/%s answered %r for an event nothing removed" % (e["id"][:12], sorted(map(str, st))))

        await judge()
        if viols:
            # the LMDB backend acknowledges before its writer thread has applied the event: on a loaded machine that may take a
            # while - look once more, much later, before calling anything still served
            await asyncio.sleep(6.0)
            bump(counters, "e2e_rejudged_after_longer_wait")
            await judge()
    finally:
        for c in conns:
            await c.close()
        srv.stop()
    return viols, nontrivial, inconcl


# ---------------------------------------------------------------------------------------------------
# C18: the limiter on the real accept / command path (real clock: only verdicts that no timing can fake)
# ---------------------------------------------------------------------------------------------------
async def c18_case(backend, seed, counters):
    viols, nontrivial, inconcl = [], [], []
    N_ACC, N_REQ = 6, 3
    srv = e2e.Server(backend=backend, workers=1, overrides={"rate_limits": {"ip": {"ACCEPT": "%d/minute" % N_ACC, "REQ": "%d/minute" % N_REQ}}})
    rp = {"mode": "e2e", "e2e": "c18", "backend": backend, "seed": seed}
    conns = []

    def V(key_, msg):
        viols.append({"key": "e2e/%s" % key_, "msg": "[e2e %s] %s" % (backend, msg), "replay": rp})

    try:
        t0 = time.time()
        srv.start()  # (the readiness probes of the rig are plain TCP connects, not websocket accepts)
        admitted, refused = [], 0
        for i in range(N_ACC + 6):
            try:
                c = await e2e.Client(srv, "a%d" % i).connect(timeout=10)
            except Exception:
                refused += 1
                continue
            conns.append(c)
            # a refused accept shows as an immediate close (1013)
            await asyncio.sleep(0.15)
            if c.closed is not None:
                refused += 1
            else:
                admitted.append(c)
        took = time.time() - t0
        bump(counters, "e2e_accept_decisions", N_ACC + 6)
        nontrivial.append(h(["e2e-c18", backend, "accept"]))
        if took < 50:  # all attempts inside one interval of the rule
            if len(admitted) > N_ACC:
                V("over-admit/ACCEPT", "%d websocket connections from one address were accepted within %.1f s under the rule ACCEPT %d/minute" % (len(admitted), took, N_ACC))
            if len(admitted) < N_ACC:
                V("over-block/ACCEPT", "only %d websocket connections were accepted within %.1f s although the rule allows %d per minute" % (len(admitted), took, N_ACC))
        else:
            inconcl.append("e2e c18: the accept attempts took %.0f s, longer than the rule's interval" % took)
        if admitted:
            c = admitted[0]
            t1 = time.time()
            answered, limited = 0, 0
            for i in range(N_REQ + 3):
                n0 = await c.send(["REQ", "r%d" % i, {"kinds": [1], "limit": 1}])
                fr = await c.wait_for(lambda fr: [m for m in fr if isinstance(m, list) and (m[:2] == ["EOSE", "r%d" % i] or m[:1] == ["NOTICE"])], timeout=40, since=n0)
                if fr and fr[-1][0] == "EOSE":
                    answered += 1
                elif fr:
                    limited += 1
            took = time.time() - t1
            bump(counters, "e2e_command_decisions", N_REQ + 3)
            nontrivial.append(h(["e2e-c18", backend, "req"]))
            if took < 50:
                if answered > N_REQ:
                    V("over-admit/REQ", "%d REQs of one connection were answered within %.1f s under the rule REQ %d/minute" % (answered, took, N_REQ))
                if answered < N_REQ:
                    V("over-block/REQ", "only %d REQs were answered within %.1f s although the rule allows %d per minute (%d refused)" % (answered, took, N_REQ, limited))
            else:
                inconcl.append("e2e c18: the REQs took %.0f s (throttling), longer than the rule's interval" % took)
        for c in conns:
            await c.close()
        del conns[:]
        srv.stop()
        # ---- (2) two worker processes, a relay-wide ("global") rule and a per-second rule, one connection, real time
        N_G, N_S = 4, 3
        srv = e2e.Server(backend=backend, workers=2, overrides={"rate_limits": {"global": {"REQ": "%d/minute" % N_G}, "ip": {"EVENT": "%d/s" % N_S}}})
        srv.start()
        c = await e2e.Client(srv, "one").connect()
        conns.append(c)
        t1 = time.time()
        answered = 0
        for i in range(N_G + 2):
            n0 = await c.send(["REQ", "g%d" % i, {"kinds": [1], "limit": 1}])
            fr = await c.wait_for(lambda fr: [m for m in fr if isinstance(m, list) and (m[:2] == ["EOSE", "g%d" % i] or m[:1] == ["NOTICE"])], timeout=40, since=n0)
            answered += 1 if fr and fr[-1][0] == "EOSE" else 0
            if answered == N_G and i >= N_G:
                break
        took = time.time() - t1
        bump(counters, "e2e_command_decisions", N_G + 1)
        nontrivial.append(h(["e2e-c18", backend, "global-rule-two-workers"]))
        if took < 50 and answered < N_G:
            V("over-block/global-rule/several-workers", "with 2 worker processes and the rule global REQ %d/minute, one connection had only %d REQs answered within %.1f s (nothing else was sent to the relay)" % (N_G, answered, took))
        if took < 50 and answered > N_G:
            V("over-admit/global-rule/one-connection", "one connection had %d REQs answered within %.1f s under global REQ %d/minute" % (answered, took, N_G))
        # a burst beyond a per-second rule, then - after the relay's own delays - a message when the window is long empty
        c2 = await e2e.Client(srv, "two").connect()
        conns.append(c2)
        key = ref.key_from_seed("e2e-c18")
        last_true = None
        oks = []
        for i in range(N_S + 3):
            ev = ref.make_event(key, kind=1, created_at=int(time.time()), tags=[], content="c18 e2e %d %d" % (seed, i))
            n0 = await c2.send(["EVENT", ev])
            fr = await c2.wait_for(lambda fr: [m for m in fr if isinstance(m, list) and m[:1] == ["OK"]], timeout=60, since=n0)
            ok = fr[-1][2] if fr else None
            oks.append(ok)
            if ok is True:
                last_true = time.time()
        await asyncio.sleep(1.5)
        quiet_for = time.time() - (last_true or time.time())
        ev = ref.make_event(key, kind=1, created_at=int(time.time()), tags=[], content="c18 e2e probe %d" % seed)
        n0 = await c2.send(["EVENT", ev])
        fr = await c2.wait_for(lambda fr: [m for m in fr if isinstance(m, list) and m[:1] == ["OK"]], timeout=90, since=n0)
        bump(counters, "e2e_command_decisions", N_S + 4)
        nontrivial.append(h(["e2e-c18", backend, "after-refusals"]))
        if oks.count(False) and quiet_for > 1.2 and fr and fr[-1][2] is False and "rate" in str(fr[-1][3]):
            V("over-block/after-refusals", "after %d refused EVENTs (rule EVENT %d/s) the next EVENT, sent %.1f s after the last admitted one, was refused as %r although no message of that type was let through within the rule's interval" % (oks.count(False), N_S, quiet_for, fr[-1][3]))
    finally:
        for c in conns:
            await c.close()
        srv.stop()
    return viols, nontrivial, inconcl


# ---------------------------------------------------------------------------------------------------
# C01 / C02: the answer to a REQ does not depend on which worker process is asked, nor on a restart
# ---------------------------------------------------------------------------------------------------
async def query_case(backend, workers, seed, counters, nreqs=40):
    r = random.Random(seed)
    viols, nontrivial, inconcl = [], [], []
    srv = e2e.Server(backend=backend, workers=workers)
    rp = {"mode": "e2e", "e2e": "query", "backend": backend, "workers": workers, "seed": seed}
    conns = []
    seqn = [0]

    def V(prop, key_, msg):
        viols.append({"key": "e2e/%s/%s" % (backend, key_), "msg": "[e2e %s, %d worker processes] %s" % (backend, workers, msg), "replay": rp, "prop": prop})

    async def ask(c, filters):
        seqn[0] += 1
        sid = "q%d" % seqn[0]
        n0 = await c.send(["REQ", sid] + filters)
        fr = await c.wait_for(lambda fr: [m for m in fr if isinstance(m, list) and (m[:2] == ["EOSE", sid] or m[:1] == ["NOTICE"])], timeout=40, since=n0)
        await c.send(["CLOSE", sid])
        if not fr or fr[-1][0] != "EOSE":
            return None
        return [m[2] for _, m in event_frames(c, sid)]

    try:
        srv.start()
        peers = await spread(srv, "c", 1, 24)
        conns.extend(peers)
        byw = {}
        for c in peers:
            byw.setdefault(c.worker, c)
        if workers > 1 and len(byw) < 2:
            inconcl.append("e2e query: all connections landed on one worker process")
        ws = list(byw.values())
        u = gen.Universe(seed)
        events = [e for e in u.store(60, hostile=False, history=False) if isinstance(e, dict)]
        accepted = {}
        # every worker has answered queries BEFORE anything is stored (whatever a worker keeps from one query to the next -
        # a snapshot, a plan, a cursor - is in place by then)
        for c in list(byw.values()):
            for f in ({"kinds": [1]}, {"authors": [u.keys[0].pk]}, {"#t": ["a"]}, {"since": 1}):
                await ask(c, [f])
        second_batch = events[45:]
        events = events[:45]
        for i, ev in enumerate(events):
            c = ws[i % len(ws)]
            n0 = await c.send(["EVENT", ev])
            fr = await c.wait_for(lambda fr: [m for m in fr if isinstance(m, list) and m[:1] == ["OK"]], timeout=30, since=n0)
            if fr and fr[-1][2] is True:
                accepted[ev["id"]] = ev
            elif fr and fr[-1][2] is False:
                ws[i % len(ws)] = await connect_placed(srv, "c-again%d" % i)  # the refused one is being slowed down by the relay
                conns.append(ws[i % len(ws)])
        await asyncio.sleep(1.0)
        # what is stored is what the store files say after the writers are through (read through the relay itself: ids)
        pool = list(accepted.values())
        reqs = []
        for _ in range(nreqs):
            n = 1 if r.random() < 0.7 else r.randint(2, 3)
            reqs.append([u.wellformed_filter(pool, max_conds=r.choice([1, 2, 2, 3]), limit=r.choice([None, None, None, 500])) for _ in range(n)])

        async def sweep(label, targets):
            for filters in reqs:
                answers = []
                for c in targets:
                    a = await ask(c, filters)
                    answers.append(a)
                    bump(counters, "e2e_reqs_answered")
                    if a is None:
                        continue
                    ids = [e.get("id") for e in a]
                    for e in a:
                        src = accepted.get(e.get("id"))
                        if src is None or ref.match_any(src, filters) == "NO":
                            V("C01", "unsound/%s" % label, "REQ %s on worker %s returned event %s that %s" % (json.dumps(filters)[:200], c.worker, str(e.get("id"))[:12],
                                                                                                           "was never accepted" if src is None else "matches none of its filters"))
                    for f in filters:
                        must = [i for i, ev in accepted.items() if ref.match3(ev, f) == "MUST"]
                        may = [i for i, ev in accepted.items() if ref.match3(ev, f) != "NO"]
                        if must and len(may) <= f.get("limit", 500):
                            nontrivial.append(h(["e2e-query", backend, label, json.dumps(f, sort_keys=True)]))
                            bump(counters, "e2e_completeness_obligations")
                            # (replaceable kinds superseded / deleted in the store are not owed: the universe here has no history)
                            missing = [i for i in must if i not in ids]
                            if missing:
                                V("C02", "missing/%s" % label, "REQ %s on worker %s did not return stored matching event %s (%d of %d missing)" % (json.dumps(f)[:200], c.worker, missing[0][:12], len(missing), len(must)))
                got = [sorted(e.get("id") for e in a) for a in answers if a is not None]
                if len(got) > 1 and any(g != got[0] for g in got[1:]) and not any("limit" in f for f in filters):
                    V("C02", "workers-disagree/%s" % label, "REQ %s is answered differently by different worker processes (%s)" % (json.dumps(filters)[:200], [len(g) for g in got]))

        await sweep("running", ws)
        # more events through ONE worker only, then everybody is asked again
        for ev in second_batch:
            n0 = await ws[0].send(["EVENT", ev])
            fr = await ws[0].wait_for(lambda fr: [m for m in fr if isinstance(m, list) and m[:1] == ["OK"]], timeout=30, since=n0)
            if fr and fr[-1][2] is True:
                accepted[ev["id"]] = ev
        await asyncio.sleep(1.0)
        await sweep("after-more-events-through-one-worker", ws)
        for c in conns:
            await c.close()
        del conns[:]
        srv.stop()
        srv.start()
        c = await e2e.Client(srv, "after-restart").connect()
        c.worker = None
        conns.append(c)
        await sweep("after-restart", [c])
    finally:
        for c in conns:
            await c.close()
        srv.stop()
    return viols, nontrivial, inconcl


# ---------------------------------------------------------------------------------------------------
# C03: a forgery is refused by every worker, whatever another worker has verified before
# ---------------------------------------------------------------------------------------------------
async def c03_case(backend, workers, seed, counters):
    r = random.Random(seed)
    viols, nontrivial, inconcl = [], [], []
    srv = e2e.Server(backend=backend, workers=workers)
    rp = {"mode": "e2e", "e2e": "c03", "backend": backend, "workers": workers, "seed": seed}
    conns = []
    seqn = [0]

    def V(key_, msg):
        viols.append({"key": "e2e/%s/%s" % (backend, key_), "msg": "[e2e %s, %d worker processes] %s" % (backend, workers, msg), "replay": rp})

    try:
        srv.start()
        peers = await spread(srv, "c", 2, 36)
        conns.extend(peers)
        byw = {}
        for c in peers:
            byw.setdefault(c.worker, []).append(c)
        if workers > 1 and len(byw) < 2:
            inconcl.append("e2e c03: all connections landed on one worker process")
        # one watcher per worker sees everything that is pushed there
        watchers = []
        for w, cs in byw.items():
            wc = cs[-1]
            await wc.send(["REQ", "all", {"since": 1}])
            await wc.wait_for(lambda fr: any(isinstance(m, list) and m[:2] == ["EOSE", "all"] for m in fr), timeout=30)
            watchers.append(wc)
        await asyncio.sleep(3.0)
        k1, k2, dg = ref.key_from_seed("e2e-c03-a"), ref.key_from_seed("e2e-c03-b"), ref.key_from_seed("e2e-c03-delegator")
        submitters = [cs[0] for cs in byw.values()]
        todo = []
        kept = []
        for i in range(6):
            w_gen = submitters[i % len(submitters)]
            genuine = ref.make_event(k1, kind=1, created_at=T0 + i, tags=[["t", "g%d" % i]], content="genuine %d %d" % (seed, i), delegation=(dg, "kind=1") if i % 2 else None)
            n0 = await w_gen.send(["EVENT", genuine])
            await w_gen.wait_for(lambda fr: [m for m in fr if isinstance(m, list) and m[:1] == ["OK"]], timeout=30, since=n0)
            if i % 3 == 0:
                # the genuine event is removed again by its author: what comes back under its id has to be verified afresh
                n0 = await w_gen.send(["EVENT", ref.make_event(k1, kind=5, created_at=T0 + 500 + i, tags=[["e", genuine["id"]]], content="del")])
                await w_gen.wait_for(lambda fr: [m for m in fr if isinstance(m, list) and m[:1] == ["OK"]], timeout=30, since=n0)
                await asyncio.sleep(0.3)
            else:
                kept.append(genuine)
            variants = [
                ("same-id-and-sig-other-content", dict(genuine, content="FORGED %d" % i)),
                ("same-id-and-sig-other-tags", dict(genuine, tags=[["t", "FORGED-%d" % i]])),
                ("sig-of-another-event", dict(ref.make_event(k1, kind=1, created_at=T0 + 100 + i, tags=[], content="FORGED sig %d" % i), sig=genuine["sig"])),
            ]
            if i % 2:
                thief = ref.make_event(k2, kind=1, created_at=T0 + 200 + i, tags=[t for t in genuine["tags"] if t[0] == "delegation"], content="FORGED delegation %d" % i)
                variants.append(("delegation-transplanted-after-genuine-accepted-elsewhere", thief))
            for label, f in variants:
                for _ in submitters:
                    todo.append((label, f, w_gen.worker))

        async def offer(idx, label, f, gen_worker):
            # a connection that was refused is slowed down by the relay (real 2 s sleep before the OK): a fresh one per forgery
            c = await e2e.Client(srv, "f%d" % idx).connect()
            conns.append(c)
            n0 = await c.send(["EVENT", f])
            fr = await c.wait_for(lambda fr: [m for m in fr if isinstance(m, list) and m[:1] == ["OK"]], timeout=40, since=n0)
            ok = fr[-1][2] if fr else None
            bump(counters, "e2e_forgeries_submitted")
            nontrivial.append(h(["e2e-c03", backend, label]))
            if ok is True and ref.authentic(f)[0] is False:
                V("acknowledged/%s" % label, "a forgery (%s) was acknowledged OK true by a worker after worker %s had verified the genuine event" % (label, gen_worker))

        for i in range(0, len(todo), 16):
            await asyncio.gather(*[offer(i + j, *t) for j, t in enumerate(todo[i:i + 16])])
        await e2e.settle(conns, quiet=1.5, timeout=60)
        marks = ("FORGED",)
        for wc in watchers:
            for _, m in event_frames(wc, "all"):
                ev = m[2]
                if isinstance(ev, dict) and (any(x in str(ev.get("content")) for x in marks) or any("FORGED" in str(t) for t in ev.get("tags", []))) and ref.authentic(ev)[0] is False:
                    V("pushed", "a forgery was pushed to a subscriber on worker %s: %s" % (wc.worker, json.dumps(ev)[:200]))
                    break
        bump(counters, "e2e_watchers_checked", len(watchers))
        # ---- after a restart on the same files: an event stored before it is removed by its author, then its id comes back
        # around other content
        for c in conns:
            await c.close()
        del conns[:]
        srv.stop()
        srv.start()
        c = await e2e.Client(srv, "after-restart").connect()
        conns.append(c)
        todo = []
        for g in kept[:3]:
            n0 = await c.send(["EVENT", ref.make_event(k1, kind=5, created_at=T0 + 900, tags=[["e", g["id"]]], content="del after restart")])
            await c.wait_for(lambda fr: [m for m in fr if isinstance(m, list) and m[:1] == ["OK"]], timeout=30, since=n0)
            todo.append(("stored-before-restart/removed/same-id-and-sig-other-content", dict(g, content="FORGED after restart"), "restart"))
        await asyncio.sleep(0.5)
        await asyncio.gather(*[offer(1000 + j, *t) for j, t in enumerate(todo)])
        bump(counters, "e2e_forgeries_after_restart", len(todo))
    finally:
        for c in conns:
            await c.close()
        srv.stop()
    return viols, nontrivial, inconcl


# ---------------------------------------------------------------------------------------------------
# C02: a client that pauses reading in the middle of a large answer still gets all of it
# ---------------------------------------------------------------------------------------------------
async def paused_reader_case(backend, seed, counters, nevents=160, size=100_000, pause=6.0):
    import websockets
    from websockets.asyncio.client import connect

    viols, nontrivial, inconcl = [], [], []
    # send_timeout is not an option of the relay as it is; a relay that grows one is configured to be impatient
    srv = e2e.Server(backend=backend, workers=1, overrides={"send_timeout": 2})
    rp = {"mode": "e2e", "e2e": "paused-reader", "backend": backend, "seed": seed}
    key = ref.key_from_seed("e2e-paused")
    evs = [ref.make_event(key, kind=1, created_at=T0 + i, tags=[["t", "big"]], content=("%06d" % i) + "x" * size) for i in range(nevents)]
    srv.seed(evs)
    srv.start()
    try:
        sock = socket.socket()
        sock.setsockopt(socket.SOL_SOCKET, socket.SO_RCVBUF, 65536)
        sock.connect(("127.0.0.1", srv.port))
        ws = await connect(srv.url, sock=sock, max_size=None, max_queue=2, compression=None, ping_interval=None, close_timeout=2)
        await ws.send(json.dumps(["REQ", "big", {"kinds": [1], "#t": ["big"], "limit": nevents}]))
        await asyncio.sleep(pause)  # the peer does not read: the kernel buffers fill, the relay's writes have to wait
        got, eose = [], False
        t0 = time.time()
        try:
            while time.time() - t0 < 120:
                msg = await asyncio.wait_for(ws.recv(), 60)
                m = json.loads(msg)
                if m[:2] == ["EOSE", "big"]:
                    eose = True
                    break
                if m[:2] == ["EVENT", "big"]:
                    got.append(m[2]["id"])
        except (asyncio.TimeoutError, websockets.exceptions.ConnectionClosed) as e:
            inconcl.append("e2e paused reader: the answer ended without EOSE (%r) after %d events" % (e, len(got)))
        await ws.close()
        bump(counters, "e2e_paused_reader_runs")
        bump(counters, "e2e_paused_reader_events", len(got))
        nontrivial.append(h(["e2e-paused", backend, nevents]))
        if eose:
            missing = [e["id"] for e in evs if e["id"] not in got]
            dup = len(got) - len(set(got))
            if missing:
                viols.append({"key": "e2e/%s/missing/paused-reader" % backend,
                              "msg": "[e2e %s] a client asked for %d stored events (%d MB), did not read for %.0f s and then read on: %d of them never arrived before EOSE" % (backend, nevents, nevents * size // 1000000, pause, len(missing)), "replay": rp})
            if dup:
                viols.append({"key": "e2e/%s/duplicated/paused-reader" % backend, "msg": "[e2e %s] %d stored events arrived twice for one filter" % (backend, dup), "replay": rp})
    finally:
        srv.stop()
    return viols, nontrivial, inconcl
