"""
Launcher of a REAL relay server process tree for the end-to-end shards:
    python -m vf.e2e_launch <config.yaml> <gunicorn|uvicorn> <notify_port>
    python -m vf.e2e_launch <config.yaml> roles '<json {pubkey: roles}>'     (a process of its own, before the server)
    python -m vf.e2e_launch <config.yaml> seed <file with a JSON list of events>  (likewise)

Does what `nostr-relay -c <config> serve` does, minus the alembic step (alembic's env.py
of this repository asks for a QueuePool on an async engine, which the installed SQLAlchemy
refuses - a version skew of this image, nothing the properties speak of): the SQL schema is
created with the repository's own `get_metadata().create_all`, then the repository's
`run_with_gunicorn` (preloaded app, forked uvicorn workers) or `run_with_uvicorn` runs.
The only harness-side setting: the notifier's hard-wired TCP port 6000 is replaced by the
port given on the command line, so that several servers can run on one machine.
"""
import os
import sys


def create_schema(Config):
    storage_class = Config.storage.get("class", "nostr_relay.storage.db.DBStorage")
    if storage_class.rsplit(".", 1)[-1] == "DBStorage":
        import sqlalchemy as sa
        from nostr_relay.storage import get_metadata

        url = Config.storage["sqlalchemy.url"].replace("+aiosqlite", "")
        eng = sa.create_engine(url)
        get_metadata().create_all(eng)
        eng.dispose()


def main():
    conf, mode = sys.argv[1], sys.argv[2]
    from vf import env

    env.setup_paths()
    from nostr_relay.config import Config

    Config.load(conf)
    import nostr_relay

    assert os.path.abspath(nostr_relay.__file__).startswith(env.REPO + os.sep), nostr_relay.__file__
    create_schema(Config)
    if mode == "roles":
        # role assignments made with the repository's own storage API
        import asyncio
        import json
        from nostr_relay.storage import get_storage

        async def _roles():
            async with get_storage() as st:
                for pk, rl in json.loads(sys.argv[3]).items():
                    await st.set_auth_roles(pk, rl)
                if hasattr(st, "wait_for_writer"):
                    await st.wait_for_writer()

        asyncio.run(_roles())
        return
    if mode == "seed":
        # events stored through the repository's own storage API before the server starts
        import asyncio
        import json
        from nostr_relay.storage import get_storage

        async def _seed():
            async with get_storage() as st:
                for ev in json.load(open(sys.argv[3])):
                    await st.add_event(ev)
                if hasattr(st, "wait_for_writer"):
                    await st.wait_for_writer()

        asyncio.run(_seed())
        return
    nport = int(sys.argv[3])
    from nostr_relay import notifier

    notifier.NotifyServer.__init__.__defaults__ = (nport,)
    notifier.NotifyClient.__init__.__defaults__ = (nport, "127.0.0.1")
    from nostr_relay import web

    sys.argv = ["nostr-relay"]
    if mode == "uvicorn":
        web.run_with_uvicorn(conf)
    else:
        web.run_with_gunicorn(conf)


if __name__ == "__main__":
    main()
    sys.stdout.flush()
    sys.stderr.flush()
    os._exit(0)
