"""
Process bootstrap for workers: choose the repository tree, put the LMDB/msgpack shim on
sys.path when the genuine modules are missing, write + load a relay config *before* any
nostr_relay.storage import (Config.max_limit is captured at import time).
"""
import os
import sys
import json
import tempfile
import shutil
import atexit
import logging

VERIF = os.path.dirname(os.path.dirname(os.path.abspath(__file__)))
REPO = os.path.abspath(os.environ.get("VERIF_REPO", "/repo"))
SHIM = os.path.join(VERIF, "shim")
GUARD = "NOSTR_RELAY_VERIF"

_scratch_dirs = []
SHIM_ACTIVE = {"lmdb": False, "msgpack": False}


def scratch(prefix="vf-"):
    d = tempfile.mkdtemp(prefix=prefix)
    _scratch_dirs.append(d)
    return d


def _cleanup():
    for d in _scratch_dirs:
        shutil.rmtree(d, ignore_errors=True)


atexit.register(_cleanup)


def setup_paths():
    if REPO not in sys.path[:1]:
        sys.path.insert(0, REPO)
    os.environ[GUARD] = "1"
    import importlib.util

    for mod in ("lmdb", "msgpack"):
        try:
            spec = importlib.util.find_spec(mod)
        except (ImportError, ValueError):
            spec = None
        if spec is None or (spec.origin or "").startswith(SHIM):
            if SHIM not in sys.path:
                sys.path.append(SHIM)
            SHIM_ACTIVE[mod] = True


class LogTap(logging.Handler):
    """Collects log records of the relay (level >= WARNING, or with exc_info)."""

    def __init__(self):
        super().__init__(level=logging.DEBUG)
        self.records = []
        self.enabled = True

    def emit(self, record):
        if not self.enabled:
            return
        if record.levelno >= logging.WARNING or record.exc_info:
            exc = None
            if record.exc_info and record.exc_info[0] is not None:
                import traceback

                exc = {
                    "type": record.exc_info[0].__name__,
                    "msg": str(record.exc_info[1])[:300],
                    "tb": [
                        (os.path.basename(f.filename), f.name, f.lineno)
                        for f in traceback.extract_tb(record.exc_info[2])[-6:]
                    ],
                }
            try:
                msg = record.getMessage()
            except Exception:
                msg = str(record.msg)
            self.records.append(
                {"logger": record.name, "level": record.levelname, "msg": msg[:300], "exc": exc}
            )
            if len(self.records) > 5000:
                del self.records[:2500]

    def take(self):
        r, self.records = self.records, []
        return r


LOGTAP = LogTap()

BASE_CONFIG = {
    "DEBUG": False,
    "relay_name": "verif relay",
    "logging": {"version": 1, "disable_existing_loggers": False},
    "gunicorn": {"bind": "127.0.0.1:6969", "workers": 1},
    "garbage_collector": {},
    "subscription_limit": 32,
}


def load_config(overrides=None, scratch_dir=None):
    """Write a YAML config and Config.load() it. Must run before importing storage."""
    setup_paths()
    import yaml

    cfg = json.loads(json.dumps(BASE_CONFIG))
    for k, v in (overrides or {}).items():
        cfg[k] = v
    d = scratch_dir or scratch("vf-cfg-")
    path = os.path.join(d, "config.yaml")
    with open(path, "w") as fp:
        yaml.safe_dump(cfg, fp)
    already = "nostr_relay.storage.base" in sys.modules
    from nostr_relay.config import Config

    import nostr_relay

    assert os.path.abspath(nostr_relay.__file__).startswith(REPO + os.sep), (
        nostr_relay.__file__,
        REPO,
    )
    # drop attributes of a previous load so that one process can host several configs
    # that differ only in keys NOT captured at import time
    for k in list(Config.__dict__.keys()):
        if k not in ("authentication", "gunicorn", "storage", "verification",
                     "garbage_collector", "logging", "_is_loaded"):
            del Config.__dict__[k]
    Config.__init__()
    Config.load(path, reload=True)
    root = logging.getLogger("nostr_relay")
    root.setLevel(logging.INFO)
    root.propagate = False
    if LOGTAP not in root.handlers:
        root.addHandler(LOGTAP)
    logging.getLogger("asyncio").addHandler(LOGTAP)
    return Config, path, already
