"""
Fault layer: failpoints at every storage mutation.

 * LMDB: a proxy module put in place of `kv.lmdb`.  Write transactions are wrapped; every
   put / delete / commit is an ordinal; at the armed ordinal the proxy raises
   lmdb.Error("injected") or SIGKILLs the process.
 * SQL: listeners on the sync engine (before_cursor_execute + commit) count the statements
   of the current add_event; at the armed ordinal raise OperationalError or SIGKILL.
"""
import os
import signal
import threading


class Plan:
    """shared failpoint state (one per worker process).  Failpoints are numbered globally
    from the moment of arming, across all transactions and connections: ordinal k = the
    k-th storage mutation (statement / put / delete / commit) after arm()."""

    def __init__(self):
        self.lock = threading.Lock()
        self.reset()

    def reset(self):
        self.armed = None  # {"ordinal": k, "action": "error"|"kill"}
        self.seq = 0  # mutations seen since arming
        self.txn_no = -1  # write transactions begun since arming (for the trace only)
        self.fired = 0
        self.trace = []  # (txn_no, ordinal, op)
        self.recording = False
        self.write_txns_finished = 0

    def arm(self, ordinal, action, txn=None):
        with self.lock:
            self.armed = {"ordinal": ordinal, "action": action}
            self.seq = 0
            self.txn_no = -1
            self.fired = 0
            self.trace = []
            self.recording = True

    def record_only(self):
        with self.lock:
            self.armed = None
            self.seq = 0
            self.txn_no = -1
            self.trace = []
            self.recording = True

    def disarm(self):
        with self.lock:
            self.armed = None
            self.recording = False

    def begin_txn(self):
        with self.lock:
            self.txn_no += 1

    def point(self, op, make_error):
        """called before each mutation; may raise or kill"""
        with self.lock:
            k = self.seq
            self.seq += 1
            if self.recording:
                self.trace.append((self.txn_no, k, op))
            a = self.armed
            fire = a is not None and a["ordinal"] == k and not self.fired
            if fire:
                self.fired += 1
        if fire:
            if a["action"] == "kill":
                os.kill(os.getpid(), signal.SIGKILL)
            raise make_error()


PLAN = Plan()


# ---------------------------------------------------------------------------------------
# LMDB proxy


class _TxnProxy:
    def __init__(self, txn, lmdb_mod, write):
        self._t = txn
        self._lmdb = lmdb_mod
        self._write = write
        if write:
            PLAN.begin_txn()

    def _err(self):
        return self._lmdb.Error("injected failure")

    def put(self, key, value, *a, **k):
        if self._write:
            PLAN.point("put", self._err)
        return self._t.put(key, value, *a, **k)

    def delete(self, key, *a, **k):
        if self._write:
            PLAN.point("delete", self._err)
        return self._t.delete(key, *a, **k)

    def commit(self):
        if self._write:
            try:
                PLAN.point("commit", self._err)
            except Exception:
                self._t.abort()
                with PLAN.lock:
                    PLAN.write_txns_finished += 1
                raise
        try:
            return self._t.commit()
        finally:
            if self._write:
                with PLAN.lock:
                    PLAN.write_txns_finished += 1

    def abort(self):
        try:
            return self._t.abort()
        finally:
            if self._write:
                with PLAN.lock:
                    PLAN.write_txns_finished += 1

    def __enter__(self):
        return self

    def __exit__(self, exc_type, exc, tb):
        if exc_type:
            self.abort()
        else:
            self.commit()

    def __getattr__(self, name):
        return getattr(self._t, name)


class _EnvProxy:
    def __init__(self, env, lmdb_mod):
        self._e = env
        self._lmdb = lmdb_mod

    def begin(self, *a, **k):
        write = k.get("write", False)
        return _TxnProxy(self._e.begin(*a, **k), self._lmdb, write)

    def __enter__(self):
        return self

    def __exit__(self, *a):
        self._e.close()

    def __getattr__(self, name):
        return getattr(self._e, name)


class LmdbProxy:
    """module stand-in for kv.lmdb"""

    def __init__(self, real):
        self._real = real

    def open(self, *a, **k):
        return _EnvProxy(self._real.open(*a, **k), self._real)

    def __getattr__(self, name):
        return getattr(self._real, name)


def install_lmdb():
    from nostr_relay.storage import kv

    if not isinstance(kv.lmdb, LmdbProxy):
        kv.lmdb = LmdbProxy(kv.lmdb)
    return PLAN


# ---------------------------------------------------------------------------------------
# SQL failpoints


def install_sql(storage):
    """count statements + commit of each transaction on the relay's engine"""
    import sqlalchemy
    from sqlalchemy import event as sa_event

    eng = storage.db.sync_engine

    def make_error():
        # a multi-line message with quotes, like real driver errors
        return sqlalchemy.exc.OperationalError("injected", {}, Exception('injected failure\n(second line, "quoted")'))

    def begin(conn):
        PLAN.begin_txn()

    def before(conn, cursor, statement, parameters, context, executemany):
        s = statement.lstrip().split(None, 1)[0].upper() if statement.strip() else "?"
        if s in ("PRAGMA",):
            return
        PLAN.point(s, make_error)

    def commit(conn):
        PLAN.point("COMMIT", make_error)

    sa_event.listen(eng, "begin", begin)
    sa_event.listen(eng, "before_cursor_execute", before)
    sa_event.listen(eng, "commit", commit)
    return PLAN
