"""Re-renders the 'fixed' lines of known_findings.json from 'fixed_src' (property,
commit subject, what failed), looking the commit hash up by subject in /repo."""
import json
import os
import subprocess

HERE = os.path.dirname(os.path.dirname(os.path.abspath(__file__)))


def main():
    p = os.path.join(HERE, "known_findings.json")
    d = json.load(open(p))
    log = subprocess.check_output(["git", "-C", "/repo", "log", "--format=%h %s"]).decode().splitlines()
    by_subject = {l.split(" ", 1)[1]: l.split(" ", 1)[0] for l in log}
    out = []
    for e in d.get("fixed_src", []):
        hsh = by_subject.get(e["subject"])
        if not hsh:
            raise SystemExit("no commit with subject %r" % e["subject"])
        out.append("fixed: property=%s %s %s" % (e["property"], hsh, e["what"]))
    d["fixed"] = out
    json.dump(d, open(p, "w"), indent=1)
    print("%d fixed entries" % len(out))


if __name__ == "__main__":
    main()
