"""
Seeded generators: small dense universes of events and filters in which byte-order
neighbours, prefix relations and timestamp collisions are common.
"""
import random
import json

from . import ref

T0 = 1700000000
TS_GRID = [T0, T0 + 1, T0 + 2, T0 + 255, T0 + 256, T0 + 65536]
KINDS_REGULAR = [1, 2, 7, 255, 256, 257, 65535, 40000]
TAG_VALUES = ["a", "ab", "abc", "b", "", "a\x00b", "é", "aÿ", "A", "a\x00z", "q" * 300, "é" * 250]
TAG_NAMES = ["e", "p", "t", "é"]

HOSTILE = [
    "'", "''", '"', "\\", "\x00", "%", "_", ":x", " :name", "a :b c", "--", "/*", "*/", ";",
    ")", "(", "{}", "{0}", "%s", "\n", "\r\n", "‮", "é", "\U0001f600", "\U00010000",
    "\u0080", "߿", "ࠀ", "￿", "' OR '1'='1", "') OR 1=1 --", "x' UNION SELECT 1,2,3,4,5,6,7 --",
    "'; DROP TABLE events; --", "\\'", "a' AND value IN ('b", "__import__('os')", "'+str(1)+'",
    '")]) or True or bool([(" ', "\\x27", "}", "{et}", "\\N{BULLET}", "'''", '"""', "\t",
    "z" * 1000,
]
HOSTILE_NAMES = ["'", '"', "\\", "\x00", "%", ":", ";", ")", "-", "\n", "é", "\U0001f600", "*", "?", " "]


class Universe:
    def __init__(self, seed):
        self.rng = random.Random(seed)
        self.keys = [
            ref.mined_key("00"),
            ref.mined_key("7f"),
            ref.mined_key("ff"),
            ref.key_from_seed("plain-1"),
            ref.key_from_seed("plain-2"),
        ]
        self.delegator = ref.key_from_seed("delegator-1")
        self.dense_key = ref.key_from_seed("dense-1")
        self._n = 0

    def event(self, key=None, kind=None, created_at=None, tags=None, content=None, id_prefix=None,
              delegated=False, hostile=False):
        r = self.rng
        self._n += 1
        key = key or r.choice(self.keys)
        kind = r.choice(KINDS_REGULAR) if kind is None else kind
        created_at = r.choice(TS_GRID) if created_at is None else created_at
        if tags is None:
            tags = []
            for _ in range(r.choice([0, 1, 1, 2, 3])):
                if hostile and r.random() < 0.6:
                    name = r.choice(TAG_NAMES + HOSTILE_NAMES)
                    val = r.choice(HOSTILE + TAG_VALUES)
                else:
                    name = r.choice(TAG_NAMES)
                    val = r.choice(TAG_VALUES)
                t = [name, val]
                if r.random() < 0.1:
                    t.append("extra")
                tags.append(t)
                if r.random() < 0.12:
                    # the same tag name again with another value: one event under two requested values
                    tags.append([name, r.choice(TAG_VALUES[:4])])
            if r.random() < 0.05:
                tags.append([r.choice(TAG_NAMES)])
        if content is None:
            content = "n%d" % self._n
            if hostile and r.random() < 0.3:
                content += r.choice(HOSTILE)
        if id_prefix is None and r.random() < 0.15:
            id_prefix = r.choice(["00", "ff", "7f"])
        deleg = (self.delegator, "kind=%d" % kind) if delegated else None
        return ref.make_event(key, kind=kind, created_at=created_at, tags=tags, content=content,
                              id_prefix=id_prefix, delegation=deleg)

    def store(self, n, hostile=False, history=True):
        """a list of raw events: mostly regular kinds, some delegated, optional
        replacements and author deletions so that the store has a history"""
        r = self.rng
        evs = []
        for i in range(n):
            roll = r.random()
            if history and roll < 0.06 and evs:
                # replaceable pair
                k = r.choice(self.keys)
                kind = r.choice([0, 3, 10000, 30000])
                tags = [["d", r.choice(["a", "ab", ""])]] if kind == 30000 else []
                evs.append(self.event(key=k, kind=kind, tags=tags))
            elif history and roll < 0.10 and evs:
                tgt = r.choice(evs)
                k = next((x for x in self.keys if x.pk == tgt["pubkey"]), None)
                if k:
                    evs.append(self.event(key=k, kind=5, created_at=max(TS_GRID) + 10,
                                          tags=[["e", tgt["id"]]]))
            else:
                evs.append(self.event(delegated=(r.random() < 0.08), hostile=hostile))
        # a "densely tagged" author: every one of its events carries a requested value of #t, a third carry two of
        # them - chained plans that walk the author/kind index first find (nearly) all their candidates in the tag index
        if n >= 20:
            dk = self.dense_key
            for j in range(r.choice([4, 6, 9])):
                tv = r.choice([["a"], ["ab"], ["a", "ab"], ["ab", "a"], ["a", "ab", "abc"]])
                evs.insert(r.randrange(len(evs) + 1), self.event(key=dk, kind=r.choice([1, 1, 7, 2]), tags=[["t", v] for v in tv]))
        return evs

    # ---- filters -------------------------------------------------------------------
    def wellformed_filter(self, events, max_conds=3, limit=None):
        r = self.rng
        f = {}
        if max_conds >= 2 and r.random() < 0.08:
            # "wide" shape: so many author x kind combinations that the planner walks the author+kind index
            # first and the tag index only as a later link of the chain, with a multi-valued tag condition
            if r.random() < 0.6:
                f["authors"] = [self.dense_key.pk]
                name = "t"
                f["#t"] = r.choice([["a", "ab"], ["ab", "a"], ["a", "ab", "abc"], ["a", "b", "ab"]])
            else:
                f["authors"] = [k.pk for k in r.sample(self.keys, r.choice([1, 2, 3]))]
                name = r.choice(TAG_NAMES[:3])
                f["#" + name] = r.sample(TAG_VALUES[:4], r.choice([2, 3]))
            f["kinds"] = sorted(set(KINDS_REGULAR + [0, 3, 5, 10000, 30000, 2, 6, 8, 9]))[: r.choice([10, 12, 17])]
            if r.random() < 0.3:
                f[r.choice(["since", "until"])] = r.choice(TS_GRID)
            if limit is not None:
                f["limit"] = limit
            return f
        conds = r.sample(["ids", "authors", "kinds", "tag", "tag2", "since", "until"], r.randint(1, max_conds))
        pool = events if events else [self.event()]
        for c in conds:
            if c == "ids":
                n = r.choice([1, 1, 2, 3])
                ids = [r.choice(pool)["id"] for _ in range(n)]
                if r.random() < 0.2:
                    ids.append(ref.compute_id("00" * 32, 1, 1, [], "absent%d" % r.random()))
                f["ids"] = ids
            elif c == "authors":
                n = r.choice([1, 1, 2, 3])
                f["authors"] = [r.choice(self.keys).pk for _ in range(n)]
                if r.random() < 0.15:
                    f["authors"].append(self.delegator.pk)
            elif c == "kinds":
                n = r.choice([1, 1, 2, 3])
                f["kinds"] = [r.choice(KINDS_REGULAR + [0, 3, 5, 10000, 30000]) for _ in range(n)]
            elif c in ("tag", "tag2"):
                name = r.choice(TAG_NAMES)
                n = r.choice([1, 1, 2, 3])
                f["#" + name] = [r.choice(TAG_VALUES) for _ in range(n)]
            elif c == "since":
                f["since"] = r.choice(TS_GRID) + r.choice([-1, 0, 0, 1]) if r.random() > 0.08 else 0
            elif c == "until":
                f["until"] = r.choice(TS_GRID) + r.choice([-1, 0, 0, 1])
        if limit is not None:
            f["limit"] = limit
        return f

    def hostile_filter(self, events):
        """a filter that is well-formed or malformed, with hostile data"""
        r = self.rng
        f = self.wellformed_filter(events, max_conds=2) if r.random() < 0.7 else {}
        for _ in range(r.choice([1, 1, 2])):
            roll = r.random()
            if roll < 0.35:
                name = r.choice(HOSTILE_NAMES + TAG_NAMES)
                vals = [r.choice(HOSTILE + TAG_VALUES) for _ in range(r.choice([1, 1, 2, 3]))]
                f["#" + name] = vals
            elif roll < 0.45:
                f["#" + r.choice(TAG_NAMES)] = r.choice([[], [""], "x", 5, None, [5], [None], [["x"]], {"a": 1}, ["a", 5]])
            elif roll < 0.55:
                f[r.choice(["ids", "authors"])] = r.choice(
                    [[], [""], ["zz"], ["ab"], "x", 5, [5], [r.choice(events)["id"].upper()] if events else [],
                     [(r.choice(events)["id"] if events else "00" * 32) + "0"],
                     [(r.choice(events)["id"] if events else "00" * 32)[:10]],
                     ["'" * 64], ["%" * 64], ["x'" + "0" * 61],
                     # 64 hex digits followed by something: a validator that only looks at the prefix lets it through
                     [(r.choice(events)["id"] if events else "00" * 32) + "' or 1=1 or '"],
                     [(r.choice(events)["id"] if events else "00" * 32) + "' union select id,created_at,kind,pubkey,tags,sig,content from events --"],
                     [("0" * 64) + "%"], [("0" * 63) + "_' or ''='"], [(r.choice(events)["id"] if events else "00" * 32) + "\x00"],
                     [(r.choice(events)["id"] if events else "00" * 32) + "\n"], [" " + (r.choice(events)["id"] if events else "00" * 32)]]
                )
            elif roll < 0.65:
                f["kinds"] = r.choice([[], [-1], [2 ** 31], [2 ** 32], [2 ** 63], [2 ** 64], ["1"], [1.0], [1.5], [True], "1", 1, [None],
                                       [1, "x"], [[1]]])
            elif roll < 0.75:
                f[r.choice(["since", "until"])] = r.choice([-1, 0, 2145934799, 2145934800, 2 ** 32, 2 ** 63, "1700000000", 1700000000.5,
                                                            True, None, [1], "x"])
            elif roll < 0.82:
                f["limit"] = r.choice([0, 1, -1, 10 ** 9, 2 ** 63, "5", None, 1.5])
            elif roll < 0.9:
                f[r.choice(["tags", "search", "#", "#ab", "unknown", ""])] = r.choice(
                    [[["e", ["a"]]], "x", [], [["e", "a"]], "') OR 1=1 --", 5]
                )
            else:
                f["#" + r.choice(TAG_NAMES)] = [r.choice(HOSTILE)]
        return f


def benign_twin(flt):
    """
    Same keys and list lengths; inside ids / authors / '#x' lists every string is replaced
    by [a-j] text of equal length (equal strings -> equal twins, distinct -> distinct where
    the length allows; 64-char hex stays as lower-case hex); every tag name is replaced by
    a letter that is not otherwise used.  Numbers and other fields are left untouched.
    """
    import re

    if not isinstance(flt, dict):
        return flt
    mapping = {}
    used = set()

    def twin_str(s, hexlike=False):
        if s in mapping:
            return mapping[s]
        if hexlike and re.fullmatch(r"[0-9a-fA-F]*", s):
            t = s.lower()  # ids/authors: validity depends on hex-ness and length only
        elif hexlike:
            t = "".join("ghijklmnop"[j % 10] for j in range(len(s)))
        else:
            n = len(s)
            k = 0
            while True:
                t = "".join("abcdefghij"[(j * 7 + k + (k // 10) * (j + 1)) % 10] for j in range(n))
                if t not in used or n == 0 or k > 200:
                    break
                k += 1
        mapping[s] = t
        used.add(t)
        return t

    out = {}
    letters = iter("ghijklmnoqrsuvwxyz")
    for k, v in flt.items():
        nk = k
        is_tag = isinstance(k, str) and len(k) == 2 and k[0] == "#"
        if is_tag:
            nk = "#" + next(letters)
        if (is_tag or k in ("ids", "authors")) and isinstance(v, list):
            nv = [twin_str(x, not is_tag) if isinstance(x, str) else x for x in v]
        else:
            nv = v
        out[nk] = nv
    return out


def jdump(o):
    return json.dumps(o, ensure_ascii=False, separators=(",", ":"))
