"""
History driver shared by the store-semantics checks (C08, C09, C10, C17): submit one
operation at a time through the websocket EVENT path (or a storage call), wait for
quiescence (LMDB writer idle), dump the store, hand (prev, cur, step, ack) to a judge.
"""
import json

from . import rig as R, dump, qcore, env


class Step:
    __slots__ = ("op", "raw", "label", "ok", "reason", "arg")

    def __init__(self, op, raw=None, label="", arg=None):
        self.op = op
        self.raw = raw
        self.label = label
        self.ok = None
        self.reason = None
        self.arg = arg

    def to_json(self):
        return {"op": self.op, "raw": self.raw, "label": self.label, "arg": self.arg}

    @classmethod
    def from_json(cls, d):
        return cls(d["op"], d.get("raw"), d.get("label", ""), d.get("arg"))


async def drive(rig, steps, judge, conn=None, clock=None, after=None):
    """judge(i, step, prev_dump, cur_dump, logs) is called after every step;
    `after` (async, same arguments minus logs) may probe the relay before the next step"""
    conn = conn or rig.connect("hist")
    prev = dump.dump(rig)
    for i, st in enumerate(steps):
        env.LOGTAP.take()
        if conn.exited:
            conn = rig.connect()
        if st.op == "event":
            n0 = rig.rec.n
            await conn.cmd(["EVENT", st.raw])
            oks = R.ok_frames(conn, n0)
            if oks:
                f = oks[-1][1]
                st.ok = f[2] if len(f) > 2 else None
                st.reason = f[3] if len(f) > 3 else ""
        elif st.op == "http_get":
            from .checks.c04 import http_get
            st.ok, st.reason = await http_get(rig, st.arg)
        elif st.op == "gc":
            if clock is not None:
                clock.now = st.arg
            try:
                await rig.gc.run_once()
                st.ok = True
            except Exception as e:
                st.ok, st.reason = False, repr(e)
        elif st.op == "delete_event":
            try:
                await rig.storage.delete_event(st.arg)
                st.ok = True
            except Exception as e:
                st.ok, st.reason = False, repr(e)
        await rig.quiesce()
        cur = dump.dump(rig)
        judge(i, st, prev, cur, env.LOGTAP.take())
        if after is not None:
            await after(i, st, prev, cur)
        prev = cur
    return prev


class Clock:
    """virtual wall clock installed over the relay's `time` names"""

    def __init__(self, now):
        self.now = now

    def __call__(self):
        return self.now

    def install(self, *modules):
        for m in modules:
            if hasattr(m, "time") and callable(getattr(m, "time")):
                m.time = self
        return self
