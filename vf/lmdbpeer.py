"""
A second process on the same LMDB environment (another worker, or a command-line tool run
beside the relay): opens the storage with the relay's own configuration file, serves one
query, closes in an orderly way.   usage: python -m vf.lmdbpeer <config.yaml>
"""
import asyncio
import json
import sys


def main():
    from vf import env

    env.setup_paths()
    from nostr_relay.config import Config

    Config.load(sys.argv[1], reload=True)
    from nostr_relay.storage import kv

    async def run():
        st = kv.LMDBStorage(dict(Config.storage))
        await st.setup()
        n = 0
        async for ev in st.run_single_query([{"kinds": [1], "limit": 5}]):
            n += 1
        await st.close()
        return n

    n = asyncio.run(run())
    sys.stdout.write(json.dumps({"events_seen": n}) + "\n")


if __name__ == "__main__":
    main()
