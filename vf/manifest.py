"""Regenerates MANIFEST.json from the check modules that exist (python -m vf.manifest)."""
import importlib
import json
import os

HERE = os.path.dirname(os.path.dirname(os.path.abspath(__file__)))
ALL = ["C%02d" % i for i in range(1, 21)]


def main():
    checks = []
    na = []
    for pid in ALL:
        path = os.path.join(HERE, "vf", "checks", pid.lower() + ".py")
        if not os.path.exists(path):
            na.append({"property_id": pid, "reason": "check not built yet in this round (runtime monitor designed in DESIGN.md section 2; not claimed until it runs clean)"})
            continue
        mod = importlib.import_module("vf.checks." + pid.lower())
        if getattr(mod, "NOT_CLAIMED", None):
            na.append({"property_id": pid, "reason": mod.NOT_CLAIMED})
            continue
        checks.append({
            "property_id": pid,
            "quick_cmd": "./vcheck %s --tier quick" % pid,
            "thorough_cmd": "./vcheck %s --tier thorough" % pid,
            "evidence_file": "/verif/evidence/%s.json" % pid,
            "replay_cmd_template": "./vcheck %s --replay {path}" % pid,
            "engine": "vf-runtime-monitor",
            "level_claimed": {
                "category": getattr(mod, "LEVEL", "exploration"),
                "text": getattr(mod, "LEVEL_TEXT", "").strip() or mod.__doc__.strip(),
                "design_ref": "DESIGN.md section 2, %s" % pid,
            },
            "level_note": "; ".join(getattr(mod, "ASSUMPTIONS", [])),
            "technique": getattr(mod, "TECHNIQUE", "runtime monitoring: boundary recorder + offline oracle over generated workloads"),
        })
    man = {
        "version": 1,
        "setup_cmd": "./vcheck --setup",
        "hooks": {
            "guard": "NOSTR_RELAY_VERIF",
            "enable": "checks export NOSTR_RELAY_VERIF=1 for their worker processes; no repository source is guarded by it so far (all observation points are reachable from outside)",
            "baseline_off_cmd": "cd /verif && env -u NOSTR_RELAY_VERIF PYTHONPATH=/verif /venv/bin/python -m vf.baseline",
            "source_commits": [],
            "add_only": True,
        },
        "engines": [{
            "name": "vf-runtime-monitor",
            "path": "/verif/vf",
            "serves_properties": [c["property_id"] for c in checks],
            "kind_free_text": "runtime monitoring: the real relay coroutines and storage backends run under generated / hostile / fault-injected workloads in worker subprocesses; boundary recorders, store dumpers and statement taps feed offline oracles (NIP-01 reference matcher, authenticity oracle, address model, sliding window) and structural invariant walkers",
        }],
        "checks": checks,
        "not_applicable": na,
        "notes": "Exit codes of every check: 0 held on what was observed, 1 VIOLATION, 2 INCONCLUSIVE (deciding monitor not reached / watchdog). known_findings.json lists open findings (by mechanism key + directed witness) and fixed ones.",
    }
    with open(os.path.join(HERE, "MANIFEST.json"), "w") as fp:
        json.dump(man, fp, indent=1)
    print("MANIFEST.json: %d checks, %d not claimed" % (len(checks), len(na)))


if __name__ == "__main__":
    main()
