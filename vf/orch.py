"""
Orchestrator: shards a check over worker subprocesses, aggregates their monitor counters,
classifies violations against known_findings.json, writes evidence/<id>.json.

Exit codes: 0 held on everything explored (KNOWN-FINDING lines allowed), 1 violation
(VIOLATION line), 2 inconclusive (INCONCLUSIVE line).
"""
import hashlib
import importlib
import json
import os
import subprocess
import sys
import tempfile
import time
import shutil
from concurrent.futures import ThreadPoolExecutor

VERIF = os.path.dirname(os.path.dirname(os.path.abspath(__file__)))
PY = os.environ.get("VERIF_PYTHON", "/venv/bin/python")
KNOWN = os.path.join(VERIF, "known_findings.json")
EVIDENCE = os.path.join(VERIF, "evidence")
OUT = os.path.join(VERIF, "out")


def h(obj):
    if not isinstance(obj, str):
        obj = json.dumps(obj, sort_keys=True, default=repr, ensure_ascii=True)
    return hashlib.sha1(obj.encode("utf-8", "surrogatepass")).hexdigest()[:16]


def load_known(prop):
    try:
        with open(KNOWN) as fp:
            data = json.load(fp)
    except FileNotFoundError:
        return []
    return [f for f in data.get("findings", []) if f.get("property") == prop]


def check_module(prop):
    return importlib.import_module("vf.checks.%s" % prop.lower())


def worker_env():
    e = dict(os.environ)
    e["PYTHONHASHSEED"] = "0"
    e["PYTHONPATH"] = VERIF + os.pathsep + e.get("PYTHONPATH", "")
    e.setdefault("VERIF_REPO", "/repo")
    e["PYTHONDONTWRITEBYTECODE"] = "1"
    e["NOSTR_RELAY_VERIF"] = "1"
    return e


def run_worker(prop, spec, timeout, tmpdir, idx):
    spec_path = os.path.join(tmpdir, "spec-%d.json" % idx)
    out_path = os.path.join(tmpdir, "out-%d.json" % idx)
    with open(spec_path, "w") as fp:
        json.dump(spec, fp)
    wenv = worker_env()
    wtmp = os.path.join(tmpdir, "w%d" % idx)
    os.makedirs(wtmp, exist_ok=True)
    wenv["TMPDIR"] = wtmp
    t0 = time.time()
    try:
        p = subprocess.run(
            [PY, "-X", "faulthandler", "-m", "vf.worker", prop, spec_path, out_path],
            cwd=VERIF,
            env=wenv,
            stdout=subprocess.PIPE,
            stderr=subprocess.PIPE,
            timeout=timeout,
        )
        rc, err = p.returncode, p.stderr.decode("utf-8", "replace")
    except subprocess.TimeoutExpired as e:
        rc, err = "timeout", (e.stderr or b"").decode("utf-8", "replace")
    res = None
    if os.path.exists(out_path):
        try:
            with open(out_path) as fp:
                res = json.load(fp)
        except Exception as e:
            err += "\nunreadable result: %r" % e
    shutil.rmtree(wtmp, ignore_errors=True)
    return {"idx": idx, "rc": rc, "stderr": err[-4000:], "result": res, "wall": time.time() - t0,
            "spec": spec}


def merge_counters(dst, src):
    for k, v in (src or {}).items():
        if isinstance(v, dict):
            merge_counters(dst.setdefault(k, {}), v)
        elif isinstance(v, (int, float)) and not isinstance(v, bool):
            dst[k] = dst.get(k, 0) + v
        elif isinstance(v, list):
            cur = dst.setdefault(k, [])
            for i in v:
                if i not in cur and len(cur) < 50:
                    cur.append(i)
        else:
            dst[k] = v


def main(argv=None):
    import argparse

    ap = argparse.ArgumentParser()
    ap.add_argument("prop")
    ap.add_argument("--tier", default=os.environ.get("VERIF_TIER", "quick"))
    ap.add_argument("--seed", type=int, default=int(os.environ.get("VERIF_SEED", "0") or 0))
    ap.add_argument("--replay")
    ap.add_argument("--jobs", type=int, default=int(os.environ.get("VERIF_JOBS", "16")))
    ap.add_argument("--no-evidence", action="store_true")
    args = ap.parse_args(argv)
    prop = args.prop.upper()
    tier = args.tier if args.tier in ("quick", "thorough") else "quick"
    sys.path.insert(0, VERIF)
    mod = check_module(prop)
    t0 = time.time()
    tmpdir = tempfile.mkdtemp(prefix="vf-orch-")
    try:
        return _run(mod, prop, tier, args, tmpdir, t0)
    finally:
        shutil.rmtree(tmpdir, ignore_errors=True)


def _run(mod, prop, tier, args, tmpdir, t0):
    known = load_known(prop)
    open_known = {f["key"]: f for f in known if f.get("status") == "open"}
    timeout = getattr(mod, "SHARD_TIMEOUT", {"quick": 600, "thorough": 3000})[tier]

    if args.replay:
        with open(args.replay) as fp:
            rp = json.load(fp)
        r = run_worker(prop, {"replay": rp.get("replay", rp), "tier": tier, "seed": args.seed}, timeout, tmpdir, 0)
        res = r["result"] or {}
        vs = res.get("violations", [])
        for v in vs:
            print("REPLAY-VIOLATION property=%s key=%s %s" % (prop, v.get("key"), v.get("msg", "")[:300]))
        if r["rc"] not in (0,):
            print("replay worker rc=%s\n%s" % (r["rc"], r["stderr"][-1500:]))
        if vs:
            print("VIOLATION property=%s replay=%s" % (prop, os.path.abspath(args.replay)))
            return 1
        print("replay: no violation reproduced")
        return 0

    shards = mod.plan(tier, args.seed)
    # witnesses of open known findings are replayed first, each in its own worker
    jobs = []
    for i, (key, f) in enumerate(sorted(open_known.items())):
        if f.get("witness") is not None:
            jobs.append(("known", key, {"replay": f["witness"], "tier": tier, "seed": args.seed}))
    for s in shards:
        s = dict(s)
        s.setdefault("tier", tier)
        s.setdefault("seed", args.seed)
        jobs.append(("shard", None, s))

    results = []
    with ThreadPoolExecutor(max_workers=max(1, args.jobs)) as ex:
        futs = [ex.submit(run_worker, prop, spec, timeout, tmpdir, i) for i, (_, _, spec) in enumerate(jobs)]
        for (kind, key, _), f in zip(jobs, futs):
            r = f.result()
            r["kind"], r["key"] = kind, key
            results.append(r)

    evaluations = 0
    nontrivial = set()
    counters = {}
    coverage = {}
    samples = []
    inconclusive = []
    violations = []
    known_seen = {}
    for r in results:
        res = r["result"]
        if r["rc"] != 0 or res is None:
            why = "worker %s rc=%s: %s" % (r["idx"], r["rc"], r["stderr"][-600:].replace("\n", " | "))
            crash_is_violation = getattr(mod, "CRASH_IS_VIOLATION", False)
            if crash_is_violation and r["rc"] not in (0, "timeout") and res is None and r["kind"] == "shard":
                violations.append({"key": "worker-crash", "msg": why, "replay": r["spec"]})
            else:
                inconclusive.append(why)
            if res is None:
                continue
        if r["kind"] == "known":
            vs = res.get("violations", [])
            if any(v.get("key") == r["key"] for v in vs):
                known_seen[r["key"]] = known_seen.get(r["key"], 0) + 1
            for v in vs:
                if v.get("key") != r["key"]:
                    violations.append(v)
            continue
        evaluations += res.get("evaluations", 0)
        nontrivial.update(res.get("nontrivial", []))
        merge_counters(counters, res.get("counters"))
        merge_counters(coverage, res.get("coverage"))
        for s in res.get("samples", []):
            if len(samples) < 6:
                samples.append(s)
        inconclusive.extend(res.get("inconclusive", []))
        violations.extend(res.get("violations", []))

    new = []
    for v in violations:
        key = v.get("key") or "unclassified"
        if key in open_known:
            known_seen[key] = known_seen.get(key, 0) + 1
        else:
            new.append(v)

    floor = getattr(mod, "MIN_NONTRIVIAL", {"quick": 2, "thorough": 2})[tier]
    if len(nontrivial) < floor:
        inconclusive.append("distinct_nontrivial=%d below floor %d" % (len(nontrivial), floor))
    for name in getattr(mod, "REQUIRED_COUNTERS", []):
        cur = counters
        for part in name.split("."):
            cur = cur.get(part, 0) if isinstance(cur, dict) else 0
        if not cur:
            inconclusive.append("deciding monitor never evaluated: %s" % name)
    req_cov = getattr(mod, "REQUIRED_COVERAGE", {}).get(tier, [])
    for name in req_cov:
        cur = coverage
        for part in name.split("."):
            cur = cur.get(part, 0) if isinstance(cur, dict) else 0
        if not cur:
            inconclusive.append("coverage dimension never exercised: %s" % name)

    for key, n in sorted(known_seen.items()):
        f = open_known[key]
        print("KNOWN-FINDING: property=%s %s: %s (seen %d time(s) in this run)" % (prop, key, f.get("what", ""), n))

    os.makedirs(os.path.join(OUT, "replay"), exist_ok=True)
    for fn in os.listdir(os.path.join(OUT, "replay")):
        if fn.startswith(prop + "-"):
            os.unlink(os.path.join(OUT, "replay", fn))
    rc = 0
    seen_keys = set()
    for v in new:
        key = v.get("key") or "unclassified"
        if key in seen_keys and len(seen_keys) > 0 and sum(1 for _ in seen_keys) > 20:
            continue
        path = os.path.join(OUT, "replay", "%s-%s.json" % (prop, h(v.get("replay", v))))
        with open(path, "w") as fp:
            json.dump({"property": prop, "key": key, "msg": v.get("msg"), "replay": v.get("replay")}, fp,
                      indent=1, default=repr)
        if key not in seen_keys and len(seen_keys) < 25:
            print("  witness key=%s: %s" % (key, (v.get("msg") or "")[:700].replace("\n", " ")))
            print("VIOLATION property=%s replay=%s" % (prop, path))
        seen_keys.add(key)
        rc = 1

    if inconclusive:
        if rc == 0:
            rc = 2
        for w in inconclusive[:10]:
            print("INCONCLUSIVE property=%s %s" % (prop, w[:700]))

    wall = time.time() - t0
    if not args.no_evidence:
        os.makedirs(EVIDENCE, exist_ok=True)
        ev = {
            "property_id": prop,
            "tier": tier,
            "seed": args.seed,
            "level": getattr(mod, "LEVEL", "exploration"),
            "coverage": dict(
                coverage,
                evaluations=evaluations,
                distinct_nontrivial=len(nontrivial),
                rule=getattr(mod, "RULE", ""),
                samples=samples,
                monitor_counters=counters,
                shards=len([j for j in jobs if j[0] == "shard"]),
                known_findings_reproduced=sorted(known_seen),
                inconclusive=inconclusive[:10],
                exhaustive=bool(getattr(mod, "EXHAUSTIVE", {}).get(tier, False)) if isinstance(getattr(mod, "EXHAUSTIVE", None), dict) else False,
            ),
            "assumptions": getattr(mod, "ASSUMPTIONS", []),
            "wall_s": round(wall, 2),
            "violations": len(new),
            "verdict": {0: "held on what was observed", 1: "violated", 2: "inconclusive"}[rc],
            "repo": os.environ.get("VERIF_REPO", "/repo"),
        }
        with open(os.path.join(EVIDENCE, "%s.json" % prop), "w") as fp:
            json.dump(ev, fp, indent=1, default=repr, ensure_ascii=True)
    print(
        "%s tier=%s seed=%d evaluations=%d distinct_nontrivial=%d violations=%d known=%d wall=%.1fs -> %s"
        % (prop, tier, args.seed, evaluations, len(nontrivial), len(new), len(known_seen), wall,
           {0: "HELD", 1: "VIOLATED", 2: "INCONCLUSIVE"}[rc])
    )
    return rc
