"""
Output validator used by C14 (configured as `output_validator: vf.ov.check`): logs every
call and lets an event through unless its content says otherwise.
"""
CALLS = []


def check(event, context):
    verdict = "deny-output" not in (event.content or "")
    auth = context.get("auth_token") or {}
    if "only-for:" in (event.content or ""):
        verdict = verdict and (auth.get("pubkey") or "anon") in event.content
    CALLS.append((event.id, str(context.get("client_id")), verdict))
    return verdict
