"""
Shared plumbing for the query-answer checks (C01, C02, C11, C12): load a store through the
websocket EVENT path, issue REQs one at a time, slice the boundary log per REQ, record the
statements / generated predicates the storage engine was handed.
"""
import asyncio
import json
import time

from . import rig as R, ref, dump


class StatementTap:
    """records SQL texts reaching the DBAPI cursor and engine errors (SQL backend), or
    sources handed to compile() and planner decisions (LMDB backend)"""

    def __init__(self, rig):
        self.rig = rig
        self.sql = []
        self.errors = []
        self.compiled = []
        self.plans = []
        self.installed = False

    def install(self):
        if self.installed:
            return self
        self.installed = True
        if self.rig.backend == "sql":
            from sqlalchemy import event as sa_event

            eng = self.rig.storage.db.sync_engine

            def before(conn, cursor, statement, parameters, context, executemany):
                self.sql.append((statement, repr(parameters)[:200]))

            def on_error(ctx):
                self.errors.append((type(ctx.original_exception).__name__, str(ctx.original_exception)[:200],
                                    (ctx.statement or "")[:300]))

            sa_event.listen(eng, "before_cursor_execute", before)
            sa_event.listen(eng, "handle_error", on_error)
        else:
            from nostr_relay.storage import kv
            import builtins

            tap = self

            def rec_compile(source, filename, mode, *a, **k):
                tap.compiled.append(source)
                return builtins.compile(source, filename, mode, *a, **k)

            kv.compile = rec_compile
            orig_planner = kv.planner

            def rec_planner(filters, *a, **k):
                plans = orig_planner(filters, *a, **k)
                for p in plans:
                    idx = p.index
                    name = type(idx).__name__
                    if name == "MultiIndex":
                        name = "MultiIndex(" + ",".join(type(i[0]).__name__ for i in idx.indexes) + ")"
                    tap.plans.append(name)
                return plans

            if not getattr(kv.planner, "_vf", False):
                rec_planner._vf = True
                kv.planner = rec_planner
        return self

    def mark(self):
        return (len(self.sql), len(self.errors), len(self.compiled), len(self.plans))

    def since(self, m):
        return {
            "sql": self.sql[m[0]:],
            "errors": self.errors[m[1]:],
            "compiled": self.compiled[m[2]:],
            "plans": self.plans[m[3]:],
        }


async def load_store(rig, conn, events, chunk=50):
    """submit events in order; returns {id: (ok, reason)} by OK frames (position-matched)"""
    acks = {}
    for ev in events:
        n0 = rig.rec.n
        await conn.cmd(["EVENT", ev])
        oks = R.ok_frames(conn, n0)
        if oks:
            f = oks[-1][1]
            acks[ev["id"]] = (f[2] if len(f) > 2 else None, f[3] if len(f) > 3 else "")
        else:
            acks[ev["id"]] = (None, "no OK frame")
    await rig.quiesce()
    return acks


_subno = [0]


HOSTILE_SUB_IDS = [":feed%d", "thread [:%d]", "a :b%d c", "x'%d", 'q"%d', "%%s %d", "é %d", "--%d", "/*%d*/", "inbox-:%d", "%d;", "\\%d", "{%d}", " :name%d", "%d\n"]


async def run_req(rig, conn, filters, sub_id=None, close=True, timeout=30.0):
    """
    Issue one REQ and wait for its answer. Returns dict:
      events: [event dict] before EOSE (in order), eose: bool, notices: [str],
      extra: frames for this sub after EOSE, n0: log position before the REQ
    """
    if sub_id is None:
        _subno[0] += 1
        sub_id = "q%d" % _subno[0]
        if _subno[0] % 9 == 4:
            # the subscription id is client data as well: none of these may change what a REQ returns
            sub_id = HOSTILE_SUB_IDS[(_subno[0] // 9) % len(HOSTILE_SUB_IDS)] % _subno[0]
    n0 = rig.rec.n
    await conn.cmd(["REQ", sub_id] + list(filters), timeout=timeout)
    # wait for EOSE / NOTICE / exit
    t0 = time.monotonic()
    while True:
        frames = conn.parsed_frames(n0)
        done = conn.exited
        for n, f in frames:
            if isinstance(f, list) and f and ((f[0] == "EOSE" and len(f) > 1 and f[1] == sub_id) or f[0] == "NOTICE"):
                done = True
        if done:
            break
        await asyncio.sleep(0.001)
        if time.monotonic() - t0 > timeout:
            break
    await rig.quiesce()
    frames = conn.parsed_frames(n0)
    before, eose, after = R.split_req_answer(frames, sub_id)
    notices = [f[1] for n, f in frames if isinstance(f, list) and f and f[0] == "NOTICE" and len(f) > 1]
    if close and not conn.exited:
        await conn.cmd(["CLOSE", sub_id])
    return {
        "sub_id": sub_id,
        "events": [e for n, e in before],
        "eose": eose,
        "notices": notices,
        "extra": [e for n, e in after],
        "n0": n0,
        "exited": conn.exited,
    }
