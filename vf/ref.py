"""
Reference oracles.  Deliberately independent of the repository and of aionostr:
stdlib json + hashlib + coincurve only.
"""
import json
import hashlib
import re

from coincurve import PrivateKey as _SK, PublicKeyXOnly as _PKX

MUST, MAY, NO, EMPTY = "MUST", "MAY", "NO", "EMPTY"

_HEX64 = re.compile(r"\A[0-9a-f]{64}\Z")
_HEX128 = re.compile(r"\A[0-9a-f]{128}\Z")
# control characters on which stdlib json and rapidjson disagree (hex digit case) and for
# which NIP-01 wants the raw character: every C0 control except \n \r \t \b \f
_AMBIG = set(range(0x20)) - {0x0A, 0x0D, 0x09, 0x08, 0x0C}


def canon(pubkey, created_at, kind, tags, content):
    return json.dumps(
        [0, pubkey, created_at, kind, tags, content], separators=(",", ":"), ensure_ascii=False
    ).encode("utf-8", "surrogatepass")


def compute_id(pubkey, created_at, kind, tags, content):
    return hashlib.sha256(canon(pubkey, created_at, kind, tags, content)).hexdigest()


def _strings(obj):
    if isinstance(obj, str):
        yield obj
    elif isinstance(obj, (list, tuple)):
        for i in obj:
            yield from _strings(i)


def has_ambiguous_control(ev):
    for s in _strings([ev.get("content"), ev.get("tags")]):
        for ch in s:
            if ord(ch) in _AMBIG:
                return True
    return False


def _alt_ids(ev):
    """ids under the alternative renderings of ambiguous control characters"""
    base = canon(ev["pubkey"], ev["created_at"], ev["kind"], ev["tags"], ev["content"]).decode(
        "utf-8", "surrogatepass"
    )
    outs = set()

    def up(m):
        return "\\u" + m.group(1).upper()

    def raw(m):
        return chr(int(m.group(1), 16))

    # simpler and safer: re-render every candidate by walking the JSON text
    for mode in ("upper", "raw"):
        s = []
        i = 0
        n = len(base)
        while i < n:
            if base[i] == "\\" and i + 1 < n:
                if base[i + 1] == "u" and i + 6 <= n:
                    cp = int(base[i + 2 : i + 6], 16)
                    if cp in _AMBIG:
                        s.append(("\\u%04X" % cp) if mode == "upper" else chr(cp))
                    else:
                        s.append(base[i : i + 6])
                    i += 6
                    continue
                s.append(base[i : i + 2])
                i += 2
                continue
            s.append(base[i])
            i += 1
        outs.add(hashlib.sha256("".join(s).encode("utf-8", "surrogatepass")).hexdigest())
    return outs


def well_typed(ev):
    """(ok, reason) - structural requirements of NIP-01 on a raw JSON event"""
    if not isinstance(ev, dict):
        return False, "not an object"
    need = {"id", "pubkey", "created_at", "kind", "tags", "content", "sig"}
    if set(ev.keys()) != need:
        return False, "keys %s" % sorted(set(ev.keys()) ^ need)
    if not (isinstance(ev["id"], str) and _HEX64.match(ev["id"])):
        return False, "id not 64 lowercase hex"
    if not (isinstance(ev["pubkey"], str) and _HEX64.match(ev["pubkey"])):
        return False, "pubkey not 64 lowercase hex"
    if not (isinstance(ev["sig"], str) and _HEX128.match(ev["sig"])):
        return False, "sig not 128 lowercase hex"
    for f in ("created_at", "kind"):
        if not isinstance(ev[f], int) or isinstance(ev[f], bool):
            return False, "%s not an integer" % f
    if not isinstance(ev["content"], str):
        return False, "content not a string"
    if not isinstance(ev["tags"], list):
        return False, "tags not a list"
    for t in ev["tags"]:
        if not isinstance(t, list):
            return False, "tag not a list"
        # items other than strings are not rejected here: the properties only require that,
        # IF such an event is admitted, it is served back verbatim (C04)
    return True, ""


def schnorr_ok(pubkey_hex, sig_hex, msg32):
    try:
        return bool(_PKX(bytes.fromhex(pubkey_hex)).verify(bytes.fromhex(sig_hex), msg32))
    except Exception:
        return False


def authentic(ev):
    """
    (verdict, reason): verdict True = authentic, False = definitely not authentic,
    None = only authentic under an alternative rendering of ambiguous control characters
    (no obligation either way).
    """
    ok, why = well_typed(ev)
    if not ok:
        return False, why
    try:
        real = compute_id(ev["pubkey"], ev["created_at"], ev["kind"], ev["tags"], ev["content"])
    except Exception as e:  # lone surrogates etc.
        return False, "unserialisable: %s" % e
    verdict = True
    if real != ev["id"]:
        if has_ambiguous_control(ev) and ev["id"] in _alt_ids(ev):
            verdict = None
        else:
            return False, "id is not the hash of the fields"
    if not schnorr_ok(ev["pubkey"], ev["sig"], bytes.fromhex(ev["id"])):
        return False, "bad signature"
    for t in ev["tags"]:
        if t and t[0] == "delegation":
            if len(t) != 4:
                return False, "delegation tag with %d items" % len(t)
            _, delegator, cond, sig = t
            if not all(isinstance(x, str) for x in t):
                return False, "delegation tag item not a string"
            if not _HEX64.match(delegator) and not re.match(r"\A[0-9a-fA-F]{64}\Z", delegator):
                return False, "delegator not hex"
            tok = ("nostr:delegation:%s:%s" % (ev["pubkey"], cond)).encode("utf-8", "surrogatepass")
            if not schnorr_ok(delegator.lower(), sig, hashlib.sha256(tok).digest()):
                return False, "bad delegation signature"
    return verdict, ""


# ---------------------------------------------------------------------------------------
# keys / event construction (harness side)


class Key:
    def __init__(self, secret_hex):
        self.sk_hex = secret_hex
        self._sk = _SK(bytes.fromhex(secret_hex))
        self.pk = self._sk.public_key.format()[1:].hex()

    def sign(self, msg32: bytes) -> str:
        return self._sk.sign_schnorr(msg32, None).hex()


def key_from_seed(label):
    return Key(hashlib.sha256(("verif-key-%s" % label).encode()).hexdigest())


_MINED = {}
_MINED_BY_PK = {}


def mined_key(prefix_hex, salt=""):
    """A key whose x-only pubkey starts with prefix_hex (2 hex chars is cheap)"""
    ck = (prefix_hex, salt)
    if ck in _MINED:
        return _MINED[ck]
    i = 0
    while True:
        k = key_from_seed("mine-%s-%s-%d" % (prefix_hex, salt, i))
        if k.pk.startswith(prefix_hex):
            _MINED[ck] = k
            _MINED_BY_PK[k.pk] = k
            return k
        i += 1


def make_event(key, kind=1, created_at=1700000000, tags=None, content="", id_prefix=None,
               delegation=None):
    """
    Build a signed raw event dict. id_prefix: mine `content` suffix until the id starts
    with it. delegation: (delegator Key, conditions) adds a valid NIP-26 tag.
    """
    tags = [list(t) for t in (tags or [])]
    if delegation:
        dkey, cond = delegation
        tok = ("nostr:delegation:%s:%s" % (key.pk, cond)).encode()
        tags.append(["delegation", dkey.pk, cond, dkey.sign(hashlib.sha256(tok).digest())])
    n = 0
    c = content
    while True:
        eid = compute_id(key.pk, created_at, kind, tags, c)
        if id_prefix is None or eid.startswith(id_prefix):
            break
        n += 1
        c = "%s #%d" % (content, n)
    return {
        "id": eid,
        "pubkey": key.pk,
        "created_at": created_at,
        "kind": kind,
        "tags": tags,
        "content": c,
        "sig": key.sign(bytes.fromhex(eid)),
    }


def resign(ev, key):
    """recompute id and sig of a (possibly type-confused) event dict; may raise"""
    eid = compute_id(ev["pubkey"], ev["created_at"], ev["kind"], ev["tags"], ev["content"])
    ev = dict(ev)
    ev["id"] = eid
    ev["sig"] = key.sign(bytes.fromhex(eid))
    return ev


# ---------------------------------------------------------------------------------------
# NIP-01 matching on raw client filters


def _is_int(x):
    return isinstance(x, int) and not isinstance(x, bool)


def _lax_int(x):
    """natural coercions a lax validator may apply; returns int or None"""
    if _is_int(x):
        return x
    if isinstance(x, float) and x == int(x):
        return int(x)
    if isinstance(x, str):
        try:
            return int(x.strip())
        except ValueError:
            return None
    return None


def tag_conditions(flt):
    """[(name, value)] for keys that are '#' + exactly one code point"""
    out = []
    for k, v in flt.items():
        if isinstance(k, str) and len(k) == 2 and k[0] == "#":
            out.append((k[1], v))
    return out


def delegators(ev):
    return [
        t[1].lower()
        for t in ev.get("tags", [])
        if isinstance(t, list) and len(t) >= 2 and t[0] == "delegation" and isinstance(t[1], str)
    ]


def cond_verdicts(ev, flt):
    """
    dict condition-name -> MUST | MAY | NO | 'FREE' for every judged condition of a raw
    filter.  FREE = ill-typed condition on which the oracle takes no position.
    """
    out = {}
    if not isinstance(flt, dict):
        return None
    for field, evval in (("ids", ev["id"]), ("authors", ev["pubkey"])):
        if field in flt:
            v = flt[field]
            if not isinstance(v, list) or any(not isinstance(i, str) for i in v):
                out[field] = "FREE"
                continue
            if evval in v:
                out[field] = MUST
            elif any(evval == i.lower() for i in v):
                out[field] = MAY
            elif any(i and evval.startswith(i.lower()) for i in v):
                out[field] = MAY  # prefix reading (old NIP-01)
            elif field == "authors" and any(d in [i.lower() for i in v] for d in delegators(ev)):
                out[field] = MAY
            elif field == "authors" and any(
                d.startswith(i.lower()) for d in delegators(ev) for i in v if i
            ):
                out[field] = MAY
            else:
                out[field] = NO
    if "kinds" in flt:
        v = flt["kinds"]
        if not isinstance(v, list):
            out["kinds"] = "FREE"
        elif ev["kind"] in [i for i in v if _is_int(i)]:
            out["kinds"] = MUST
        elif ev["kind"] in [_lax_int(i) for i in v]:
            out["kinds"] = MAY
        elif any(isinstance(i, bool) or not isinstance(i, (int, float, str)) for i in v):
            out["kinds"] = "FREE"
        else:
            out["kinds"] = NO
    for field, sign in (("since", 1), ("until", -1)):
        if field in flt:
            b = flt[field]
            if b is None:
                continue
            li = _lax_int(b)
            if li is None or isinstance(b, bool):
                out[field] = "FREE"
                continue
            d = (ev["created_at"] - li) * sign
            if d > 0:
                out[field] = MUST if _is_int(b) else MAY
            elif d == 0:
                out[field] = MAY
            else:
                out[field] = NO
    for name, v in tag_conditions(flt):
        key = "#" + name
        if not isinstance(v, list) or any(not isinstance(i, str) for i in v):
            out[key] = "FREE"
            continue
        vals = set(v)
        strict = lenient = False
        for t in ev.get("tags", []):
            if isinstance(t, (list, tuple)) and len(t) >= 1 and t[0] == name:
                if len(t) >= 2:
                    if isinstance(t[1], str) and t[1] in vals:
                        strict = True
                    elif not isinstance(t[1], str) and str(t[1]) in vals:
                        lenient = True  # non-string item rendered as text
                elif "" in vals:
                    lenient = True  # bare [name] tag read as the empty value
        out[key] = MUST if strict else (MAY if lenient else NO)
    return out


def match3(ev, flt):
    cv = cond_verdicts(ev, flt)
    if cv is None:
        return NO  # not an object: can never match
    if not cv:
        return EMPTY
    vals = list(cv.values())
    if NO in vals:
        return NO
    if all(v == MUST for v in vals):
        return MUST
    return MAY


def match_any(ev, filters):
    """best verdict over a REQ's filters: MUST > MAY > EMPTY > NO"""
    best = NO
    order = {NO: 0, EMPTY: 1, MAY: 2, MUST: 3}
    for f in filters:
        v = match3(ev, f)
        if order[v] > order[best]:
            best = v
    return best


def wellformed_filter(flt, max_ts=2145934800):
    """True if every condition of the filter is well-typed and inside the relay's range"""
    if not isinstance(flt, dict) or not flt:
        return False
    n = 0
    for k, v in flt.items():
        if k in ("ids", "authors"):
            if not isinstance(v, list) or not v:
                return False
            if any(not isinstance(i, str) or not _HEX64.match(i) for i in v):
                return False
            n += 1
        elif k == "kinds":
            if not isinstance(v, list) or not v or any(not _is_int(i) or not (0 <= i <= 65535) for i in v):
                return False
            n += 1
        elif k in ("since", "until"):
            if not _is_int(v) or not (0 <= v < max_ts):
                return False
            n += 1
        elif k == "limit":
            if not _is_int(v) or v < 0:
                return False
        elif isinstance(k, str) and len(k) == 2 and k[0] == "#":
            if not isinstance(v, list) or not v or any(not isinstance(i, str) for i in v):
                return False
            n += 1
        else:
            return False
    return n > 0


# ---------------------------------------------------------------------------------------
# address model


def kind_class(kind):
    if kind in (0, 3) or 10000 <= kind < 20000:
        return "replaceable"
    if 20000 <= kind < 30000:
        return "ephemeral"
    if 30000 <= kind < 40000:
        return "param"
    return "regular"


def d_value(ev):
    for t in ev["tags"]:
        if isinstance(t, list) and t and t[0] == "d":
            if len(t) > 1 and isinstance(t[1], str):
                return t[1]
            return ""
    return ""


def address(ev):
    kc = kind_class(ev["kind"])
    if kc == "replaceable":
        return (ev["pubkey"], ev["kind"])
    if kc == "param":
        return (ev["pubkey"], ev["kind"], d_value(ev))
    return None


# ---------------------------------------------------------------------------------------
# sliding-window limiter reference


class SlidingWindow:
    def __init__(self):
        self.admitted = {}

    def count(self, scope, cmd, now, interval):
        return sum(1 for t in self.admitted.get((scope, cmd), []) if now - t < interval)

    def admit(self, scope, cmd, now):
        self.admitted.setdefault((scope, cmd), []).append(now)


# ---------------------------------------------------------------------------------------
# skeletons (C01)

_SQL_TOKEN = re.compile(
    r"""
    (?P<ws>\s+)
  | (?P<comment>--[^\n]*|/\*.*?\*/)
  | (?P<blob>[xX]'(?:[^']|'')*')
  | (?P<str>'(?:[^']|'')*')
  | (?P<qident>"(?:[^"]|"")*")
  | (?P<num>\d+(?:\.\d+)?)
  | (?P<bind>[:?][A-Za-z_][A-Za-z_0-9]*|\?)
  | (?P<ident>[A-Za-z_][A-Za-z_0-9]*)
  | (?P<punct>.)
""",
    re.X | re.S,
)


def sql_skeleton(text):
    """token-kind sequence of a SQL text with literal values erased"""
    out = []
    for m in _SQL_TOKEN.finditer(text):
        k = m.lastgroup
        if k == "ws":
            continue
        if k in ("str", "blob", "num"):
            out.append(k.upper())
        elif k == "ident":
            out.append(m.group().lower())
        elif k == "bind":
            out.append("BIND")
        elif k == "comment":
            out.append("COMMENT")
        elif k == "qident":
            out.append("QIDENT")
        else:
            out.append(m.group())
    return tuple(out)


def py_skeleton(source):
    """AST shape of generated python with constants erased (type kept)"""
    import ast

    tree = ast.parse(source)

    def walk(n):
        if isinstance(n, ast.Constant):
            return ("K", type(n.value).__name__)
        if isinstance(n, ast.AST):
            fields = []
            for name, val in ast.iter_fields(n):
                if name in ("lineno", "col_offset", "end_lineno", "end_col_offset", "ctx"):
                    continue
                fields.append((name, walk(val)))
            return (type(n).__name__, tuple(fields))
        if isinstance(n, list):
            return tuple(walk(i) for i in n)
        return n

    return walk(tree)
