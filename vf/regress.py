"""
Regression of the kept seeded changes against the current checks:
    python -m vf.regress [--jobs 3] [--only PATTERN] [--out FILE]
For every /verif/seeded/<name>/ (patch.diff + meta.json): scratch worktree of /repo HEAD, git apply, the quick tier of
the check(s) that caught it when it was kept (meta.caught_by) with VERIF_REPO=<worktree> --no-evidence, worktree removed.
Prints one line per change and a summary; exit 1 if a change that applies is no longer caught.
"""
import argparse
import json
import os
import re
import subprocess
import sys
import tempfile
import shutil
from concurrent.futures import ThreadPoolExecutor

VERIF = os.path.dirname(os.path.dirname(os.path.abspath(__file__)))


def sh(cmd, env=None, timeout=3600):
    p = subprocess.run(cmd, stdout=subprocess.PIPE, stderr=subprocess.STDOUT, env=env, timeout=timeout)
    return p.returncode, p.stdout.decode("utf-8", "replace")


def one(name):
    d = os.path.join(VERIF, "seeded", name)
    try:
        meta = json.load(open(os.path.join(d, "meta.json")))
    except Exception:
        meta = {}
    prop = meta.get("breaks_property") or name[:3]
    checks = meta.get("caught_by") or [prop]
    wt = tempfile.mkdtemp(prefix="rg-", dir="/tmp")
    os.rmdir(wt)
    res = {"name": name, "checks": checks}
    try:
        rc, o = sh(["git", "-C", "/repo", "worktree", "add", "-q", "--detach", wt, "HEAD"])
        if rc:
            res["error"] = o[-200:]
            return res
        rc, o = sh(["git", "-C", wt, "apply", os.path.join(d, "patch.diff")])
        if rc:
            res["applies"] = False
            return res
        res["applies"] = True
        caught = []
        for c in checks:
            e = dict(os.environ, VERIF_REPO=wt)
            rc, o = sh([os.path.join(VERIF, "vcheck"), c, "--tier", "quick", "--no-evidence", "--jobs", "8"], env=e, timeout=5400)
            if rc == 1:
                caught.append(c)
                break
            res.setdefault("verdicts", {})[c] = {0: "held", 2: "inconclusive"}.get(rc, str(rc))
        res["caught_by"] = caught
    except subprocess.TimeoutExpired:
        res["error"] = "timeout"
    finally:
        sh(["git", "-C", "/repo", "worktree", "remove", "--force", wt])
        shutil.rmtree(wt, ignore_errors=True)
    return res


def main():
    ap = argparse.ArgumentParser()
    ap.add_argument("--jobs", type=int, default=2)
    ap.add_argument("--only", default="")
    ap.add_argument("--out", default="")
    a = ap.parse_args()
    names = sorted(n for n in os.listdir(os.path.join(VERIF, "seeded")) if os.path.isdir(os.path.join(VERIF, "seeded", n)) and re.search(a.only, n))
    out = []
    with ThreadPoolExecutor(max_workers=a.jobs) as ex:
        for r in ex.map(one, names):
            out.append(r)
            state = "ERROR " + r["error"] if r.get("error") else ("does-not-apply" if r.get("applies") is False else ("caught by " + ",".join(r["caught_by"]) if r.get("caught_by") else "MISSED " + json.dumps(r.get("verdicts"))))
            print("%-70s %s" % (r["name"], state), flush=True)
            if a.out:
                json.dump(out, open(a.out, "w"), indent=1)
    missed = [r["name"] for r in out if r.get("applies") and not r.get("caught_by") and not r.get("error")]
    na = [r["name"] for r in out if r.get("applies") is False]
    print("SUMMARY: %d changes, %d caught, %d missed, %d do not apply to the current HEAD, %d errors" % (len(out), sum(1 for r in out if r.get("caught_by")), len(missed), len(na), sum(1 for r in out if r.get("error"))))
    for n in missed:
        print("MISSED:", n)
    for n in na:
        print("DOES-NOT-APPLY:", n)
    return 1 if missed else 0


if __name__ == "__main__":
    sys.exit(main())
