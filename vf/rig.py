"""
The rig: one real relay storage + the real web.start_client coroutine per virtual
connection, with harness-owned ws_send / ws_recv / ws_close.  Everything observed at that
boundary is appended to one global, totally ordered log (single loop thread).
"""
import asyncio
import json
import os
import sys
import threading
import time as _time
import queue as _queue
import collections
import gc

from . import env

_DISCONNECT = object()


class Recorder:
    def __init__(self):
        self.events = []
        self.n = 0
        self.last_activity = 0

    def log(self, conn, kind, data=None):
        self.n += 1
        self.events.append((self.n, conn, kind, data))
        return self.n


class Conn:
    """A virtual websocket connection served by web.start_client"""

    def __init__(self, rig, name, addr="10.0.0.1", send_delay=None, rate_limiter=None,
                 message_timeout=1800, storage=None):
        self.rig = rig
        self.storage = storage
        self.name = name
        self.addr = addr
        self.inbox = asyncio.Queue()
        self.delivered = 0
        self.recv_calls = 0
        self.frames = []  # (n, text) every frame handed to ws_send (at send-call)
        self.send_delay = send_delay  # None | callable() -> seconds (or 0 for sleep(0))
        self.sends_in_flight = 0
        self.closed_code = None
        self.exited = False
        self.exit_exc = None
        self._parked = asyncio.Event()
        self.rate_limiter = rate_limiter
        self.message_timeout = message_timeout
        self.task = None
        self.send_error = None  # exception class to raise from ws_send (fault)
        self.send_gate = None  # asyncio.Event: while it is clear, ws_send blocks (a peer that does not read)
        self.sends_stalled = 0

    # ---- the three callables handed to the relay ------------------------------------
    async def ws_recv(self):
        self.recv_calls += 1
        self.rig.rec.log(self.name, "recv-call", self.recv_calls)
        self._parked.set()
        item = await self.inbox.get()
        self._parked.clear()
        if item is _DISCONNECT:
            self.rig.rec.log(self.name, "recv-disc")
            import falcon

            raise falcon.WebSocketDisconnected()
        self.rig.rec.log(self.name, "recv-ret", item)
        return item

    async def ws_send(self, text):
        n = self.rig.rec.log(self.name, "send-call", text)
        self.frames.append((n, text))
        if self.send_error is not None:
            raise self.send_error
        if self.send_gate is not None and not self.send_gate.is_set():
            self.sends_stalled += 1
            try:
                await self.send_gate.wait()
            finally:
                self.sends_stalled -= 1
        if self.send_delay is not None:
            self.sends_in_flight += 1
            try:
                d = self.send_delay()
                if d:
                    await asyncio.sleep(d)
                else:
                    await asyncio.sleep(0)
            finally:
                self.sends_in_flight -= 1
        self.rig.rec.log(self.name, "send-ret", n)

    async def ws_close(self, code=1000):
        self.closed_code = code
        self.rig.rec.log(self.name, "close", code)

    # ---- driver side -------------------------------------------------------------------
    def start(self):
        from nostr_relay import web

        async def runner():
            try:
                await web.start_client(
                    self.storage or self.rig.storage,
                    self.ws_send,
                    self.ws_recv,
                    self.ws_close,
                    self.rig.log,
                    message_timeout=self.message_timeout,
                    rate_limiter=self.rate_limiter or self.rig.null_limiter,
                    remote_addr=self.addr,
                )
            except BaseException as e:  # noqa
                self.exit_exc = e
                self.rig.rec.log(self.name, "handler-exc", repr(e))
                if isinstance(e, asyncio.CancelledError):
                    raise
            finally:
                self.exited = True
                self._parked.set()
                self.rig.rec.log(self.name, "handler-exit")

        self.task = asyncio.get_running_loop().create_task(runner(), name="conn-" + self.name)
        return self

    def feed(self, frame):
        """hand one text frame (or python object to be JSON encoded) to the relay"""
        if not isinstance(frame, str):
            obj = frame
            frame = json.dumps(obj, ensure_ascii=False, separators=(",", ":"))
            try:
                frame.encode("utf-8")
            except UnicodeEncodeError:
                # lone surrogates cannot travel in a UTF-8 text frame; their JSON escapes can
                frame = json.dumps(obj, ensure_ascii=True, separators=(",", ":"))
        self.delivered += 1
        self.rig.rec.log(self.name, "feed", frame)
        self.inbox.put_nowait(frame)
        return frame

    def disconnect(self):
        self.rig.rec.log(self.name, "feed-disc")
        self.inbox.put_nowait(_DISCONNECT)

    async def processed(self, timeout=30.0):
        """wait until the relay asks for the next frame after everything fed so far"""
        t0 = _time.monotonic()
        while not self.exited and self.recv_calls < self.delivered + 1:
            self._parked.clear()
            try:
                await asyncio.wait_for(self._parked.wait(), 0.5)
            except asyncio.TimeoutError:
                pass
            if _time.monotonic() - t0 > timeout:
                raise Inconclusive("connection %s did not finish a command within %ss" % (self.name, timeout))

    async def cmd(self, frame, timeout=30.0):
        f = self.feed(frame)
        await self.processed(timeout)
        return f

    def parsed_frames(self, since_n=0):
        out = []
        for n, text in self.frames:
            if n > since_n:
                try:
                    out.append((n, json.loads(text)))
                except Exception:
                    out.append((n, None))
        return out


class Inconclusive(Exception):
    pass


class CountingQueue:
    """SimpleQueue stand-in that lets the rig decide 'LMDB writer idle' by counting: the writer is idle
    when every item that was put has been taken AND the writer is parked in a blocking get() again
    (it only comes back for more after the transaction of what it took has ended)"""

    def __init__(self):
        self._q = _queue.SimpleQueue()
        self._lock = threading.Lock()
        self.puts = 0
        self.taken = 0
        self.waiting = 0

    def put(self, item, *a, **k):
        with self._lock:
            self.puts += 1
        self._q.put(item)

    put_nowait = put

    def get(self, block=True, timeout=None):
        if block and timeout is None:
            with self._lock:
                self.waiting += 1
            try:
                item = self._q.get()
            except BaseException:
                with self._lock:
                    self.waiting -= 1
                raise
            with self._lock:
                self.waiting -= 1
                self.taken += 1
            return item
        item = self._q.get(block, timeout)  # may raise Empty
        with self._lock:
            self.taken += 1
        return item

    def get_nowait(self):
        return self.get(False)

    def qsize(self):
        return self._q.qsize()

    def empty(self):
        return self._q.empty()

    def idle(self):
        with self._lock:
            return self.taken == self.puts and self.waiting >= 1


class _QueueModule:
    SimpleQueue = CountingQueue
    Queue = _queue.Queue
    Full = _queue.Full
    Empty = _queue.Empty


from concurrent.futures import ThreadPoolExecutor as _TPE


class CountingExecutor(_TPE):
    """default-executor replacement: counts in-flight jobs, optional start delay"""

    def __init__(self, workers=4, delay=None):
        super().__init__(max_workers=workers, thread_name_prefix="vf-exec")
        self.in_flight = 0
        self._cnt_lock = threading.Lock()
        self.delay = delay
        self.jobs = 0

    def submit(self, fn, *a, **k):
        with self._cnt_lock:
            self.in_flight += 1
            self.jobs += 1

        def job():
            try:
                if self.delay:
                    d = self.delay()
                    if d:
                        _time.sleep(d)
                return fn(*a, **k)
            finally:
                with self._cnt_lock:
                    self.in_flight -= 1

        return super().submit(job)


class _AsyncioProxy:
    """stands in for the `asyncio` module inside nostr_relay.web: identical except that
    sleep() (only used there for client throttling) takes no real time; the requested
    durations are recorded"""

    def __init__(self, real):
        self._real = real
        self.slept = []

    def __getattr__(self, name):
        return getattr(self._real, name)

    async def sleep(self, delay, result=None):
        self.slept.append(delay)
        await self._real.sleep(0)
        return result


BUSY_CORO_NAMES = ("notify", "run_query", "_bounce_to_relay")


class Rig:
    def __init__(self, backend="sql", config=None, storage_options=None, scratch_dir=None,
                 exec_delay=None, real_throttle=False):
        self.backend = backend
        self.real_throttle = real_throttle
        self.scratch = scratch_dir or env.scratch("vf-rig-")
        self.rec = Recorder()
        self.conns = {}
        self.storage = None
        self.config_overrides = dict(config or {})
        self.storage_options = dict(storage_options or {})
        self.loop_errors = []
        self.exec_delay = exec_delay
        import logging

        self.log = logging.getLogger("nostr_relay.web")

    # ---- lifecycle -----------------------------------------------------------------
    def storage_config(self):
        if self.backend == "sql":
            opts = {
                "sqlalchemy.url": "sqlite+aiosqlite:///" + os.path.join(self.scratch, "nostr.sqlite3"),
            }
        else:
            opts = {
                "class": "nostr_relay.storage.kv.LMDBStorage",
                "path": os.path.join(self.scratch, "lmdb"),
                "map_size": 64 * 1024 * 1024,
                "pool_size": 4,
            }
        opts.update(self.storage_options)
        return opts

    def load_config(self):
        cfg = dict(self.config_overrides)
        cfg["storage"] = self.storage_config()
        self.Config, self.config_path, _ = env.load_config(cfg, self.scratch)
        return self.Config

    async def start(self, create_schema=True):
        if not hasattr(self, "Config"):
            self.load_config()
        loop = asyncio.get_running_loop()
        self.loop = loop
        self.executor = CountingExecutor(delay=self.exec_delay)
        loop.set_default_executor(self.executor)
        loop.set_exception_handler(self._on_loop_error)
        from nostr_relay import rate_limiter

        self.null_limiter = rate_limiter.NullRateLimiter()
        from nostr_relay import web

        if not self.real_throttle and not isinstance(web.asyncio, _AsyncioProxy):
            web.asyncio = _AsyncioProxy(asyncio)
        self.storage = await self.make_storage(create_schema=create_schema)
        import nostr_relay.storage as st

        st._STORAGE = self.storage
        return self

    async def make_storage(self, create_schema=True, options=None):
        opts = dict(options or self.Config.storage)
        if self.backend == "sql":
            from nostr_relay.storage import db, get_metadata

            storage = db.DBStorage(opts)
            await storage.setup()
            if create_schema:
                async with storage.db.begin() as conn:
                    await conn.run_sync(get_metadata().create_all)
        else:
            from nostr_relay.storage import kv

            if not isinstance(kv.queue, _QueueModule):
                kv.queue = _QueueModule()
            storage = kv.LMDBStorage(opts)
            await storage.setup()
        return storage

    def _on_loop_error(self, loop, context):
        self.loop_errors.append(
            {"message": context.get("message"), "exception": repr(context.get("exception"))}
        )

    async def close(self):
        for c in list(self.conns.values()):
            if not c.exited:
                c.disconnect()
        for c in list(self.conns.values()):
            if c.task:
                try:
                    await asyncio.wait_for(c.task, 10)
                except Exception:
                    pass
        if self.storage is not None:
            try:
                if getattr(self.storage, "stat_collector", None):
                    await self.storage.stat_collector.stop()
            except Exception:
                pass
            try:
                # a relay whose query threads are known to be stuck cannot be closed in an orderly way
                # (LMDBStorage.close() joins its pool): the worker process is simply left behind
                if not getattr(self, "abandon", False):
                    await self.storage.close()
            except Exception:
                pass
        from nostr_relay.util import Periodic

        Periodic.cancel_running()
        self.executor.shutdown(wait=False)

    # ---- connections -----------------------------------------------------------------
    def connect(self, name=None, **kw):
        name = name or "c%d" % (len(self.conns) + 1)
        if "addr" not in kw:
            n = len(self.conns) + 1
            kw["addr"] = "10.%d.%d.%d" % ((n >> 16) & 255, (n >> 8) & 255, n & 255)
        if name in self.conns:
            name = "%s~%d" % (name, len(self.conns))
        c = Conn(self, name, **kw)
        self.conns[name] = c
        return c.start()

    def subs_of(self, conn):
        """the relay's registry entry {sub_id: Subscription} of a virtual connection"""
        for cid, subs in list(self.storage.clients.items()):
            if str(cid).startswith(conn.addr + "-"):
                return subs
        return {}

    # ---- quiescence ------------------------------------------------------------------
    def writer_idle(self):
        if self.backend != "lmdb" or self.storage is None:
            return True
        q = getattr(self.storage, "writer_queue", None)
        if isinstance(q, CountingQueue):
            return q.idle()
        wt = self.storage.writer_thread
        return q.empty() and not wt.processing

    def busy_tasks(self):
        busy = []
        for t in asyncio.all_tasks():
            if t.done():
                continue
            co = t.get_coro()
            name = getattr(co, "__qualname__", "") or ""
            short = name.rsplit(".", 1)[-1]
            if short in BUSY_CORO_NAMES and "NotifyClient.connect" not in name:
                busy.append(name)
        return busy

    async def quiesce(self, timeout=60.0, settle=3):
        """
        Wait until: every live handler is parked in ws_recv having consumed all fed frames,
        no harness send in flight, no notify/run_query task alive, validator executor idle,
        LMDB writer idle, and `settle` consecutive loop turns add no boundary event.
        """
        t0 = _time.monotonic()
        calm = 0
        last_n = -1
        while True:
            ok = True
            for c in self.conns.values():
                if not c.exited and c.recv_calls < c.delivered + 1:
                    ok = False
                if c.sends_in_flight:
                    ok = False
                if not c.exited and not c.inbox.empty():
                    ok = False
            if ok and self.executor.in_flight:
                ok = False
            if ok and self.busy_tasks():
                ok = False
            if ok and not self.writer_idle():
                ok = False
            if ok and self.rec.n == last_n:
                calm += 1
                if calm >= settle:
                    return
            else:
                calm = 0
            last_n = self.rec.n
            await asyncio.sleep(0 if ok else 0.002)
            if _time.monotonic() - t0 > timeout:
                raise Inconclusive(
                    "no quiescence within %ss (busy=%s writer_idle=%s)"
                    % (timeout, self.busy_tasks()[:3], self.writer_idle())
                )


def run(coro_fn, *a, **k):
    """run an async case in a fresh event loop; returns its result"""
    loop = asyncio.new_event_loop()
    asyncio.set_event_loop(loop)
    try:
        return loop.run_until_complete(coro_fn(*a, **k))
    finally:
        try:
            pending = [t for t in asyncio.all_tasks(loop) if not t.done()]
            for t in pending:
                t.cancel()
            if pending:
                done, still = loop.run_until_complete(asyncio.wait(pending, timeout=5))
                if still and os.environ.get("VERIF_DEBUG"):
                    for t in still:
                        sys.stderr.write("task survived cancellation: %r\n" % (t,))
        except Exception:
            pass
        loop.close()
        gc.collect()


def ok_frames(conn, since_n=0):
    return [(n, f) for n, f in conn.parsed_frames(since_n) if isinstance(f, list) and f and f[0] == "OK"]


def split_req_answer(frames, sub_id):
    """frames [(n, parsed)] -> (events before first EOSE for sub_id, saw_eose, after)"""
    before, after = [], []
    eose = False
    for n, f in frames:
        if not isinstance(f, list) or len(f) < 2:
            continue
        if f[0] == "EOSE" and f[1] == sub_id:
            if not eose:
                eose = True
                continue
        if f[0] == "EVENT" and len(f) >= 3 and f[1] == sub_id:
            (after if eose else before).append((n, f[2]))
    return before, eose, after
