"""Store a validated seeded change under /verif/seeded/<name>/ (patch.diff, demo.py, notes.md, meta.json)
usage: python -m vf.seedsave <src dir> <name> <result.json> "<what it needs to manifest>" """
import json
import os
import shutil
import sys

HERE = os.path.dirname(os.path.dirname(os.path.abspath(__file__)))


def main():
    src, name, resfile, needs = sys.argv[1:5]
    res = json.load(open(resfile))
    dst = os.path.join(HERE, "seeded", name)
    os.makedirs(dst, exist_ok=True)
    for f in ("patch.diff", "demo.py", "notes.md"):
        if os.path.exists(os.path.join(src, f)):
            shutil.copy(os.path.join(src, f), os.path.join(dst, f))
    meta = {
        "breaks_property": res["property"],
        "needs_to_manifest": needs,
        "author": "independent sub-agent given only the property text and a scratch worktree",
        "validated": {
            "patch_applies_to_repo_head": res.get("patch_applies"),
            "diffstat": res.get("diffstat"),
            "demo_exit_on_unchanged_tree": res.get("demo_on_repo_rc"),
            "demo_exit_on_changed_tree": res.get("demo_on_mutant_rc"),
            "pinned_suite_36_stable_pass": res.get("suite_ok"),
        },
        "ran": ["python -m vf.seedtest <dir> --prop %s  (scratch worktree of /repo HEAD + git apply; demo on both trees; vf.baseline; ./vcheck <id> --tier quick with VERIF_REPO=<worktree>)" % res["property"]],
        "checks": {c: {"verdict": r["verdict"], "keys": r["keys"], "wall_s": r["wall"]} for c, r in res.get("checks", {}).items()},
        "caught_by": res.get("caught_by", []),
    }
    with open(os.path.join(dst, "meta.json"), "w") as fp:
        json.dump(meta, fp, indent=1)
    print(name, "caught by", meta["caught_by"])


if __name__ == "__main__":
    main()
