"""Store the validated round-2/3 seeded changes under /verif/seeded/ and print the DESIGN.md table rows.
usage: python -m vf.seedsave2 <out dir with Cxx/{A,B,C}> <result dir with Cxx-V.json> <python file defining R2 = {"Cxx-V": (slug, needs, widened, note)}> <round>
"""
import json
import os
import shutil
import sys

HERE = os.path.dirname(os.path.dirname(os.path.abspath(__file__)))


def load(resfile):
    t = open(resfile).read()
    return json.loads(t[t.index("{"):])


def main():
    out, resdir, table, rnd = sys.argv[1:5]
    ns = {}
    exec(open(table).read(), ns)
    rows = []
    for name in sorted(ns["R2"]):
        slug, needs, widened, note = ns["R2"][name]
        prop, v = name.split("-")
        src = os.path.join(out, prop, v)
        res = load(os.path.join(resdir, name + ".json"))
        dst = os.path.join(HERE, "seeded", "%s-R%s%s-%s" % (prop, rnd, v, slug))
        os.makedirs(dst, exist_ok=True)
        for f in ("patch.diff", "demo.py", "notes.md", "patch.as-delivered.diff"):
            if os.path.exists(os.path.join(src, f)):
                shutil.copy(os.path.join(src, f), os.path.join(dst, f))
        meta = {
            "breaks_property": prop,
            "round": int(rnd),
            "needs_to_manifest": needs,
            "author": "independent sub-agent given only the property text and a scratch worktree",
            "validated": {
                "patch_applies_to_repo_head": res.get("patch_applies"),
                "diffstat": res.get("diffstat"),
                "demo_exit_on_unchanged_tree": res.get("demo_on_repo_rc"),
                "demo_exit_on_changed_tree": res.get("demo_on_mutant_rc"),
                "pinned_suite_36_stable_pass": res.get("suite_ok"),
            },
            "ran": ["python -m vf.seedtest <dir> --prop %s --checks %s  (scratch worktree of /repo HEAD + git apply; demo on both trees; vf.baseline; "
                    "./vcheck <id> --tier quick with VERIF_REPO=<worktree>)" % (prop, ",".join(res.get("checks", {})))],
            "checks": {c: {"verdict": r["verdict"], "keys": r["keys"], "wall_s": r["wall"]} for c, r in res.get("checks", {}).items()},
            "caught_by": res.get("caught_by", []),
            "workload_widened_to_catch_it": bool(widened),
            "note": note,
        }
        with open(os.path.join(dst, "meta.json"), "w") as fp:
            json.dump(meta, fp, indent=1)
        caught = ", ".join("%s (`%s`)" % (c, (res["checks"][c]["keys"] or ["?"])[0]) for c in meta["caught_by"]) or "NOT CAUGHT"
        ok = (res.get("demo_on_repo_rc") == 0 and res.get("demo_on_mutant_rc") not in (0, None) and res.get("suite_ok") is True)
        rows.append("| `%s` | %s | %s | %s |%s" % (os.path.basename(dst), needs, caught, ("yes: " + note) if widened else note, "" if ok else " VALIDATION INCOMPLETE"))
    print("\n".join(rows))


if __name__ == "__main__":
    main()
