"""
Validate a seeded change and run checks against it, in a scratch worktree (never in /repo):
  python -m vf.seedtest <dir with patch.diff + demo.py> --prop C05 [--checks C05,C13 | --all] [--tier quick]
Steps: worktree of /repo HEAD -> git apply -> demo on /repo (must exit 0) and on the
worktree (must exit !=0) -> pinned suite in the worktree (36 stable tests) -> checks with
VERIF_REPO=<worktree> --no-evidence -> remove the worktree.  Prints a JSON summary.
"""
import argparse
import json
import os
import shutil
import subprocess
import sys
import tempfile
import time

VERIF = os.path.dirname(os.path.dirname(os.path.abspath(__file__)))
PY = "/venv/bin/python"


def sh(cmd, cwd=None, env=None, timeout=3600):
    p = subprocess.run(cmd, cwd=cwd, env=env, stdout=subprocess.PIPE, stderr=subprocess.STDOUT, timeout=timeout, shell=isinstance(cmd, str))
    return p.returncode, p.stdout.decode("utf-8", "replace")


def main():
    ap = argparse.ArgumentParser()
    ap.add_argument("dir")
    ap.add_argument("--prop", required=True)
    ap.add_argument("--checks", default="")
    ap.add_argument("--all", action="store_true")
    ap.add_argument("--tier", default="quick")
    ap.add_argument("--seed", default="0")
    ap.add_argument("--skip-suite", action="store_true")
    args = ap.parse_args()
    d = os.path.abspath(args.dir)
    wt = tempfile.mkdtemp(prefix="sv-", dir="/tmp")
    os.rmdir(wt)
    out = {"dir": d, "property": args.prop}
    try:
        rc, o = sh(["git", "-C", "/repo", "worktree", "add", "-q", "--detach", wt, "HEAD"])
        assert rc == 0, o
        rc, o = sh(["git", "-C", wt, "apply", os.path.join(d, "patch.diff")])
        out["patch_applies"] = rc == 0
        if rc != 0:
            out["apply_error"] = o[-500:]
            print(json.dumps(out, indent=1))
            return 2
        rc, o = sh(["git", "-C", wt, "diff", "--stat"])
        out["diffstat"] = o.strip().splitlines()[-1] if o.strip() else ""
        demo = os.path.join(d, "demo.py")
        if os.path.exists(demo):
            e = dict(os.environ, PYTHONHASHSEED="0")
            rc0, o0 = sh([PY, demo, "/repo"], cwd=d, env=e, timeout=900)
            rc1, o1 = sh([PY, demo, wt], cwd=d, env=e, timeout=900)
            out["demo_on_repo_rc"], out["demo_on_mutant_rc"] = rc0, rc1
            out["demo_on_repo_tail"], out["demo_on_mutant_tail"] = o0[-300:], o1[-400:]
        if not args.skip_suite:
            e = dict(os.environ, VERIF_REPO=wt, PYTHONPATH=VERIF)
            e.pop("NOSTR_RELAY_VERIF", None)
            rc, o = sh([PY, "-m", "vf.baseline"], cwd=VERIF, env=e, timeout=1800)
            out["suite_ok"] = rc == 0
            out["suite_line"] = o.strip().splitlines()[0] if o.strip() else ""
        checks = [c for c in args.checks.split(",") if c] or [args.prop]
        if args.all:
            checks = ["C%02d" % i for i in range(1, 21)]
        res = {}
        for c in checks:
            t0 = time.time()
            e = dict(os.environ, VERIF_REPO=wt)
            rc, o = sh([os.path.join(VERIF, "vcheck"), c, "--tier", args.tier, "--seed", args.seed, "--no-evidence"], cwd=VERIF, env=e, timeout=7200)
            keys = [l.split("key=", 1)[1].split(":", 1)[0] for l in o.splitlines() if l.strip().startswith("witness key=")]
            res[c] = {"rc": rc, "verdict": {0: "held", 1: "VIOLATION", 2: "inconclusive"}.get(rc, str(rc)), "keys": keys[:8], "wall": round(time.time() - t0, 1),
                      "first_witness": next((l.strip()[:400] for l in o.splitlines() if l.strip().startswith("witness key=")), "")}
        out["checks"] = res
        out["caught_by"] = [c for c, r in res.items() if r["rc"] == 1]
    finally:
        sh(["git", "-C", "/repo", "worktree", "remove", "--force", wt])
        shutil.rmtree(wt, ignore_errors=True)
    print(json.dumps(out, indent=1))
    return 0


if __name__ == "__main__":
    sys.exit(main())
