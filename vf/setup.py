"""setup_cmd: verify vendored liblmdb, run the shim conformance self-test, prepare dirs"""
import os
import sys

from . import shimtest


def main():
    here = os.path.dirname(os.path.dirname(os.path.abspath(__file__)))
    os.makedirs(os.path.join(here, "evidence"), exist_ok=True)
    os.makedirs(os.path.join(here, "out", "replay"), exist_ok=True)
    n, fails = shimtest.run()
    print("shim self-test: %d assertions, %d failures" % (n, len(fails)))
    for f in fails:
        print("  FAIL:", f)
    import nostr_relay

    print("nostr_relay from", os.path.dirname(nostr_relay.__file__))
    return 1 if fails else 0


if __name__ == "__main__":
    sys.exit(main())
