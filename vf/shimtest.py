"""
Conformance self-test of the ctypes lmdb shim against the documented py-lmdb behaviours
kv.py depends on.  Returns (n_assertions, failures).
"""
import hashlib
import os
import shutil
import tempfile
import threading

EXPECTED_SHA256 = "741b5aa312727b1f8ccd8c5dee368a5487d8cb275ef3144cf72d29e2579cdb70"


def run():
    from . import env

    env.setup_paths()
    import lmdb
    import msgpack

    fails = []
    n = [0]

    def check(cond, what):
        n[0] += 1
        if not cond:
            fails.append(what)

    if getattr(lmdb, "IS_VERIF_SHIM", False):
        with open(lmdb.LIB_PATH, "rb") as fp:
            digest = hashlib.sha256(fp.read()).hexdigest()
        check(digest == EXPECTED_SHA256, "liblmdb.so checksum %s" % digest)
        check(lmdb.version()[:2] == (0, 9), "liblmdb version %r" % (lmdb.version(),))
    d = tempfile.mkdtemp(prefix="vf-shimtest-")
    try:
        path = os.path.join(d, "db")
        envh = lmdb.open(path, max_spare_txns=5, map_size=8 * 1024 * 1024)
        check(os.path.isdir(path), "subdir created")
        check(envh.stat()["entries"] == 0, "empty env has 0 entries")
        with envh.begin(write=True) as txn:
            check(txn.put(b"b", b"1") is True, "put returns True")
            check(txn.put(b"d", b"2") is True, "put returns True (2)")
            check(txn.put(b"f", b"") is True, "empty value allowed")
        check(envh.stat()["entries"] == 3, "3 entries after commit")
        with envh.begin() as txn:
            check(txn.get(b"b") == b"1", "get existing")
            check(isinstance(txn.get(b"b"), bytes), "get returns bytes without buffers")
            check(txn.get(b"zz") is None, "get missing -> None")
            check(txn.get(b"zz", b"dflt") == b"dflt", "get default")
        with envh.begin(buffers=True) as txn:
            v = txn.get(b"b")
            check(isinstance(v, memoryview) and bytes(v) == b"1", "buffers=True gives memoryview")
            c = txn.cursor()
            check(c.key() == b"" or bytes(c.key()) == b"", "fresh cursor key() empty")
            check(c.set_range(b"c") is True and bytes(c.key()) == b"d", "set_range lands on >= key")
            check(isinstance(c.key(), memoryview), "cursor.key() memoryview under buffers")
            check(c.prev() is True and bytes(c.key()) == b"b", "prev after set_range")
            check(c.prev() is False, "prev at first -> False")
            check(bytes(c.key()) == b"", "key empty after failed prev")
            check(c.set_range(b"g") is False, "set_range past the end -> False")
            check(bytes(c.key()) == b"", "key() == b'' after failed set_range")
            check(c.prev() is True and bytes(c.key()) == b"f", "prev on unpositioned cursor -> last key")
            check(c.set_range(b"b") is True and bytes(c.key()) == b"b", "set_range exact")
            check(c.next() is True and bytes(c.key()) == b"d", "next")
            check(bytes(c.value()) == b"2", "value")
            c.close()
            c2 = txn.cursor()
            check([bytes(k) for k in c2.iternext(values=False)] == [b"b", b"d", b"f"], "iternext from unpositioned starts at first")
            c2.close()
            c3 = txn.cursor()
            check([bytes(k) for k in c3.iterprev(values=False)] == [b"f", b"d", b"b"], "iterprev from unpositioned starts at last")
            c3.close()
            c4 = txn.cursor()
            c4.set_range(b"d")
            check([bytes(k) for k in c4.iternext(values=False)] == [b"d", b"f"], "iternext continues from position")
            check([(bytes(k), bytes(v)) for k, v in txn.cursor().iternext()] == [(b"b", b"1"), (b"d", b"2"), (b"f", b"")], "iternext items")
            c4.close()
        # context manager aborts on exception
        try:
            with envh.begin(write=True) as txn:
                txn.put(b"x", b"y")
                raise RuntimeError("boom")
        except RuntimeError:
            pass
        with envh.begin() as txn:
            check(txn.get(b"x") is None, "exception inside with -> abort")
        # delete + cursor refresh after mutation in the same txn
        with envh.begin(write=True, buffers=True) as txn:
            c = txn.cursor()
            c.set_range(b"d")
            check(txn.delete(b"d") is True, "delete existing -> True")
            check(txn.delete(b"nope") is False, "delete missing -> False")
            k = bytes(c.key())
            check(k == b"f", "cursor.key() re-read after delete of current key -> next key (%r)" % k)
            check(c.prev() is True and bytes(c.key()) == b"b", "prev after delete adjusts")
            txn.put(b"d", b"2")
        # MVCC: a reader started before a write sees the old state
        r = envh.begin()
        with envh.begin(write=True) as w:
            w.put(b"h", b"new")
        check(r.get(b"h") is None, "snapshot isolation for readers")
        r.abort()
        with envh.begin() as r2:
            check(r2.get(b"h") == b"new", "new reader sees commit")
        # key size limit -> lmdb.Error subclass
        try:
            with envh.begin(write=True) as txn:
                txn.put(b"k" * 600, b"")
            check(False, "oversized key must raise")
        except lmdb.Error as e:
            check(isinstance(e, lmdb.BadValsizeError), "oversized key -> BadValsizeError")
        try:
            with envh.begin(write=True) as txn:
                txn.put(b"", b"")
            check(False, "empty key must raise")
        except lmdb.Error:
            check(True, "empty key raises")
        # str key -> TypeError like py-lmdb
        try:
            with envh.begin(write=True) as txn:
                txn.put("str", b"")
            check(False, "str key must raise TypeError")
        except TypeError:
            check(True, "str key TypeError")
        # write txn from another thread + readers in parallel
        def writer():
            with envh.begin(write=True) as txn:
                for i in range(200):
                    txn.put(b"t%04d" % i, b"v")

        th = threading.Thread(target=writer)
        th.start()
        for _ in range(50):
            with envh.begin() as txn:
                list(txn.cursor().iternext(values=False))
        th.join()
        check(envh.stat()["entries"] == 204, "entries after threaded writes (%d)" % envh.stat()["entries"])
        # map full -> MapFullError, txn aborted, env still usable
        try:
            with envh.begin(write=True) as txn:
                for i in range(100000):
                    txn.put(b"big%08d" % i, b"x" * 400)
            check(False, "map must fill")
        except lmdb.MapFullError:
            check(True, "MapFullError")
        with envh.begin() as txn:
            check(txn.get(b"big00000001") is None, "map-full txn left nothing")
        envh.close()
        check(True, "close")
        try:
            envh.begin()
            check(False, "begin on closed env must raise")
        except lmdb.Error:
            check(True, "closed env raises lmdb.Error")
        # reopen: durability
        env2 = lmdb.open(path)
        with env2.begin() as txn:
            check(txn.get(b"h") == b"new", "reopen sees committed data")
        env2.close()
        # msgpack round trip as kv.encode_event builds it
        row = (1, b"\x01" * 32, 1700000000, 1, b"\x02" * 32, "cé\x00", [["e", "a"], ["x", 5, None, True, [1]]], b"\x03" * 64)
        packed = msgpack.packb(row, use_bin_type=True)
        back = msgpack.unpackb(packed, use_list=False)
        check(back[1] == row[1] and back[5] == row[5], "msgpack bytes/str round trip")
        check(back[6] == (("e", "a"), ("x", 5, None, True, (1,))), "msgpack use_list=False gives tuples")
        try:
            msgpack.unpackb(None, use_list=False)
            check(False, "unpackb(None) must raise TypeError")
        except TypeError:
            check(True, "unpackb(None) TypeError")
        try:
            msgpack.packb((2**64,), use_bin_type=True)
            check(False, "2**64 must overflow")
        except OverflowError:
            check(True, "OverflowError on 2**64")
    finally:
        shutil.rmtree(d, ignore_errors=True)
    return n[0], fails


if __name__ == "__main__":
    n, fails = run()
    print("shim self-test: %d assertions, %d failures" % (n, len(fails)))
    for f in fails:
        print("  FAIL:", f)
    raise SystemExit(1 if fails else 0)
