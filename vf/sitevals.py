"""
A site's own validators (configured by dotted path like the stock ones) that happen to carry the NAMES of stock
validators: `storage.validators: [nostr_relay.validators.is_not_too_large, vf.sitevals.is_not_too_large]` is a legal
configuration and both must be evaluated for every event (C16).
"""
from nostr_relay.errors import StorageError

CALLS = []


def is_not_too_large(event, config):
    CALLS.append(("is_not_too_large", event.id))
    if "SITE-REFUSES" in (event.content or ""):
        raise StorageError("blocked: the site policy refuses this content")


def is_recent(event, config):
    CALLS.append(("is_recent", event.id))
    if event.kind == 7:
        raise StorageError("blocked: the site policy refuses reactions")
