"""
Event submissions for C03 / C04 / C06: valid seeds of every kind class and typed
single-/double-field corruptions of them.  Every case is built on a fresh base event with
a unique content token so that 'was THIS submission stored / forwarded' is unambiguous.
"""
import copy
import hashlib
import json
import random

from . import ref, gen

_TOKEN = [0]


def token(prefix="tk"):
    _TOKEN[0] += 1
    return "%s%06d" % (prefix, _TOKEN[0])


def rapid_id(ev):
    """id as the relay's hashing library (rapidjson) computes it for the given field
    values - used to build corrupted events that are *self-consistent* for the relay"""
    import rapidjson

    data = [0, ev["pubkey"], ev["created_at"], ev["kind"], ev["tags"], ev["content"]]
    return hashlib.sha256(rapidjson.dumps(data, ensure_ascii=False).encode()).hexdigest()


class Seeds:
    def __init__(self, seed, now=None):
        self.rng = random.Random(seed)
        self.keys = [ref.key_from_seed("s-%d" % i) for i in range(4)] + [ref.mined_key("00"), ref.mined_key("ff")]
        self.delegator = ref.key_from_seed("delegator-1")
        self.delegator2 = ref.key_from_seed("delegator-2")
        self.now = now or gen.T0

    def shapes(self):
        """(label, kwargs) of the valid seed shapes"""
        T = self.now
        out = []
        for kind in (1, 0, 3, 4, 7, 40, 1984, 9735, 10000, 10002, 19999, 30000, 30023, 39999, 40000, 65535):
            out.append(("kind%d" % kind, dict(kind=kind, created_at=T - 10)))
        out.append(("ephemeral", dict(kind=20000, created_at=T - 5)))
        out.append(("ephemeral2", dict(kind=29999, created_at=T - 5)))
        out.append(("tags-basic", dict(kind=1, tags=[["e", "00" * 32], ["p", "11" * 32, "wss://r"]], created_at=T - 3)))
        out.append(("tags-empty-value", dict(kind=1, tags=[["t", ""], ["d"]], created_at=T - 3)))
        out.append(("tags-unicode", dict(kind=1, tags=[["t", "é\U0001f600 "], ["é", "x"]], created_at=T - 3)))
        out.append(("d-tag", dict(kind=30000, tags=[["d", "slot"]], created_at=T - 2)))
        out.append(("content-escapes", dict(kind=1, content='q"b\\s/\n\r\t\b\f \x7f é \U0001f600', created_at=T - 2)))
        out.append(("content-empty", dict(kind=1, content="", created_at=T - 2)))
        out.append(("delegated", dict(kind=1, created_at=T - 2, delegated=True)))
        out.append(("delegated-repl", dict(kind=10001, created_at=T - 2, delegated=True)))
        out.append(("expiring", dict(kind=1, tags=[["expiration", str(T + 10 ** 6)]], created_at=T - 2)))
        out.append(("many-tags", dict(kind=1, tags=[["t", "v%d" % i] for i in range(60)], created_at=T - 2)))
        out.append(("big-content", dict(kind=1, content="x" * 3000, created_at=T - 2)))
        out.append(("old", dict(kind=1, created_at=1)))
        out.append(("ts-2^31-1", dict(kind=1, created_at=2 ** 31 - 1)))
        out.append(("deletion", dict(kind=5, tags=[["e", "22" * 32]], created_at=T - 1)))
        return out

    def build(self, shape_kwargs, key=None):
        kw = dict(shape_kwargs)
        key = key or self.rng.choice(self.keys)
        delegated = kw.pop("delegated", False)
        tk = token()
        content = kw.pop("content", None)
        content = tk if content is None else (content + " " + tk)
        ev = ref.make_event(key, content=content, delegation=(self.delegator, "kind=%d" % kw.get("kind", 1)) if delegated else None,
                            **kw)
        return ev, key, tk


def corruptions(seeds, shape_kwargs):
    """
    yields (label, raw_event, token, consistent) where `consistent` says the variant was
    re-hashed and re-signed so that the relay's own verify() succeeds on it
    """
    r = seeds.rng

    def base():
        return seeds.build(shape_kwargs)

    def resign_for_relay(ev, key):
        try:
            ev["id"] = rapid_id(ev)
            ev["sig"] = key.sign(bytes.fromhex(ev["id"]))
            return True
        except Exception:
            return False

    # ---- id -------------------------------------------------------------------------
    ev, key, tk = base()
    other, _, _ = base()
    yield "id=other-valid-hash", dict(ev, id=other["id"]), tk, False
    ev, key, tk = base()
    fake = hashlib.sha256(("fake" + tk).encode()).hexdigest()
    yield "id=random-hex", dict(ev, id=fake), tk, False
    ev, key, tk = base()
    e2 = dict(ev, id=fake)
    yield "id=random-hex+sig-over-supplied-id", dict(e2, sig=key.sign(bytes.fromhex(fake))), tk, False
    ev, key, tk = base()
    yield "id=upper-case", dict(ev, id=ev["id"].upper()), tk, False
    ev, key, tk = base()
    yield "id=63-chars", dict(ev, id=ev["id"][:63]), tk, False
    ev, key, tk = base()
    yield "id=65-chars", dict(ev, id=ev["id"] + "0"), tk, False
    ev, key, tk = base()
    yield "id=non-hex", dict(ev, id="zz" + ev["id"][2:]), tk, False
    for bad in (5, None, [], True):
        ev, key, tk = base()
        yield "id=%r" % (bad,), dict(ev, id=bad), tk, False
    ev, key, tk = base()
    e2 = dict(ev)
    del e2["id"]
    yield "id-missing", e2, tk, False
    # ---- pubkey ---------------------------------------------------------------------
    ev, key, tk = base()
    yield "pubkey=upper-case (id kept)", dict(ev, pubkey=ev["pubkey"].upper()), tk, False
    ev, key, tk = base()
    e2 = dict(ev, pubkey=ev["pubkey"].upper())
    ok = resign_for_relay(e2, key)
    yield "pubkey=upper-case (re-signed)", e2, tk, ok
    # hex followed / preceded by white space (bytes.fromhex skips blanks; a "$" in a pattern matches before "\n")
    for lab, fn in (("trailing-newline", lambda x: x + "\n"), ("leading-space", lambda x: " " + x), ("inner-space", lambda x: x[:32] + " " + x[32:])):
        ev, key, tk = base()
        e2 = dict(ev, pubkey=fn(ev["pubkey"]))
        ok = resign_for_relay(e2, key)
        yield "pubkey=hex-with-blank/%s (re-signed)" % lab, e2, tk, ok
        ev, key, tk = base()
        yield "sig=hex-with-blank/%s" % lab, dict(ev, sig=fn(ev["sig"])), tk, False
        ev, key, tk = base()
        yield "id=hex-with-blank/%s" % lab, dict(ev, id=fn(ev["id"])), tk, False
    ev, key, tk = base()
    yield "pubkey=other-key", dict(ev, pubkey=seeds.keys[(seeds.keys.index(key) + 1) % len(seeds.keys)].pk), tk, False
    # the relay's own service key as claimed author (its pubkey is public): forged signatures
    svc = ref.key_from_seed("service")
    ev, key, tk = base()
    yield "pubkey=relay-service-key (sig by sender)", dict(ev, pubkey=svc.pk), tk, False
    ev, key, tk = base()
    e2 = dict(ev, pubkey=svc.pk)
    e2["id"] = ref.compute_id(e2["pubkey"], e2["created_at"], e2["kind"], e2["tags"], e2["content"])
    e2["sig"] = key.sign(bytes.fromhex(e2["id"]))
    yield "pubkey=relay-service-key (re-hashed, sig by sender)", e2, tk, False
    ev, key, tk = base()
    e3 = dict(ev, pubkey=svc.pk, kind=31494, tags=[["d", "auth:" + key.pk], ["t", "auth"], ["p", key.pk]], content="s " + tk)
    e3["id"] = ref.compute_id(e3["pubkey"], e3["created_at"], e3["kind"], e3["tags"], e3["content"])
    e3["sig"] = "00" * 64
    yield "pubkey=relay-service-key (forged role assignment, zero sig)", e3, tk, False
    ev, key, tk = base()
    yield "pubkey=62-chars", dict(ev, pubkey=ev["pubkey"][:62]), tk, False
    ev, key, tk = base()
    yield "pubkey=66-chars", dict(ev, pubkey=ev["pubkey"] + "00"), tk, False
    ev, key, tk = base()
    yield "pubkey=non-hex", dict(ev, pubkey="zz" + ev["pubkey"][2:]), tk, False
    ev, key, tk = base()
    yield "pubkey=int", dict(ev, pubkey=5), tk, False
    # ---- sig ------------------------------------------------------------------------
    ev, key, tk = base()
    b = bytearray(bytes.fromhex(ev["sig"]))
    b[r.randrange(64)] ^= 1 << r.randrange(8)
    yield "sig=bit-flip", dict(ev, sig=bytes(b).hex()), tk, False
    ev, key, tk = base()
    other, okey, _ = seeds.build(shape_kwargs, key=key)
    yield "sig=of-other-event-same-key", dict(ev, sig=other["sig"]), tk, False
    ev, key, tk = base()
    yield "sig=upper-case", dict(ev, sig=ev["sig"].upper()), tk, True
    ev, key, tk = base()
    yield "sig=126-chars", dict(ev, sig=ev["sig"][:126]), tk, False
    ev, key, tk = base()
    yield "sig=zeros", dict(ev, sig="00" * 64), tk, False
    for bad in (None, 5, ""):
        ev, key, tk = base()
        yield "sig=%r" % (bad,), dict(ev, sig=bad), tk, False
    ev, key, tk = base()
    e2 = dict(ev)
    del e2["sig"]
    yield "sig-missing", e2, tk, False
    # ---- created_at / kind ------------------------------------------------------------
    for field in ("created_at", "kind"):
        ev, key, tk = base()
        v = ev[field]
        variants = [("str", str(v)), ("float.0", float(v)), ("float.5", v + 0.5), ("bool", True), ("neg", -1),
                    ("null", None), ("list", [v]), ("2^32", 2 ** 32), ("2^32+1", 2 ** 32 + 1), ("2^63-1", 2 ** 63 - 1),
                    ("2^63", 2 ** 63), ("2^64", 2 ** 64), ("str-space", " %d" % v), ("str-exp", "1e3")]
        if field == "created_at":
            variants += [("zero", 0)]
        for name, val in variants:
            ev, key, tk = base()
            yield "%s=%s (id kept)" % (field, name), dict(ev, **{field: val}), tk, False
            ev, key, tk = base()
            e2 = dict(ev, **{field: val})
            if field == "kind":
                # the relay coerces kind with int() before hashing: build the variant it will accept
                try:
                    coerced = int(val)
                except Exception:
                    coerced = None
                if coerced is not None:
                    e3 = dict(e2, kind=coerced)
                    if resign_for_relay(e3, key):
                        e3["kind"] = val
                        yield "%s=%s (re-signed over int())" % (field, name), e3, tk, True
                    continue
            ok = resign_for_relay(e2, key)
            yield "%s=%s (re-signed)" % (field, name), e2, tk, ok
    # ---- tags -------------------------------------------------------------------------
    for name, val in [("str", "x"), ("int", 5), ("null", None), ("obj", {"a": 1}), ("tag-is-str", ["e"]), ("tag-is-int", [5]),
                      ("empty-tag", [[]]), ("item-int", [["e", 5]]), ("item-float", [["e", 1.5]]), ("item-bool", [["e", True]]),
                      ("item-null", [["e", None]]), ("item-nested", [["e", ["x"]]]), ("item-obj", [["e", {"a": 1}]]),
                      ("name-int", [[5, "x"]]), ("bigint", [["e", 2 ** 70]])]:
        ev, key, tk = base()
        yield "tags=%s (id kept)" % name, dict(ev, tags=val), tk, False
        ev, key, tk = base()
        e2 = dict(ev, tags=val)
        ok = resign_for_relay(e2, key)
        yield "tags=%s (re-signed)" % name, e2, tk, ok
    # ---- content ----------------------------------------------------------------------
    ev, key, tk = base()
    yield "content=altered (old sig)", dict(ev, content=ev["content"] + "!"), tk, False
    for name, val in [("int", 5), ("null", None), ("list", ["x"]), ("obj", {})]:
        ev, key, tk = base()
        e2 = dict(ev, content=val)
        ok = resign_for_relay(e2, key)
        yield "content=%s (re-signed)" % name, e2, tk, ok
    # ---- keys -------------------------------------------------------------------------
    ev, key, tk = base()
    yield "extra-key", dict(ev, extra=1), tk, False
    ev, key, tk = base()
    yield "extra-key-ots", dict(ev, ots="x"), tk, False
    ev, key, tk = base()
    e2 = dict(ev)
    del e2["tags"]
    yield "tags-missing", e2, tk, False
    for name, val in [("list", [1, 2, 3]), ("str", "x"), ("null", None), ("int", 5)]:
        yield "event=%s" % name, val, "", False
    # ---- delegation -------------------------------------------------------------------
    for label, mut in [
        ("forged-sig", lambda t: t[:3] + ["00" * 64]),
        ("bitflip-sig", lambda t: t[:3] + [("%0128x" % (int(t[3], 16) ^ 1))]),
        ("3-items", lambda t: t[:3]),
        ("5-items", lambda t: t + ["x"]),
        ("delegator-upper", lambda t: [t[0], t[1].upper()] + t[2:]),
        ("delegator-non-hex", lambda t: [t[0], "zz" + t[1][2:]] + t[2:]),
        ("conditions-changed", lambda t: [t[0], t[1], t[2] + "&x=1", t[3]]),
        ("other-delegator", lambda t: [t[0], seeds.delegator2.pk] + t[2:]),
    ]:
        kw = dict(shape_kwargs)
        kw["delegated"] = True
        ev, key, tk = seeds.build(kw)
        tags = [list(t) for t in ev["tags"]]
        for i, t in enumerate(tags):
            if t[0] == "delegation":
                tags[i] = mut(t)
        e2 = dict(ev, tags=tags)
        ok = resign_for_relay(e2, key)
        yield "delegation=%s" % label, e2, tk, ok
    # transplanted: valid delegation tag issued to another delegatee
    kw = dict(shape_kwargs)
    kw["delegated"] = True
    donor, dkey, _ = seeds.build(kw)
    kw2 = dict(shape_kwargs)
    ev, key, tk = seeds.build(kw2, key=next(k for k in seeds.keys if k is not dkey))
    tags = [list(t) for t in ev["tags"]] + [t for t in donor["tags"] if t[0] == "delegation"]
    e2 = dict(ev, tags=tags)
    ok = resign_for_relay(e2, key)
    yield "delegation=transplanted", e2, tk, ok


def deep_equal(a, b):
    """type-strict deep equality of JSON values (1 != 1.0 != True)"""
    if type(a) is not type(b):
        return False
    if isinstance(a, dict):
        return a.keys() == b.keys() and all(deep_equal(a[k], b[k]) for k in a)
    if isinstance(a, list):
        return len(a) == len(b) and all(deep_equal(x, y) for x, y in zip(a, b))
    return a == b
