"""worker entry: python -m vf.worker <PROP> <spec.json> <out.json>"""
import importlib
import json
import sys
import os
import traceback


def main():
    prop, spec_path, out_path = sys.argv[1:4]
    with open(spec_path) as fp:
        spec = json.load(fp)
    mod = importlib.import_module("vf.checks.%s" % prop.lower())
    if "replay" in spec:
        res = mod.replay(spec["replay"], spec)
    else:
        res = mod.run_shard(spec)
    tmp = out_path + ".tmp"
    with open(tmp, "w") as fp:
        json.dump(res, fp, default=repr)
    os.replace(tmp, out_path)


if __name__ == "__main__":
    try:
        main()
    except SystemExit:
        raise
    except BaseException:
        traceback.print_exc()
        sys.stderr.flush()
        os._exit(3)
    sys.stdout.flush()
    sys.stderr.flush()
    # daemon/analysis threads of the relay must not keep the worker alive
    os._exit(0)
